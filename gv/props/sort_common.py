"""Shared model of gaftools/cli/sort.py for C09, C10 (and the opener rules of C17)."""

from __future__ import annotations

import ast

from ..core import AnalysisError, const_value, norm, walk_own, walk_stmts
from .common import key_of
from ..paths import enum_paths


class Model:
    pass


def build(ctx, rule):
    repo = ctx.repo
    mod = repo.module("gaftools.cli.sort", rule)
    m = Model()
    m.mod = mod
    m.f = None
    from ..core import tail_inlined as _ti

    def is_key_extraction(callee):
        return any(isinstance(r, ast.Return) and isinstance(r.value, ast.Tuple) and len(r.value.elts) >= 4 for r in ast.walk(callee.node))

    from ..core import desugar_ifexp, inline_bool_temps, inline_pure_temps, rotate_primed_loops, sink_into_branches, unroll_const_loops

    def _nf(f0):
        g = desugar_ifexp(_ti(repo, f0, keep=is_key_extraction))
        if g is not f0 and any(isinstance(l, ast.For) and isinstance(l.iter, ast.Name) for l in walk_own(g.node)):
            g = unroll_const_loops(sink_into_branches(g))  # `slots = (0, 1) if c else (1,); for s in slots: ...`
        if any(isinstance(c, ast.Call) and isinstance(c.func, ast.Attribute) and c.func.attr == "join" and const_value(c.func.value, None) == "" for c in walk_own(g.node)):
            from ..core import string_builders

            g = string_builders(g)  # the output line assembled through a list and one "".join
        return inline_pure_temps(inline_bool_temps(rotate_primed_loops(g)))

    for f in [_nf(f0) for f0 in mod.funcs.values()]:
        for n in walk_own(f.node):
            if isinstance(n, ast.Call) and isinstance(n.func, ast.Attribute) and n.func.attr == "sort" and any(k.arg == "key" for k in n.keywords):
                m.f = f
                m.sort_call = n
                m.list_var = norm(n.func.value)
            if isinstance(n, ast.Assign) and isinstance(n.value, ast.Call) and isinstance(n.value.func, ast.Name) and n.value.func.id == "sorted" and any(k.arg == "key" for k in n.value.keywords) and n.value.args and norm(n.targets[0]) == norm(n.value.args[0]):
                m.f = f
                m.sort_call = n.value
                m.list_var = norm(n.targets[0])
    if m.f is None:
        raise AnalysisError(rule, mod.relpath, "cannot find the function that sorts the alignment list")
    ctx.analysed_func(m.f)
    f = m.f
    # reader handle: the variable on which tell() and readline() are called in the first pass
    m.reader = None
    for n in walk_own(f.node):
        if isinstance(n, ast.Call) and isinstance(n.func, ast.Attribute) and n.func.attr == "seek":
            m.reader = norm(n.func.value)
    if m.reader is None:
        # the second pass may fetch the record through the parsing reader instead of re-reading the raw line
        for n in walk_own(f.node):
            if isinstance(n, ast.Call) and isinstance(n.func, ast.Name) and n.func.id in ("str", "repr", "format") and n.args and isinstance(n.args[0], ast.Call) and isinstance(n.args[0].func, ast.Attribute):
                callee = repo.resolve_call(f, n.args[0])
                if callee is not None and callee.module.name == "gaftools.gaf" and any(isinstance(x, ast.Call) and isinstance(x.func, ast.Attribute) and x.func.attr == "seek" for x in ast.walk(callee.node)):
                    ctx.violated("R09.1", f.where(n), f"the second pass writes `{norm(n)[:70]}`: the record is parsed and serialised again instead of copied, so what the parser drops or shortens (the read name after a blank, ds:Z:, a repeated field) is missing from the sorted file", key_of(f, "second-pass-reserialises"))
                    m.reader = "?"
        if m.reader is None:
            raise AnalysisError(rule, f.where(), "no seek() on the input handle: cannot identify the two-pass structure")
    if m.reader == "?":
        raise AnalysisError(rule, f.where(), "the raw two-pass structure is gone (records are fetched through the parsing reader)")
    # pass 1: the loop that appends to the list
    m.pass1 = None
    m.pass2 = None
    for n in walk_own(f.node):
        if isinstance(n, (ast.While, ast.For)):
            if any(isinstance(c, ast.Call) and isinstance(c.func, ast.Attribute) and c.func.attr == "append" and norm(c.func.value) == m.list_var for c in ast.walk(n)):
                if m.pass1 is None or any(x is n for x in ast.walk(m.pass1)):
                    m.pass1 = n
            if isinstance(n, ast.For) and norm(n.iter) == m.list_var:
                m.pass2 = n
    if m.pass1 is None or m.pass2 is None:
        raise AnalysisError(rule, f.where(), "cannot find the read pass (append loop) and the write pass (loop over the sorted list)")
    m.rec = norm(m.pass2.target)
    if any(isinstance(x, ast.Subscript) and isinstance(x.value, ast.Name) and x.value.id == m.rec for x in ast.walk(m.pass2)):
        raise AnalysisError(rule, f.where(m.pass2), f"the write pass reads the fields of the record `{m.rec}` by position (`{m.rec}[...]`): which field is which is not traced")
    m.append = [c for c in ast.walk(m.pass1) if isinstance(c, ast.Call) and isinstance(c.func, ast.Attribute) and c.func.attr == "append" and norm(c.func.value) == m.list_var][0]
    m.ctor = m.append.args[0] if m.append.args and isinstance(m.append.args[0], ast.Call) else None
    m.ctor_kw = {k.arg: k.value for k in m.ctor.keywords} if m.ctor is not None else {}
    # namedtuple fields for positional construction
    if m.ctor is not None and m.ctor.args:
        nt_defs = list(walk_own(f.node)) + [ast.Assign(targets=[ast.Name(id=k, ctx=ast.Store())], value=v) for k, v in mod.consts.items()]
        for n in nt_defs:
            if isinstance(n, ast.Assign) and isinstance(n.value, ast.Call) and norm(n.value.func).endswith("namedtuple") and norm(n.targets[0]) == norm(m.ctor.func):
                if len(n.value.args) >= 2 and isinstance(n.value.args[1], (ast.List, ast.Tuple)):
                    fields = [const_value(e) for e in n.value.args[1].elts]
                    for i, a in enumerate(m.ctor.args):
                        if i < len(fields):
                            m.ctor_kw[fields[i]] = a
    # key extraction
    m.unpack = None
    for st in walk_stmts(m.pass1.body):
        if isinstance(st, ast.Assign) and isinstance(st.targets[0], ast.Tuple) and isinstance(st.value, ast.Call):
            callee = repo.resolve_call(f, st.value)
            if callee is not None:
                m.unpack = st
                m.pa = callee
    if m.unpack is None:
        raise AnalysisError(rule, f.where(m.pass1), "cannot find the key-extraction call in the read pass")
    ctx.analysed_func(m.pa)
    from ..core import desugar_ifexp, inlined, tail_inlined

    m.pa = desugar_ifexp(inlined(repo, tail_inlined(repo, m.pa)))
    m.p1_paths = enum_paths(m.pass1.body, rule=rule, where=f.where(m.pass1))
    m.p2_paths = enum_paths(m.pass2.body, rule=rule, where=f.where(m.pass2))
    # writer handle and index parameters
    m.writer = None
    for n in ast.walk(m.pass2):
        if isinstance(n, ast.Call) and isinstance(n.func, ast.Attribute) and n.func.attr == "tell":
            m.writer = norm(n.func.value)
    return m


def returned_names(pa):
    for r in walk_own(pa.node):
        if isinstance(r, ast.Return) and isinstance(r.value, ast.Tuple):
            return [norm(e) for e in r.value.elts]
    return []


def field_source(m, attr):
    """record attribute -> name of the variable returned by the key-extraction function (or local expr)."""
    v = m.ctor_kw.get(attr)
    if v is None:
        return None
    names = [norm(t) for t in m.unpack.targets[0].elts]
    rn = returned_names(m.pa)
    if norm(v) in names and len(rn) == len(names):
        return ("ret", rn[names.index(norm(v))])
    return ("local", norm(v))


def is_handle_op(node, handle):
    return isinstance(node, ast.Call) and isinstance(node.func, ast.Attribute) and norm(node.func.value) == handle and node.func.attr in ("tell", "readline", "read", "seek", "write", "__next__", "readlines")


def orientation_counts_rule(ctx, pa, rule):
    """Both decisions of the key extraction (reverse anchoring, inversion flag) count orientations: every
    `.count('>')` / `.count('<')` must be taken on the list of *scaffold* orientations — the list that receives the
    orientation sign under the NO == 0 guard — not on the raw path (where every node and every sign counts)."""
    from ..core import local_defs
    from .common import key_of

    # the loop that collects the scaffold orientations looks at every node of the path: it does not stop early
    ol_ = scaffold_orientation_list(pa)
    if ol_ is not None:
        from ..core import own_loop_jumps

        for lp_ in walk_own(pa.node):
            if isinstance(lp_, ast.For) and any(isinstance(c_, ast.Call) and isinstance(c_.func, ast.Attribute) and c_.func.attr in ("append", "add") and norm(c_.func.value) == ol_ for c_ in ast.walk(lp_)):
                for j_ in own_loop_jumps(lp_.body):
                    if isinstance(j_, ast.Break):
                        ctx.violated(rule, pa.where(j_), "the loop over the nodes of the path stops early (`break`): the orientations of the remaining scaffold nodes are not counted, so the majority that picks the anchor end (and with it bo:i and the sort key) is taken over a prefix of the path (`>s1>s2<s5<s4<s3` is anchored as a forward path)", key_of(pa, "node-loop-break"))
    ld = local_defs(pa.node)
    recvs = {}
    for c in walk_own(pa.node):
        if isinstance(c, ast.Call) and isinstance(c.func, ast.Attribute) and c.func.attr == "count" and c.args and const_value(c.args[0]) in (">", "<"):
            r = c.func.value
            # through aliases
            for _ in range(3):
                if isinstance(r, ast.Name) and len(ld.get(r.id, [])) == 1 and isinstance(ld[r.id][0], ast.Name):
                    r = ld[r.id][0]
            recvs.setdefault(norm(r), []).append(c)
    if not recvs:
        # majority taken with max()/min() over a table of counts: ties are then resolved by the order in which the
        # orientations were first seen, but a tie must anchor on the first node (forward)
        for c in walk_own(pa.node):
            if isinstance(c, ast.Call) and isinstance(c.func, ast.Name) and c.func.id in ("max", "min") and any(k.arg == "key" for k in c.keywords) and c.args and isinstance(c.args[0], ast.Name):
                d = [x for x in ld.get(c.args[0].id, []) if x is not None]
                if d and isinstance(d[0], ast.Call) and norm(d[0].func).split(".")[-1] in ("Counter", "dict", "defaultdict"):
                    ctx.violated(rule, pa.where(c), f"the dominant orientation is chosen with `{norm(c)[:60]}`: on a tie between '>' and '<' the result is whichever orientation was seen first, so a tied alignment that starts reversed is anchored on its last node (ties must anchor on the first node)", key_of(pa, f"majority-by-max:{norm(c)[:50]}"))
        ol_ = scaffold_orientation_list(pa)
        if ol_ is not None and orientation_collection(pa, ol_) is not None:
            return  # decisions are predicates over the collection itself (a set of orientations, first / last element): evaluated on every short list
        raise AnalysisError(rule, pa.where(), "no orientation counts in the key extraction")
    appended = {}
    for c in walk_own(pa.node):
        if isinstance(c, ast.Call) and isinstance(c.func, ast.Attribute) and c.func.attr == "append" and isinstance(c.func.value, ast.Name):
            appended.setdefault(c.func.value.id, []).append(c)
    for r, calls in sorted(recvs.items()):
        ok = r in appended
        ctx.check(ok, rule, pa.where(calls[0]), f"orientation counts are taken on the list of scaffold orientations (filled under the NO == 0 guard), not on `{r}`" if not ok else "orientation counts are taken on the list of scaffold orientations", key_of(pa, f"count-receiver:{r}"), receiver=r, sites=len(calls))
    ctx.check(len(recvs) == 1, rule, pa.where(), "the anchoring decision and the inversion flag count the same list", key_of(pa, f"count-receivers:{sorted(recvs)}"), receivers=sorted(recvs))



# ---------------------------------------------------------------------------------------------
# finite evaluation of predicates over the list of scaffold orientations
# ---------------------------------------------------------------------------------------------


class ListUnsupported(Exception):
    pass


def orientation_lists(maxlen=4):
    import itertools

    for n in range(maxlen + 1):
        for combo in itertools.product(">", "<", repeat=1) if False else itertools.product("><", repeat=n):
            yield list(combo)


def eval_list_test(expr, olist, L, defs, depth=0, env0=None):
    """Value of `expr` when the local `olist` holds the list L (a tiny total interpreter: the list itself, count / index /
    len / in / set / all / any / comparisons / and-or-not / constants; single-definition temporaries are looked
    through).  Raises ListUnsupported for anything else."""

    def ev(e, env, d):
        if isinstance(e, ast.Constant):
            return e.value
        if isinstance(e, ast.Name):
            if e.id == olist:
                return L
            if e.id in env:
                return env[e.id]
            ds = defs.get(e.id)
            if ds and len(ds) == 1 and ds[0] is not None and d < 4:
                return ev(ds[0], env, d + 1)
            raise ListUnsupported(e.id)
        if isinstance(e, ast.UnaryOp):
            v = ev(e.operand, env, d)
            if isinstance(e.op, ast.Not):
                return not v
            if isinstance(e.op, ast.USub):
                return -v
            raise ListUnsupported(norm(e))
        if isinstance(e, ast.BoolOp):
            v = None
            for x in e.values:
                v = ev(x, env, d)
                if isinstance(e.op, ast.And) and not v:
                    return v
                if isinstance(e.op, ast.Or) and v:
                    return v
            return v
        if isinstance(e, ast.BinOp) and isinstance(e.op, (ast.Add, ast.Sub)):
            a_, b_ = ev(e.left, env, d), ev(e.right, env, d)
            try:
                return a_ + b_ if isinstance(e.op, ast.Add) else a_ - b_
            except TypeError:
                raise ListUnsupported("TypeError in " + norm(e))
        if isinstance(e, ast.Subscript):
            base = ev(e.value, env, d)
            try:
                if isinstance(e.slice, ast.Slice):
                    lo = ev(e.slice.lower, env, d) if e.slice.lower is not None else None
                    hi = ev(e.slice.upper, env, d) if e.slice.upper is not None else None
                    st = ev(e.slice.step, env, d) if e.slice.step is not None else None
                    return base[lo:hi:st]
                return base[ev(e.slice, env, d)]
            except (IndexError, TypeError, KeyError):
                raise ListUnsupported("subscript out of range: " + norm(e))
        if isinstance(e, ast.Call):
            if isinstance(e.func, ast.Attribute) and e.func.attr == "count" and len(e.args) == 1:
                return ev(e.func.value, env, d).count(ev(e.args[0], env, d))
            if isinstance(e.func, ast.Attribute) and e.func.attr == "index" and len(e.args) == 1:
                try:
                    return ev(e.func.value, env, d).index(ev(e.args[0], env, d))
                except ValueError:
                    raise ListUnsupported("index of a missing element")
            if norm(e.func) in ("Counter", "collections.Counter") and len(e.args) == 1 and not e.keywords:
                import collections as _c

                return _c.Counter(ev(e.args[0], env, d))
            if isinstance(e.func, ast.Name) and e.func.id == "range" and 1 <= len(e.args) <= 3:
                return list(range(*[ev(x, env, d) for x in e.args]))
            if isinstance(e.func, ast.Name) and e.func.id == "zip" and e.args:
                return list(zip(*[ev(x, env, d) for x in e.args]))
            if isinstance(e.func, ast.Name) and e.func.id in ("len", "set", "list", "sorted", "any", "all", "bool", "sum", "max", "min", "tuple", "reversed") and e.args:
                a = [ev(x, env, d) for x in e.args]
                try:
                    fn = {"len": len, "set": set, "list": list, "sorted": sorted, "any": any, "all": all, "bool": bool, "sum": sum, "max": max, "min": min, "tuple": tuple, "reversed": lambda x: list(reversed(x))}[e.func.id]
                    return fn(*a)
                except (TypeError, ValueError) as ex:
                    raise ListUnsupported(type(ex).__name__)
            raise ListUnsupported(norm(e)[:40])
        if isinstance(e, (ast.GeneratorExp, ast.ListComp, ast.SetComp)) and len(e.generators) == 1 and (isinstance(e.generators[0].target, ast.Name) or (isinstance(e.generators[0].target, ast.Tuple) and all(isinstance(t_, ast.Name) for t_ in e.generators[0].target.elts))):
            g_ = e.generators[0]
            out = []
            for item in ev(g_.iter, env, d):
                env2 = dict(env)
                if isinstance(g_.target, ast.Name):
                    env2[g_.target.id] = item
                else:
                    for t_, v_ in zip(g_.target.elts, item):
                        env2[t_.id] = v_
                if all(ev(c, env2, d) for c in g_.ifs):
                    out.append(ev(e.elt, env2, d))
            return set(out) if isinstance(e, ast.SetComp) else out
        if isinstance(e, (ast.Tuple, ast.List, ast.Set)):
            vals = [ev(x, env, d) for x in e.elts]
            return set(vals) if isinstance(e, ast.Set) else (tuple(vals) if isinstance(e, ast.Tuple) else vals)
        if isinstance(e, ast.Compare):
            left = ev(e.left, env, d)
            for op, r in zip(e.ops, e.comparators):
                right = ev(r, env, d)
                try:
                    ok = {ast.Eq: lambda a, b: a == b, ast.NotEq: lambda a, b: a != b, ast.Lt: lambda a, b: a < b, ast.LtE: lambda a, b: a <= b, ast.Gt: lambda a, b: a > b, ast.GtE: lambda a, b: a >= b, ast.In: lambda a, b: a in b, ast.NotIn: lambda a, b: a not in b, ast.Is: lambda a, b: a is b, ast.IsNot: lambda a, b: a is not b}[type(op)](left, right)
                except TypeError:
                    raise ListUnsupported("TypeError in " + norm(e))
                if not ok:
                    return False
                left = right
            return True
        if isinstance(e, ast.IfExp):
            return ev(e.body, env, d) if ev(e.test, env, d) else ev(e.orelse, env, d)
        raise ListUnsupported(norm(e)[:40])

    return ev(expr, dict(env0 or {}), depth)


def scaffold_orientation_list(pa):
    """name of the local list that collects the orientation sign of the scaffold nodes (the one appended to in the node loop
    and read by the decisions after it)"""
    cands = {}
    for c in walk_own(pa.node):
        if isinstance(c, ast.Call) and isinstance(c.func, ast.Attribute) and c.func.attr in ("append", "add") and isinstance(c.func.value, ast.Name) and len(c.args) == 1 and isinstance(c.args[0], ast.Name):
            cands.setdefault(c.func.value.id, []).append(c)
    names = [k for k in cands if "orient" in k or "dir" in k or "strand" in k] or list(cands)
    return names[0] if len(names) == 1 else None


def orientation_collection(pa, name):
    """constructor for the value the collection `name` holds after the node loop, given the list of scaffold orientations
    in path order: the list itself (append) or the set of its elements (add)"""
    kinds = {c.func.attr for c in walk_own(pa.node) if isinstance(c, ast.Call) and isinstance(c.func, ast.Attribute) and c.func.attr in ("append", "add") and isinstance(c.func.value, ast.Name) and c.func.value.id == name}
    if kinds == {"add"}:
        return set
    if kinds == {"append"}:
        return list
    return None
