"""Record emitters: every place that re-serialises a parsed GAF record, as tab-separated templates.

An emitter is (function, record variable, sink).  For each control-flow path through the emitting
region the text produced is folded into one template (gv.tmpl); a loop over the record's tag
mapping that appends/writes a sub-template becomes a ("rep", ...) part.
"""

from __future__ import annotations

import ast

from ..core import AnalysisError, const_value, norm, walk_own, walk_stmts
from ..paths import enum_paths
from .. import tmpl
from .common import gaf_schema, record_params


class Emitter:
    def __init__(self, func, rec, kind, region, sink_desc):
        self.func = func
        self.rec = rec
        self.kind = kind  # 'var' (string variable returned/put) | 'handle' (writes to a handle)
        self.region = region
        self.sink = sink_desc
        self.templates = []  # (path, parts)

    def where(self):
        return self.func.where(self.region[0] if self.region else None)


def tag_loop_template(loop, rec, tags_attr, var=None, handle=None):
    """If `loop` iterates the record's tag mapping and appends/writes one template per item,
    return ('rep', parts, loop); else None."""
    it = norm(loop.iter)
    base = f"{rec}.{tags_attr}"
    if it not in (base, base + ".keys()", base + ".items()", f"list({base})", f"list({base}.keys())", f"sorted({base})", f"sorted({base}.keys())", f"reversed({base})", f"reversed(list({base}.keys()))"):
        return None
    parts = []
    body = list(loop.body)
    # a filtered loop: `for k in tags: if T: <emit>` / `for k in tags: if T: continue; <emit>` — the filter is handed to the
    # rules (as for a filtered comprehension) together with the element template
    flt = None
    if len(body) == 1 and isinstance(body[0], ast.If) and not body[0].orelse and not any(isinstance(x, (ast.If, ast.Continue, ast.Break, ast.Assign)) for b_ in body[0].body for x in ast.walk(b_)):
        flt, body = body[0].test, list(body[0].body)
    elif len(body) >= 2 and isinstance(body[0], ast.If) and not body[0].orelse and len(body[0].body) == 1 and isinstance(body[0].body[0], ast.Continue) and not any(isinstance(x, (ast.If, ast.Continue, ast.Break, ast.Assign)) for b_ in body[1:] for x in ast.walk(b_)):
        t_ = body[0].test
        if isinstance(t_, ast.Compare) and len(t_.ops) == 1 and type(t_.ops[0]) in (ast.Eq, ast.NotEq, ast.In, ast.NotIn):
            flip = {ast.Eq: ast.NotEq, ast.NotEq: ast.Eq, ast.In: ast.NotIn, ast.NotIn: ast.In}[type(t_.ops[0])]
            flt = ast.copy_location(ast.Compare(left=t_.left, ops=[flip()], comparators=t_.comparators), t_)
        else:
            flt = ast.copy_location(ast.UnaryOp(op=ast.Not(), operand=t_), t_)
        body = body[1:]
    for st in body:
        if isinstance(st, ast.AugAssign) and isinstance(st.op, ast.Add) and var and norm(st.target) == var:
            parts += tmpl.of_expr(st.value)
        elif var and isinstance(st, ast.Expr) and isinstance(st.value, ast.Call) and isinstance(st.value.func, ast.Attribute) and st.value.func.attr == "append" and norm(st.value.func.value) == var and len(st.value.args) == 1 and len(body) == 1 and flt is None:
            # `for k in tags: columns.append(<item>)`: one more column per field of a list that is joined later
            return ("rep", tmpl.of_expr(st.value.args[0]), loop, "list-item")
        elif isinstance(st, ast.Expr):
            w = tmpl.is_write_call(st.value, {handle} if handle else None)
            if w:
                t = tmpl.of_expr(w[2])
                if w[0] == "print":
                    t = t + [("lit", "\n")]
                parts += t
            elif isinstance(st.value, ast.Constant):
                continue
            else:
                return ("rep", [("opaque", st.value)], loop)
        elif isinstance(st, (ast.If, ast.Continue, ast.Assign)):
            # filtered / transformed tag loop: keep it opaque, rules decide what to do
            return ("rep", [("opaque", ast.Constant(value="filtered tag loop: " + norm(st)[:60]))], loop)
    if flt is not None:
        loop.gv_filters = [flt]
        loop.gv_elt = tmpl._merge(parts)
        return ("rep", [("opaque", ast.Constant(value="filtered tag loop: " + norm(flt)[:60]))], loop)
    return ("rep", tmpl._merge(parts), loop)


class _Alias(ast.NodeTransformer):
    def __init__(self, names, target):
        self.names, self.target = names, target

    def visit_Name(self, node):
        if isinstance(node.ctx, ast.Load) and node.id in self.names:
            return ast.copy_location(ast.parse(self.target, mode="eval").body, node)
        return node


def fold(path, rec, tags_attr, var=None, handle=None, sink_call=None):
    """Fold one path.  Returns the parts emitted on this path (None if nothing)."""
    import copy

    b = tmpl.Builder(track_vars=[var] if var else [], handles={handle} if handle else set())
    emitted = None
    base = f"{rec}.{tags_attr}"
    aliases = set()  # local names bound to the record's tag mapping on this path (`optional = self.tags`)

    def dealias(node):
        if not aliases or not any(isinstance(x, ast.Name) and x.id in aliases for x in ast.walk(node)):
            return node
        new = _Alias(set(aliases), base).visit(copy.deepcopy(node))
        ast.fix_missing_locations(new)
        return new

    derived = {var} if var else set()  # locals whose value is built from the record string (`line = out + "\n"`)
    for e in path.events:
        if e.kind == "stmt" and isinstance(e.node, ast.Assign) and len(e.node.targets) == 1 and isinstance(e.node.targets[0], ast.Name):
            if norm(e.node.value) == base:
                aliases.add(e.node.targets[0].id)
                continue
            aliases.discard(e.node.targets[0].id)
            if var and e.node.targets[0].id not in derived and ({x.id for x in ast.walk(e.node.value) if isinstance(x, ast.Name)} & derived) and b.env.get(var) is not None:
                derived.add(e.node.targets[0].id)
                b.track.add(e.node.targets[0].id)
        if e.kind == "loop":
            r = tag_loop_template(dealias(e.node), rec, tags_attr, var, handle)
            if r is not None:
                if len(r) == 4:
                    cur_ = b.env.get(var)
                    if cur_ and cur_[0][0] == "listvar":
                        cur_[0][1].append(r[:3])
                    elif cur_ is not None:
                        b.env[var] = cur_ + [("opaque", ast.Constant(value=f"loop at line {e.node.lineno}"))]
                elif var and b.env.get(var) is not None:
                    b.env[var] = b.env[var] + [r]
                elif handle:
                    b.out = b.out + [r]
            else:
                # another loop that writes to the sink makes the path's template unknown
                for st in ast.walk(e.node):
                    if var and isinstance(st, ast.AugAssign) and norm(st.target) == var:
                        b.env[var] = (b.env.get(var) or []) + [("opaque", ast.Constant(value=f"loop at line {e.node.lineno}"))]
                    if handle and isinstance(st, ast.Call) and tmpl.is_write_call(st, {handle}):
                        b.out = b.out + [("opaque", ast.Constant(value=f"loop at line {e.node.lineno}"))]
            continue
        if e.kind != "stmt":
            continue
        st = e.node
        if sink_call is not None:
            x = sink_call(st, derived) if var else sink_call(st)
            if x is not None:
                emitted = tmpl._merge(tmpl.of_expr(x, b._env()))
                continue
        if aliases and isinstance(st, ast.Expr):
            st = dealias(st)
            b.stmt(st)
        else:
            b.feed(e)
        if var and isinstance(st, ast.Return) and st.value is not None and norm(st.value) in derived:
            emitted = b.env.get(norm(st.value))
        elif var and isinstance(st, ast.Return) and st.value is not None and b.env.get(var) and (derived & {x.id for x in ast.walk(st.value) if isinstance(x, ast.Name)}):
            emitted = tmpl._merge(tmpl.of_expr(dealias(st.value), b._env()))
        if var and isinstance(st, ast.Expr) and isinstance(st.value, (ast.Yield,)) and st.value.value is not None and norm(st.value.value) in derived:
            emitted = b.env.get(norm(st.value.value))
    if handle:
        return b.out or None
    return emitted


def split_record(parts):
    """-> (mandatory columns [list of parts per column], rest parts after the 12th column)"""
    cols = tmpl.columns(parts)
    return cols


def _partial_result(callee):
    """helpers that report failure by a boolean constant (the interval merge) are models of their own, not inlined"""
    return is_cigar_reverser(callee) or any(isinstance(r, ast.Return) and isinstance(r.value, ast.Constant) and isinstance(r.value.value, bool) for r in ast.walk(callee.node))


def is_cigar_reverser(callee):
    """The helper that reverses a CIGAR string, by role: one parameter that is cut into runs (groupby / findall / split)
    which are put together back to front.  It is a model of its own (C01 declares its arithmetic not decided)."""
    if len(callee.params) != 1:
        return False
    src = norm(callee.node)
    p0 = callee.params[0]
    cuts = any(isinstance(c, ast.Call) and norm(c.func).split(".")[-1] in ("groupby", "findall", "finditer", "split") and any(norm(a) == p0 for a in c.args) for c in ast.walk(callee.node))
    return cuts and ("[::-1]" in src or "reversed(" in src or ", -2)" in src or ", -1)" in src)


def candidate_template(n):
    """template of an emitter candidate: a string expression, or a list display of columns that is joined with tabs"""
    if isinstance(n, ast.List):
        return tmpl.join_entries("\t", [("item", tmpl.of_expr(e), e) for e in n.elts], n)
    return tmpl.of_expr(n)


def _joined_operand(a):
    """the list behind `map(str, L)` / `(str(x) for x in L)` / `[str(x) for x in L]` (each element written with str()), else a"""
    if isinstance(a, ast.Call) and isinstance(a.func, ast.Name) and a.func.id == "map" and len(a.args) == 2 and norm(a.args[0]) == "str":
        return a.args[1]
    if isinstance(a, (ast.GeneratorExp, ast.ListComp)) and len(a.generators) == 1 and not a.generators[0].ifs and isinstance(a.generators[0].target, ast.Name):
        v = a.generators[0].target.id
        if norm(a.elt) in (f"str({v})", v):
            return a.generators[0].iter
    return a


def find_emitters(ctx, rule):
    """All emitters of the program, located by shape: a template with >= 11 tab separators whose
    holes read >= 6 schema attributes of one record variable."""
    repo = ctx.repo
    cached = getattr(repo, "_emitters_cache", None)
    if cached is not None:
        return cached
    schema, extras = gaf_schema(repo, rule)
    tags_attr = extras["tags_attr"]
    from ..core import desugar_dict_get, fold_consts, hoist_calls, inline_access_aliases, inlined, tail_inlined, with_str_consts

    out = []
    for f0 in repo.all_funcs():
        if f0.module.name in ("gaftools.timer", "gaftools.__main__", "gaftools.cli"):
            continue
        body0 = [st for st in f0.node.body if not (isinstance(st, ast.Expr) and isinstance(st.value, ast.Constant))]
        if len(body0) == 1 and isinstance(body0[0], ast.Return) and repo.callers_of(f0):
            continue  # a single-return helper: analysed inlined into its callers
        # helpers of the same module are analysed inlined: statement-level (tail calls, procedures, result helpers) and
        # single-return helpers at expression level
        f = fold_consts(inlined(repo, tail_inlined(repo, hoist_calls(repo, f0), keep=_partial_result)))
        if any(isinstance(c, ast.Call) and ((isinstance(c.func, ast.Attribute) and c.func.attr == "get" and isinstance(c.func.value, ast.Name) and isinstance(f.module.consts.get(c.func.value.id), ast.Dict)) or norm(c.func) in ("Counter", "collections.Counter")) for c in walk_own(f.node)):
            from ..core import expand_table_dispatch, scalarise_counters

            f = fold_consts(scalarise_counters(expand_table_dispatch(f)))  # tallies kept in a Counter keyed through a literal table
        from ..core import fuse_staged_loops

        f = fuse_staged_loops(f)  # items staged in a list by one loop for the loop right after it: the single loop
        f = inline_access_aliases(desugar_dict_get(with_str_consts(f)))
        if any(isinstance(c, ast.Call) and isinstance(c.func, ast.Attribute) and c.func.attr == "join" and const_value(c.func.value, None) == "" for c in walk_own(f.node)):
            from ..core import string_builders

            from ..core import merge_tail_accumulator

            f = merge_tail_accumulator(string_builders(f))  # pieces collected in a list and joined once: the string they build
        recs = record_params(f, schema) | ({"self"} if f.cls == extras["class"] else set())
        if not recs:
            continue
        # list displays that are later joined with tabs: cols = [...]; "\t".join(cols)
        joined_names = {norm(_joined_operand(c.args[0])) for c in walk_own(f.node) if isinstance(c, ast.Call) and isinstance(c.func, ast.Attribute) and c.func.attr == "join" and const_value(c.func.value) == "\t" and c.args and isinstance(_joined_operand(c.args[0]), ast.Name)}
        list_joined = [st.value for st in walk_own(f.node) if isinstance(st, ast.Assign) and isinstance(st.value, ast.List) and isinstance(st.targets[0], ast.Name) and st.targets[0].id in joined_names]
        # candidate 12-column templates
        for n in walk_own(f.node):
            t = None
            if isinstance(n, (ast.BinOp, ast.JoinedStr)) or (isinstance(n, ast.Call) and isinstance(n.func, ast.Attribute) and n.func.attr == "format" and isinstance(n.func.value, ast.Constant) and isinstance(n.func.value.value, str)) or (isinstance(n, ast.List) and len(n.elts) >= 12 and n in list_joined):
                try:
                    t = candidate_template(n)
                except tmpl.TemplateError:
                    t = None
            if not t:
                continue
            lit = "".join(p[1] for p in t if p[0] == "lit")
            if lit.count("\t") < 11:
                continue
            rec = None
            cnt = {}
            for h in tmpl.holes(t):
                e = h[1]
                if isinstance(e, ast.Attribute) and isinstance(e.value, ast.Name) and e.value.id in recs and e.attr in schema:
                    cnt[e.value.id] = cnt.get(e.value.id, 0) + 1
            if cnt:
                rec = max(cnt, key=cnt.get)
            if rec is None or cnt[rec] < 6:
                continue
            out.append((f, rec, n))
    # de-duplicate nested expression matches (keep outermost per statement)
    uniq = []
    for f, rec, n in out:
        if any(f is f2 and n is not n2 and any(x is n for x in ast.walk(n2)) for f2, _, n2 in out):
            continue
        uniq.append((f, rec, n))
    repo._emitters_cache = (schema, extras, uniq)
    return schema, extras, uniq


def _stmt_containing(f, n):
    best = None
    for st in walk_stmts(f.node.body):
        if any(x is n for x in ast.walk(st)):
            if not isinstance(st, (ast.For, ast.While, ast.If, ast.With, ast.Try)):
                best = st
    return best


def _region(f, st):
    """Innermost for-loop body containing st whose loop variable is (or contains) the record; else the function body."""
    best = None
    for loop in walk_own(f.node):
        if isinstance(loop, ast.For) and any(x is st for x in ast.walk(loop)):
            if best is None or any(x is loop for x in ast.walk(best)):
                best = loop
    return best


def has_unlinked_tag_loop(f, rec, tags_attr, var=None):
    """the function walks the record's tag mapping (a loop or comprehension over rec.tags / .keys() / .items() or an alias of
    it) into something other than the string `var` the template rule follows (another accumulator, a list that is joined
    later): used when a template shows no repetition, to tell `no tags are written` from `written in a way not followed`."""
    base = f"{rec}.{tags_attr}"
    aliases = {base}
    for st in walk_stmts(f.node.body):
        if isinstance(st, ast.Assign) and len(st.targets) == 1 and isinstance(st.targets[0], ast.Name) and base in norm(st.value):
            aliases.add(st.targets[0].id)

    def over_tags(it):
        t = norm(it)
        return any(t == a or t.startswith(a + ".") or t.startswith(a + "[") or f"({a}" in t for a in aliases)

    for st in walk_stmts(f.node.body):
        if isinstance(st, ast.For) and over_tags(st.iter):
            sinks = {norm(x.target) for x in ast.walk(st) if isinstance(x, ast.AugAssign)} | {norm(x.func.value) for x in ast.walk(st) if isinstance(x, ast.Call) and isinstance(x.func, ast.Attribute) and x.func.attr in ("append", "extend", "write")}
            if sinks and var is not None and var not in sinks:
                return True
        elif isinstance(st, (ast.Assign, ast.AugAssign, ast.Expr, ast.Return)):
            comps = [c for c in ast.walk(st) if isinstance(c, ast.comprehension) and over_tags(c.iter)]
            if comps:
                tgt = norm(st.targets[0]) if isinstance(st, ast.Assign) else (norm(st.target) if isinstance(st, ast.AugAssign) else None)
                if tgt is not None and var is not None and tgt != var:
                    return True
    return False


def templates_of(ctx, f, rec, n, tags_attr, rule):
    st = _stmt_containing(f, n)
    if st is None:
        raise AnalysisError(rule, f.where(n), "cannot find the statement of the 12-column template")
    var = handle = None
    if isinstance(st, ast.Assign) and isinstance(st.targets[0], ast.Name):
        var = st.targets[0].id
    elif isinstance(st, ast.AugAssign) and isinstance(st.target, ast.Name):
        var = st.target.id
    elif isinstance(st, ast.Expr):
        w = tmpl.is_write_call(st.value)
        if w:
            handle = w[1]
    if var is None and handle is None:
        raise AnalysisError(rule, f.where(st), "12-column template is neither assigned to a variable nor written to a handle")
    loop = _region(f, st)
    # is the record the loop variable of that loop?
    region = f.node.body
    if loop is not None:
        tnames = {norm(e) for e in (loop.target.elts if isinstance(loop.target, ast.Tuple) else [loop.target])}
        if rec in tnames:
            region = loop.body
    sink = None
    if var:
        def sink(s, names=None, var=var):
            names = names or {var}
            if isinstance(s, ast.Expr) and isinstance(s.value, ast.Call):
                c = s.value
                if isinstance(c.func, ast.Attribute) and c.func.attr in ("put", "append", "write") and c.args:
                    for a in ast.walk(c.args[0]):
                        pass
                    # the string argument mentioning var: the innermost BinOp/Name containing var directly as an argument of a call
                    cand = None
                    for a in ast.walk(c):  # (breadth first: the outermost such argument, e.g. `"\t".join(map(str, cols)) + "\n"` rather than `cols`)
                        if isinstance(a, ast.Call) and cand is None:
                            for arg in a.args:
                                if (names & {x.id for x in ast.walk(arg) if isinstance(x, ast.Name)}) and not isinstance(arg, ast.Call):
                                    cand = arg
                    return cand
            return None
    paths = enum_paths(region, rule=rule, where=f.where(st))
    out = []
    for p in paths:
        if not any(e.kind == "stmt" and e.node is st for e in p.events):
            continue
        parts = fold(p, rec, tags_attr, var=var, handle=handle, sink_call=sink)
        if parts is None:
            continue
        out.append((p, parts))
    return st, var, handle, region, out
