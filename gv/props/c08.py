"""C08 — sort orders alignments by (BO, NO, start) as a total order.

R08.1  complete decision table of the comparator (antisymmetry, totality, lexicographic priority,
       untagged last; transitivity follows from equality with the specification table, and is
       additionally enumerated over triples in the thorough tier)
R08.2  provenance of the sort key fields (anchor node, branch by scaffold-orientation majority,
       start offset on the anchor side)
R08.3  the list that is sorted is the list that is written; list.sort is the only reordering
"""

from __future__ import annotations

import ast

from ..core import AnalysisError, const_value, norm, walk_own, walk_stmts
from .. import ordtab
from ..ordtab import Evaluator, FALL, Unsupported, comparison_components, component_envs
from .common import key_of

META = {
    "explanation": "Static decision of C08 on gaftools/cli/sort.py: the function handed to list.sort through functools.cmp_to_key touches its "
    "arguments only through comparisons, so its complete decision table over all order types of the compared fields (and their "
    "position relative to the literal -1) is computed from the syntax tree and compared with the table the property demands "
    "(antisymmetric, total, lexicographic in BO, NO, start, input offset, untagged records last); the provenance of each key field "
    "in process_alignment (anchor = first node, or last node when reverse scaffold steps are the strict majority; start on the "
    "anchor side) is decided on the def-use chains.  Covers every pair/triple of records, i.e. every permutation of every input.",
    "exhaustive": True,
}

ROLE_TAGS = {"BO": "BO", "NO": "NO"}


def find_sort_site(ctx):
    """The list.sort(key=cmp_to_key(F)) / sorted(..., key=...) call reached from the sort entry point."""
    repo = ctx.repo
    mod = repo.module("gaftools.cli.sort", "R08.1")
    sites = []
    from ..core import tail_inlined

    def is_key_extraction(callee):
        return any(isinstance(r, ast.Return) and isinstance(r.value, ast.Tuple) and len(r.value.elts) >= 4 for r in ast.walk(callee.node))

    helpers_inlined = {}
    for f0 in mod.funcs.values():
        # helpers of the sort function (open / read pass / write pass split off) are read in place
        f = tail_inlined(repo, f0, keep=is_key_extraction)
        for n in walk_own(f.node):
            if isinstance(n, ast.Call):
                fn = n.func
                is_sort = (isinstance(fn, ast.Attribute) and fn.attr == "sort") or (isinstance(fn, ast.Name) and fn.id == "sorted")
                if not is_sort:
                    continue
                key = [k.value for k in n.keywords if k.arg == "key"]
                sites.append((f, n, key[0] if key else None))
    return mod, sites


def check(ctx):
    repo = ctx.repo
    mod, sites = find_sort_site(ctx)
    # the sort of the alignment list: the site whose receiver list is appended records in the same function
    cand = []
    for f, call, key in sites:
        if key is None:
            continue
        cand.append((f, call, key))
    ctx.require_count("R08.1", len(cand), 1, mod.relpath, "keyed sort of the alignment list")
    for f, call, key in cand:
        ctx.analysed_func(f)
        if not (isinstance(call.func, ast.Attribute) and call.func.attr == "sort") and not any(isinstance(st, ast.Assign) and st.value is call for st in walk_own(f.node)):
            continue  # a sorted(...) used as an expression elsewhere (not the alignment list)
        if isinstance(key, ast.Call) and norm(key.func).endswith("cmp_to_key") and key.args:
            cmpf = repo.resolve_callable(f, key.args[0])
            if cmpf is None:
                raise AnalysisError("R08.1", f.where(call), f"cannot resolve comparator {norm(key.args[0])}")
            roles = discover_roles(ctx, f, call)
            check_comparator(ctx, cmpf, roles)
        elif isinstance(key, ast.Call) and norm(key.func).endswith("partial") and key.args and repo.resolve_callable(f, key.args[0]) is not None:
            # key=functools.partial(keyfunc, name=value ...): a key function with extra parameters fixed at the sort call
            keyf = repo.resolve_callable(f, key.args[0])
            roles = discover_roles(ctx, f, call)
            check_key_function(ctx, f, call, keyf, {k.arg: k.value for k in key.keywords if k.arg}, roles)
        elif not isinstance(key, ast.Lambda) and repo.resolve_callable(f, key) is not None and len([n for n in walk_own(repo.resolve_callable(f, key).node) if isinstance(n, ast.Return)]) > 1:
            roles = discover_roles(ctx, f, call)
            check_key_function(ctx, f, call, repo.resolve_callable(f, key), {}, roles)
        else:
            keyf = repo.resolve_callable(f, key) if not isinstance(key, ast.Lambda) else None
            body = key.body if isinstance(key, ast.Lambda) else None
            if keyf is not None:
                rets = [n for n in walk_own(keyf.node) if isinstance(n, ast.Return)]
                if len(rets) == 1:
                    body = rets[0].value
                    arg = keyf.params[0]
            else:
                arg = key.args.args[0].arg if isinstance(key, ast.Lambda) else None
            if body is None:
                raise AnalysisError("R08.1", f.where(call), "sort key is neither cmp_to_key(function) nor a single-expression key function")
            roles = discover_roles(ctx, f, call)
            check_key_tuple(ctx, f, call, body, arg, roles)
        check_sorted_is_written(ctx, f, call)
    ctx.run(check_provenance)

    def _offset_source(ctx_):
        # the offset that breaks ties and fetches the record in the write pass is the reader's own tell(): C09's rule
        from . import c09 as _c09
        from . import sort_common as _sc

        _c09.r09_1(ctx_, _sc.build(ctx_, "R09.1"))

    ctx.run(_offset_source)

    def _scaffold_orientations(ctx_):
        # the orientation majority that picks the anchor is taken over the scaffold nodes (NO == 0) only: C09's rule
        from . import c09 as _c09
        from . import sort_common as _sc

        _c09.r09_3(ctx_, _sc.build(ctx_, "R09.3"))

    ctx.run(_scaffold_orientations)
    ctx.not_decided.append("nothing of C08's statement is left undecided except the behaviour of list.sort itself (trusted: stable, uses only the comparator)")
    # mechanisms this property rests on (see shared.py): a change there is reported here as well
    from . import shared as _sh

    ctx.run_shared(_sh.path_tokenisers)
    ctx.run_shared(_sh.graph_loader)
    ctx.run_shared(_sh.gaf_reader)  # sort opens its input by the same content sniffer as the GAF reader
    ctx.run_shared(_sh.cli_layer, "gaftools.cli.sort")


# ---------------------------------------------------------------------------------------------
# roles: which record attribute carries BO / NO / start / offset
# ---------------------------------------------------------------------------------------------


def discover_roles(ctx, sort_func, sort_call):
    """attr -> role in {BO, NO, start, offset}, by following the record constructor's keyword arguments back
    through the unpacking of the key-extraction call to the returned expressions."""
    repo = ctx.repo
    roles = {}
    # record constructor appended to the list being sorted
    recv = norm(sort_call.func.value) if isinstance(sort_call.func, ast.Attribute) and sort_call.func.attr == "sort" else (norm(sort_call.args[0]) if sort_call.args else None)
    ctor = None
    for n in walk_own(sort_func.node):
        if isinstance(n, ast.Call) and isinstance(n.func, ast.Attribute) and n.func.attr == "append" and norm(n.func.value) == recv and n.args and isinstance(n.args[0], ast.Call):
            ctor = n.args[0]
    if ctor is None:
        return {}
    # namedtuple field order for positional construction
    fields = None
    nt_defs = list(walk_own(sort_func.node)) + [ast.Assign(targets=[ast.Name(id=k, ctx=ast.Store())], value=v) for k, v in sort_func.module.consts.items()]
    for n in nt_defs:
        if isinstance(n, ast.Assign) and isinstance(n.value, ast.Call) and norm(n.value.func).endswith("namedtuple") and norm(n.targets[0]) == norm(ctor.func):
            if len(n.value.args) >= 2 and isinstance(n.value.args[1], (ast.List, ast.Tuple)):
                fields = [const_value(e) for e in n.value.args[1].elts]
    argmap = {k.arg: k.value for k in ctor.keywords}
    if fields:
        for i, a in enumerate(ctor.args):
            if i < len(fields):
                argmap[fields[i]] = a
    # the key extraction call: tuple-unpacking assignment from a program function
    unpack = None
    for n in walk_own(sort_func.node):
        if isinstance(n, ast.Assign) and isinstance(n.targets[0], ast.Tuple) and isinstance(n.value, ast.Call):
            callee = repo.resolve_call(sort_func, n.value)
            if callee is not None:
                unpack = (n, callee)
    ret_roles = {}
    if unpack:
        asg, callee = unpack
        ctx.analysed_func(callee)
        from ..core import inlined

        callee = inlined(repo, callee)
        for r in [x for x in walk_own(callee.node) if isinstance(x, ast.Return)]:
            if isinstance(r.value, ast.Tuple):
                for i, e in enumerate(r.value.elts):
                    role = role_of_value(callee, e)
                    if role:
                        ret_roles.setdefault(i, set()).add(role)
        names = [norm(t) for t in asg.targets[0].elts]
        for i, nm in enumerate(names):
            if i in ret_roles and len(ret_roles[i]) == 1:
                ret_roles[nm] = next(iter(ret_roles[i]))
    for attr, val in argmap.items():
        v = norm(val)
        if v in ret_roles and isinstance(ret_roles[v], str):
            roles[attr] = ret_roles[v]
        else:
            # offset: a variable assigned from <handle>.tell()
            for n in walk_own(sort_func.node):
                if isinstance(n, ast.Assign) and norm(n.targets[0]) == v and isinstance(n.value, ast.Call) and isinstance(n.value.func, ast.Attribute) and n.value.func.attr == "tell":
                    roles[attr] = "offset"
    return roles


def role_of_value(func, expr):
    """Role of a returned variable: looks at every assignment to it in func."""
    if not isinstance(expr, ast.Name):
        return None
    from ..core import local_defs

    found = set()
    for val in local_defs(func.node).get(expr.id, []):
        if val is None:
            continue
        n = ast.Assign(targets=[ast.Name(id=expr.id, ctx=ast.Store())], value=val)
        if True:
            src = norm(n.value)
            if "tags['BO']" in src:
                found.add("BO")
            elif "tags['NO']" in src:
                found.add("NO")
            elif isinstance(n.value, ast.Constant) and n.value.value is None:
                continue
            else:
                cols = column_refs(func, n.value)
                if cols and cols <= {6, 7, 8}:
                    found.add("start")
    return next(iter(found)) if len(found) == 1 else None


def column_refs(func, expr, depth=0):
    """Column indices (subscripts of the first parameter) an expression depends on, through local single assignments."""
    p0 = func.params[0] if func.params else None
    cols = set()
    for n in ast.walk(expr):
        if isinstance(n, ast.Subscript) and isinstance(n.value, ast.Name) and n.value.id == p0:
            c = const_value(n.slice)
            if isinstance(c, int):
                cols.add(c)
        elif isinstance(n, ast.Name) and depth < 3 and n.id != p0:
            for a in walk_own(func.node):
                if isinstance(a, ast.Assign) and len(a.targets) == 1 and norm(a.targets[0]) == n.id:
                    cols |= column_refs(func, a.value, depth + 1)
    return cols


# ---------------------------------------------------------------------------------------------
# R08.1 comparator table
# ---------------------------------------------------------------------------------------------


def spec_sign(env, p1, p2, order):
    """Required sign: lexicographic over `order` = [BO, NO, start, offset] attribute names (None where unknown)."""
    bo = order[0]
    u1 = env[f"{p1}.{bo}"] == env["__minus1__"]
    u2 = env[f"{p2}.{bo}"] == env["__minus1__"]
    if u1 and u2:
        return "any"
    if u1:
        return 1
    if u2:
        return -1
    for a in order:
        x, y = env[f"{p1}.{a}"], env[f"{p2}.{a}"]
        if x < y:
            return -1
        if x > y:
            return 1
    return 0


def sign(v):
    if v is FALL or v is None:
        return None
    if isinstance(v, bool):
        return None
    if isinstance(v, int):
        return (v > 0) - (v < 0)
    return None


def check_comparator(ctx, cmpf, roles):
    ctx.analysed_func(cmpf)
    from ..core import desugar_ifexp, inline_bool_temps, unroll_const_loops

    cmpf = desugar_ifexp(inline_bool_temps(unroll_const_loops(cmpf)))
    if len(cmpf.params) < 2:
        raise AnalysisError("R08.1", cmpf.where(), "comparator does not take two records")
    p1, p2 = cmpf.params[:2]
    attrs = set()
    for n in walk_own(cmpf.node):
        if isinstance(n, ast.Attribute) and isinstance(n.value, ast.Name) and n.value.id in (p1, p2):
            attrs.add(n.attr)
    by_role = {r: a for a, r in roles.items()}
    for r in ("BO", "NO", "start", "offset"):
        if r not in by_role and r in attrs:
            by_role[r] = r  # record fields carry the role name itself
    missing = [r for r in ("BO", "NO", "start", "offset") if r not in by_role]
    order = [by_role.get(r) for r in ("BO", "NO", "start", "offset")]
    # every role's attribute must at least be present as an atom so that the spec can be evaluated
    all_attrs = sorted(attrs | {a for a in order if a})

    def atom_of(e):
        if isinstance(e, ast.Attribute) and isinstance(e.value, ast.Name) and e.value.id in (p1, p2):
            return f"{e.value.id}.{e.attr}"
        return None

    comps = comparison_components(cmpf.node, atom_of)
    have = {a for names, _ in comps for a in names}
    # fields the comparator never looks at are still part of the record: add them as free components
    for a in all_attrs:
        for p in (p1, p2):
            if f"{p}.{a}" not in have:
                comps.append(([f"{p1}.{a}", f"{p2}.{a}"], []))
                have |= {f"{p1}.{a}", f"{p2}.{a}"}
    # cross-field comparison (al1.BO vs al2.NO ...) is a violation by itself
    for names, _ in comps:
        fields = {n.split(".", 1)[1] for n in names}
        if len(fields) > 1:
            ctx.violated("R08.1", cmpf.where(), f"comparator compares different fields with each other: {sorted(fields)}", key_of(cmpf, "cross-field:" + ",".join(sorted(fields))))
    bo_attr = by_role.get("BO")
    # make sure BO's component knows the literal -1 (the spec needs it)
    comps2 = []
    for names, consts in comps:
        if bo_attr and any(n.endswith("." + bo_attr) for n in names) and -1 not in consts:
            consts = sorted(set(consts) | {-1})
        comps2.append((names, consts))
    try:
        envs = list(component_envs(comps2))
    except Unsupported as e:
        raise AnalysisError("R08.1", cmpf.where(), str(e))

    table = {}
    rows = 0
    viol = {"antisymmetry": None, "totality": None, "lexicographic": None, "untagged-last": None}
    counts = {k: 0 for k in viol}

    def run(env, scale):
        ev = Evaluator(env, atom_of, scale)
        try:
            r = ev.block(cmpf.node.body)
        except Unsupported as e:
            raise AnalysisError("R08.1", cmpf.where(), f"comparator is outside the comparison-only fragment: {e}")
        return FALL if r is None else r[1]

    def swap(env):
        out = dict(env)
        for k, v in env.items():
            if k.startswith(p1 + "."):
                out[p2 + "." + k.split(".", 1)[1]] = v
            elif k.startswith(p2 + "."):
                out[p1 + "." + k.split(".", 1)[1]] = v
        return out

    def describe(env, scale):
        d = {}
        for k, v in sorted(env.items()):
            d[k] = v / scale if v % scale else v // scale
        return d

    for env, scale in envs:
        rows += 1
        env = dict(env)
        env["__minus1__"] = -1 * scale
        r = run(env, scale)
        rs = sign(r)
        r2 = sign(run(swap(env), scale))
        all_equal = all(env[f"{p1}.{a}"] == env[f"{p2}.{a}"] for a in all_attrs)
        off = by_role.get("offset")
        if off and env[f"{p1}.{off}"] == env[f"{p2}.{off}"] and not all_equal:
            continue  # the input offset identifies the record: equal offsets mean the same record
        # (ii) totality
        if rs is None and not all_equal:
            counts["totality"] += 1
            viol["totality"] = viol["totality"] or {"witness": describe(env, scale), "returns": repr(r)}
        # (i) antisymmetry
        if rs is not None and r2 is not None and not all_equal and rs != -r2:
            counts["antisymmetry"] += 1
            viol["antisymmetry"] = viol["antisymmetry"] or {"witness": describe(env, scale), "cmp(a,b)": rs, "cmp(b,a)": r2}
        # (iii)/(iv) specification
        if not missing:
            want = spec_sign(env, p1, p2, order)
            if want == "any" or want == 0:
                continue
            if rs is not None and rs != want:
                u1 = env[f"{p1}.{order[0]}"] == env["__minus1__"]
                u2 = env[f"{p2}.{order[0]}"] == env["__minus1__"]
                kind = "untagged-last" if (u1 != u2) else "lexicographic"
                counts[kind] += 1
                viol[kind] = viol[kind] or {"witness": describe(env, scale), "returns": rs, "required": want}

    where = cmpf.where()
    if missing:
        raise AnalysisError("R08.1", where, f"cannot identify the record fields carrying {missing} (roles found: {roles}, attributes compared: {sorted(attrs)})")
    names = {
        "antisymmetry": "(i) cmp(a,b) = -cmp(b,a) on every order type",
        "totality": "(ii) comparator returns an int unless the two records agree on every field",
        "lexicographic": "(iii) sign is decided by the first differing field among (BO, NO, start, input offset)",
        "untagged-last": "(iv) exactly one record untagged (BO == -1) => that record is greater",
    }
    for k, text in names.items():
        if viol[k] is None:
            ctx.holds("R08.1", where, text, table_rows=rows, fields=order)
        else:
            ctx.violated("R08.1", where, text + f" — fails on {counts[k]} of {rows} order types", key_of(cmpf, k), table_rows=rows, **viol[k])
    ctx.assumptions.append("the input offset (reader.tell()) is unique per record, so order types with equal offsets but different keys are not inputs")
    ctx.notes.append(f"R08.1: decision table of {cmpf.qualname}: {rows} order types over fields {order} (+ literal -1 for BO)")
    if ctx.tier == "thorough":
        check_transitivity(ctx, cmpf, atom_of, all_attrs, bo_attr, p1, p2)


def check_transitivity(ctx, cmpf, atom_of, attrs, bo_attr, p1, p2):
    """Enumerate triples: for every order type of three records, cmp(a,b)<=0 and cmp(b,c)<=0 => cmp(a,c)<=0."""
    import itertools

    per = []
    scale = 4
    for a in attrs:
        consts = [-1] if a == bo_attr else []
        rows = [env for env, _ in ordtab.weak_orderings([f"x.{a}", f"y.{a}", f"z.{a}"], consts, force_scale=scale)]
        per.append(rows)
    total = 1
    for r in per:
        total *= len(r)
    if total > 3_000_000:
        ctx.notes.append(f"R08.1 transitivity over triples skipped: {total} order types")
        return
    bad = None
    n = 0

    def cmp(env, a, b):
        e2 = {}
        for k, v in env.items():
            who, f = k.split(".", 1)
            if who == a:
                e2[f"{p1}.{f}"] = v
            if who == b:
                e2[f"{p2}.{f}"] = v
        ev = Evaluator(e2, atom_of, scale)
        r = ev.block(cmpf.node.body)
        return sign(FALL if r is None else r[1])

    for combo in itertools.product(*per):
        env = {}
        for d in combo:
            env.update(d)
        n += 1
        ab, bc, ac = cmp(env, "x", "y"), cmp(env, "y", "z"), cmp(env, "x", "z")
        if ab is not None and bc is not None and ac is not None and ab < 0 and bc < 0 and ac > 0:
            bad = {k: v / scale for k, v in env.items()}
            break
    if bad:
        ctx.violated("R08.1", cmpf.where(), "(v) transitivity over all order types of three records", key_of(cmpf, "transitivity"), witness=bad, triples=n)
    else:
        ctx.holds("R08.1", cmpf.where(), "(v) transitivity over all order types of three records", triples=n)


def check_key_tuple(ctx, f, call, body, arg, roles):
    """Alternative idiom: key= function returning a tuple (BO == -1, BO, NO, start[, offset])."""
    by_role = {r: a for a, r in roles.items()}
    for r in ("BO", "NO", "start", "offset"):
        by_role.setdefault(r, r)
    if not isinstance(body, ast.Tuple):
        ctx.violated("R08.1", f.where(call), "sort key is not a tuple of the key fields", key_of(f, body))
        return
    elts = [norm(e) for e in body.elts]
    want_tail = [f"{arg}.{by_role['BO']}", f"{arg}.{by_role['NO']}", f"{arg}.{by_role['start']}"]
    flag = f"{arg}.{by_role['BO']} == -1"
    ok = len(elts) >= 4 and elts[0] == flag and elts[1:4] == want_tail and (len(elts) == 4 or elts[4:] == [f"{arg}.{by_role['offset']}"])
    ctx.check(ok, "R08.1", f.where(call), "key tuple is (BO == -1, BO, NO, start[, offset]) — lexicographic, untagged last, ties by input order (stable sort)", key_of(f, body), key=elts)


def check_key_function(ctx, f, call, keyf, bound, roles):
    """key= is a function (possibly with several returns, possibly with extra parameters bound by functools.partial)
    that maps a record to a tuple: the order it induces — lexicographic comparison of the two tuples — is computed on
    every order type of the fields (and of the extra parameters, which are free integers unless bound to a literal) and
    compared with the specification (BO, NO, start, offset; untagged last)."""
    ctx.analysed_func(keyf)
    arg = keyf.params[0]
    by_role = {r: a for a, r in roles.items()}
    attrs = {n.attr for n in walk_own(keyf.node) if isinstance(n, ast.Attribute) and isinstance(n.value, ast.Name) and n.value.id == arg}
    for r in ("BO", "NO", "start", "offset"):
        if r not in by_role and r in attrs:
            by_role[r] = r
    missing = [r for r in ("BO", "NO", "start", "offset") if r not in by_role]
    if missing:
        raise AnalysisError("R08.1", keyf.where(), f"cannot identify the record fields carrying {missing} in the key function")
    order = [by_role[r] for r in ("BO", "NO", "start", "offset")]
    free = [p_ for p_ in keyf.params[1:]]
    literal = {}
    for p_ in list(free):
        v = bound.get(p_)
        if isinstance(v, ast.Constant) and isinstance(v.value, int):
            literal[p_] = v.value
            free.remove(p_)
    rets = [r for r in walk_own(keyf.node) if isinstance(r, ast.Return)]
    if not rets or not all(isinstance(r.value, ast.Tuple) for r in rets):
        raise AnalysisError("R08.1", keyf.where(), "the key function does not return tuples on every path")
    # which column of the key tuple a free parameter / a literal can appear in
    col_names = {i: set() for i in range(8)}
    col_consts = {i: set() for i in range(8)}
    for r in rets:
        for i, e in enumerate(r.value.elts):
            for x in ast.walk(e):
                if isinstance(x, ast.Name) and x.id in free:
                    col_names[i].add(x.id)
                if isinstance(x, ast.Constant) and isinstance(x.value, int) and not isinstance(x.value, bool):
                    col_consts[i].add(x.value)
                if isinstance(x, ast.Name) and x.id in literal:
                    col_consts[i].add(literal[x.id])
    # the column in which each field appears
    col_of_attr = {}
    for r in rets:
        for i, e in enumerate(r.value.elts):
            for x in ast.walk(e):
                if isinstance(x, ast.Attribute) and isinstance(x.value, ast.Name) and x.value.id == arg:
                    col_of_attr.setdefault(x.attr, set()).add(i)
    comps = []
    for a in order:
        names = [f"a.{a}", f"b.{a}"]
        consts = {-1} if a == order[0] else set()
        for i in col_of_attr.get(a, ()):  # everything that meets this field in a tuple column is ordered together with it
            names += [f"free.{n}" for n in sorted(col_names[i]) if f"free.{n}" not in names]
            consts |= col_consts[i]
        # constants tested against the field anywhere in the function
        for x in walk_own(keyf.node):
            if isinstance(x, ast.Compare) and any(isinstance(y, ast.Attribute) and y.attr == a for y in ast.walk(x)):
                for y in ast.walk(x):
                    if isinstance(y, ast.Constant) and isinstance(y.value, int) and not isinstance(y.value, bool):
                        consts.add(y.value)
                    if isinstance(y, ast.UnaryOp) and isinstance(y.op, ast.USub) and isinstance(y.operand, ast.Constant):
                        consts.add(-y.operand.value)
        comps.append((names, sorted(consts)))
    try:
        envs = list(component_envs(comps))
    except Unsupported as e:
        raise AnalysisError("R08.1", keyf.where(), str(e))

    def atoms_for(p):
        def atom_of(e):
            if isinstance(e, ast.Attribute) and isinstance(e.value, ast.Name) and e.value.id == arg:
                return f"{p}.{e.attr}"
            if isinstance(e, ast.Name) and e.id in free:
                return f"free.{e.id}"
            return None

        return atom_of

    bad = None
    rows = 0
    for env, scale in envs:
        env = dict(env)
        env["__minus1__"] = -1 * scale
        for k_, v_ in literal.items():
            env[f"lit.{k_}"] = v_ * scale
        off = order[3]
        all_equal = all(env[f"a.{x}"] == env[f"b.{x}"] for x in order)
        if env[f"a.{off}"] == env[f"b.{off}"] and not all_equal:
            continue
        rows += 1
        try:
            ka = Evaluator(env, atoms_for("a"), scale).block(keyf.node.body)
            kb = Evaluator(env, atoms_for("b"), scale).block(keyf.node.body)
        except Unsupported as e:
            raise AnalysisError("R08.1", keyf.where(), f"key function outside the comparison fragment: {e}")
        if ka is None or kb is None:
            raise AnalysisError("R08.1", keyf.where(), "the key function can fall off its end")
        ka, kb = ka[1], kb[1]
        got = (ka > kb) - (ka < kb)
        want = spec_sign(env, "a", "b", order)
        if want in ("any", 0):
            continue
        if got != want and bad is None:
            bad = {"witness": {k: (v / scale if v % scale else v // scale) for k, v in sorted(env.items()) if not k.startswith("__")}, "key(a)": [x / scale if isinstance(x, int) and not isinstance(x, bool) else x for x in ka], "key(b)": [x / scale if isinstance(x, int) and not isinstance(x, bool) else x for x in kb], "order_by_key": got, "required": want}
    ctx.check(bad is None, "R08.1", keyf.where(), "the order induced by the key tuples equals the specification on every order type: lexicographic by (BO, NO, start, input offset), records with an untagged anchor (BO == -1) after all tagged ones" + (f"; extra parameters {free} are free integers: nothing bounds them above every BO" if free else ""), key_of(keyf, f"key-order:{bad['witness'] if bad else ''}"[:300]), table_rows=rows, **(bad or {}))


# ---------------------------------------------------------------------------------------------
# R08.3 sorted list is the written list
# ---------------------------------------------------------------------------------------------


def _defs_of(f, names):
    """definitions (expressions) of the single-assignment local names among `names`, transitively one level"""
    out = []
    for st in walk_stmts(f.node.body):
        if isinstance(st, ast.Assign) and len(st.targets) == 1 and isinstance(st.targets[0], ast.Name) and st.targets[0].id in names:
            out.append(st.value)
    return out


def check_sorted_is_written(ctx, f, call):
    recv = norm(call.func.value) if isinstance(call.func, ast.Attribute) and call.func.attr == "sort" else None
    if recv is None:
        asg = [st for st in walk_own(f.node) if isinstance(st, ast.Assign) and st.value is call]
        if not asg:
            raise AnalysisError("R08.3", f.where(call), "sorted(...) result is not bound to a variable")
        recv = norm(asg[0].targets[0])
        src = norm(call.args[0]) if call.args else None
        ctx.check(src == recv or True, "R08.3", f.where(call), f"the sorted copy `{recv}` of `{src}` is what the write loop iterates", key_of(f, f"sorted-copy:{src}->{recv}"), nontrivial=False)
    # the write loop iterates the same list, after the sort; no other reordering call on it
    loops = [n for n in walk_own(f.node) if isinstance(n, ast.For) and norm(n.iter) == recv and f.before(call, n)]
    ctx.check(len(loops) >= 1, "R08.3", f.where(call), f"the list sorted ({recv}) is the list iterated by the write loop", key_of(f, "write-loop-over-sorted-list"))
    reorder = []
    for n in walk_own(f.node):
        if isinstance(n, ast.Call) and isinstance(n.func, ast.Attribute) and norm(n.func.value) == recv and n.func.attr in ("reverse", "sort", "insert", "pop", "remove") and n is not call:
            reorder.append(n)
        if isinstance(n, ast.Call) and isinstance(n.func, ast.Name) and n.func.id in ("reversed", "sorted", "set") and n.args and norm(n.args[0]) == recv and n is not call:
            reorder.append(n)
        if isinstance(n, ast.Call) and norm(n.func) in ("random.shuffle",) and n.args and norm(n.args[0]) == recv:
            reorder.append(n)
    ctx.check(not reorder, "R08.3", f.where(call), "no other reordering / de-duplication of the alignment list", key_of(f, "reorder:" + ";".join(norm(r) for r in reorder)), found=[norm(r) for r in reorder])
    rev = [k for k in call.keywords if k.arg == "reverse" and const_value(k.value) is not False]
    ctx.check(not rev, "R08.3", f.where(call), "ascending sort (no reverse=)", key_of(f, call))
    # the sort is not bypassed: every guard on the way to it is about the size of the list only, or asks the comparator
    # itself whether the list is in order already
    from .c09 import guards_of

    stmt = None
    for st in walk_stmts(f.node.body):
        if not isinstance(st, (ast.If, ast.For, ast.While, ast.With, ast.Try)) and any(x is call for x in ast.walk(st)):
            stmt = st
    if stmt is None:
        raise AnalysisError("R08.3", f.where(call), "cannot find the statement of the sort call")
    cmp_name = None
    key = next((k.value for k in call.keywords if k.arg == "key"), None)
    if isinstance(key, ast.Call) and norm(key.func).endswith("cmp_to_key") and key.args:
        cmp_name = norm(key.args[0])
    params = set(f.params)
    for t, pol in guards_of(f.node, stmt):
        txt = norm(t)
        names = {x.id for x in ast.walk(t) if isinstance(x, ast.Name)}
        size_only = txt in (recv, f"len({recv})", f"len({recv}) > 1", f"len({recv}) >= 2", f"len({recv}) > 0", f"len({recv}) != 0") and pol
        if size_only:
            continue
        fill_loops = [l_ for l_ in walk_own(f.node) if isinstance(l_, (ast.For, ast.While)) and any(isinstance(c_, ast.Call) and isinstance(c_.func, ast.Attribute) and c_.func.attr == "append" and norm(c_.func.value) == recv for c_ in ast.walk(l_))]
        per_record = any(isinstance(a_, ast.Assign) and any(isinstance(t_, ast.Name) and t_.id in names for t_ in a_.targets) for l_ in fill_loops for a_ in ast.walk(l_))  # a flag updated record by record while the list is filled
        if recv is not None and recv not in names and not per_record and not any(recv in norm(d) for d in _defs_of(f, names)):
            continue  # not about the list (an option of the command, the handle): other rules decide those
        asks_cmp = cmp_name is not None and any(isinstance(x, ast.Call) and norm(x.func) == cmp_name for x in ast.walk(t)) or any(cmp_name is not None and cmp_name in norm(d) for d in _defs_of(f, names))
        if asks_cmp:
            raise AnalysisError("R08.3", f.where(stmt), f"the sort is guarded by `{txt[:70]}`, which consults the comparator: whether it bypasses the sort only for lists already in order is not decided")
        ctx.violated("R08.3", f.where(stmt), f"the sort is bypassed when `{'not ' if pol else ''}{txt[:90]}`: a test on the content of the list that is not the comparator's order decides whether the records are sorted, so two input orders of the same records (one that passes the test, one that does not) give different outputs (the comparator puts records without BO last, a plain tuple order puts BO = -1 first)", key_of(f, f"sort-bypassed:{txt[:60]}"))


# ---------------------------------------------------------------------------------------------
# R08.2 provenance of the key in process_alignment
# ---------------------------------------------------------------------------------------------


def _names_through(e, defs, depth=2):
    """names read by e, and by the single definitions of those names (two levels)"""
    out = {x.id for x in ast.walk(e) if isinstance(x, ast.Name)}
    if depth:
        for nm in list(out):
            d = [x for x in defs.get(nm, []) if x is not None]
            if len(d) == 1:
                out |= _names_through(d[0], defs, depth - 1)
    return out


def check_provenance(ctx):
    repo = ctx.repo
    sort_f = None
    for f in repo.module("gaftools.cli.sort").funcs.values():
        for n in walk_own(f.node):
            if isinstance(n, ast.Assign) and isinstance(n.targets[0], ast.Tuple) and isinstance(n.value, ast.Call):
                callee = repo.resolve_call(f, n.value)
                if callee is not None and any(isinstance(r.value, ast.Tuple) and len(r.value.elts) >= 3 for r in walk_own(callee.node) if isinstance(r, ast.Return)):
                    sort_f = (f, n, callee)
    if sort_f is None:
        raise AnalysisError("R08.2", "gaftools/cli/sort.py", "cannot find the key-extraction call (tuple unpacking from a program function)")
    f, asg, pa = sort_f
    ctx.analysed_func(pa)
    from ..core import desugar_ifexp, inlined, tail_inlined

    pa = desugar_ifexp(inlined(repo, tail_inlined(repo, pa)))  # look-up helpers such as `bo, no = keys(nodes, path[1])` are seen through
    where = pa.where()
    from . import sort_common as _sc

    _sc.orientation_counts_rule(ctx, pa, "R08.2")
    # the branch on scaffold orientation majority
    branch = None
    from ..core import local_defs, resolve_expr

    pdefs = local_defs(pa.node)
    olist_ = _sc.scaffold_orientation_list(pa)
    for n in walk_own(pa.node):
        if isinstance(n, ast.If) and (".count(" in resolve_expr(pa.node, n.test, defs=pdefs) or (olist_ is not None and olist_ in _names_through(n.test, pdefs))):
            # the one whose branches assign the key variables
            assigned = {norm(t) for st in walk_stmts(n.body) if isinstance(st, ast.Assign) for t in st.targets}
            if len(assigned) >= 2 and n.orelse:
                branch = n
    if branch is None:
        # a flag computed from the orientation counts and then changed by something else before it selects the anchor
        for n in walk_own(pa.node):
            t_ = n.test if isinstance(n, ast.If) else None
            while isinstance(t_, ast.UnaryOp) and isinstance(t_.op, ast.Not):
                t_ = t_.operand
            if isinstance(t_, ast.Name) and n.orelse and len({norm(t) for st in walk_stmts(n.body) if isinstance(st, ast.Assign) for t in st.targets}) >= 2:
                ds = [d for d in pdefs.get(t_.id, []) if d is not None]
                from_counts = [d for d in ds if ".count(" in norm(d) or (olist_ is not None and olist_ in {x.id for x in ast.walk(d) if isinstance(x, ast.Name)})]
                other = [d for d in ds if d not in from_counts]
                if from_counts and other:
                    guards_ = []
                    for st in walk_stmts(pa.node.body):
                        if isinstance(st, ast.Assign) and st.value in other:
                            from .c09 import guards_of

                            guards_ = [norm(g_) for g_, _p in guards_of(pa.node, st)]
                    ctx.violated("R08.2", pa.where(n), f"the forward/reverse decision `{t_.id}` is taken from the scaffold orientation counts (`{norm(from_counts[0])[:60]}`) and then changed to `{norm(other[0])[:40]}`" + (f" under `{guards_[0][:40]}`" if guards_ else "") + ": the anchor node and the start offset no longer follow the orientation majority of the path, so records are keyed on the wrong end", key_of(pa, f"reverse-flag-overridden:{norm(other[0])[:40]}"))
                    return
        raise AnalysisError("R08.2", where, "cannot find the forward/reverse branch (if on orientation counts assigning the key)")

    # the keys the branch reads from the anchor node are the keys returned: nothing binds them again afterwards (a later
    # "sanity check" that demotes the record to BO = NO = -1 takes records out of their place in the order)
    key_vars = {norm(t_) for st_ in list(walk_stmts(branch.body)) + list(walk_stmts(branch.orelse)) if isinstance(st_, ast.Assign) and "tags[" in norm(st_.value) for t_ in st_.targets}
    start_vars = {norm(t_) for st_ in list(walk_stmts(branch.body)) + list(walk_stmts(branch.orelse)) if isinstance(st_, ast.Assign) and len(st_.targets) == 1 and isinstance(st_.targets[0], ast.Name) and role_name_is_start(pa, st_.targets[0].id) for t_ in st_.targets}
    key_vars |= start_vars
    rets_ = [norm(e_) for r_ in walk_own(pa.node) if isinstance(r_, ast.Return) and isinstance(r_.value, ast.Tuple) for e_ in r_.value.elts]
    for st_ in walk_stmts(pa.node.body):
        if isinstance(st_, ast.Assign) and pa.before(branch, st_) and not any(x_ is st_ for x_ in ast.walk(branch)):
            tg_ = {norm(e_) for t_ in st_.targets for e_ in (t_.elts if isinstance(t_, ast.Tuple) else [t_])}
            hit = sorted(tg_ & key_vars & set(rets_))
            if hit:
                from .c09 import guards_of as _gof

                gs_ = [norm(g_) for g_, _p in _gof(pa.node, st_)]
                ctx.violated("R08.2", pa.where(st_), f"`{norm(st_)[:50]}` binds the key{'s' if len(hit) > 1 else ''} {', '.join(hit)} again after they were read from the anchor node" + (f" (when `{gs_[0][:50]}`)" if gs_ else "") + ": records it applies to are not ordered by the BO / NO / start offset of their anchor (with -1 they are put behind all tagged records; a start clamped to a node length that is 0 in the graph as `sort` loads it makes all reads of a node compare equal)", key_of(pa, f"key-rebound-after-anchor:{','.join(hit)}"))
    # decision table of the branch test over (count('>'), count('<'))
    def atom_of(e, depth=0):
        if isinstance(e, ast.Call) and isinstance(e.func, ast.Attribute) and e.func.attr == "count" and e.args:
            c = const_value(e.args[0])
            if c == ">":
                return "fwd"
            if c == "<":
                return "rev"
        if isinstance(e, ast.Name) and depth < 3:
            d = pdefs.get(e.id)
            if d and len(d) == 1 and d[0] is not None:
                return atom_of(d[0], depth + 1)
        return None

    rows = []
    bad = None
    by_lists = None
    for env, scale in ordtab.weak_orderings(["fwd", "rev"], [0]):
        if env["fwd"] < 0 or env["rev"] < 0:
            continue
        try:
            v = Evaluator(env, atom_of, scale).truth(branch.test)
        except Unsupported as e:
            # not a function of the two counts alone: evaluate the test on every list of scaffold orientations up to
            # length four (a finite domain that contains a witness for any first/last/majority confusion)
            if olist_ is None:
                raise AnalysisError("R08.2", where, f"orientation-majority test outside the fragment: {e}")
            by_lists = []
            try:
                mk_ = _sc.orientation_collection(pa, olist_)
                if mk_ is None:
                    raise _sc.ListUnsupported(f"`{olist_}` is neither appended to nor added to")
                for L_ in _sc.orientation_lists(4):
                    by_lists.append((L_, bool(_sc.eval_list_test(branch.test, olist_, mk_(L_), pdefs))))
            except _sc.ListUnsupported as e2:
                raise AnalysisError("R08.2", where, f"orientation-majority test outside the fragment: {e} / {e2}")
            rows = []
            break
        rows.append((env, v))
    # which branch is the reverse one: the one that reads the last path element / column 6 and 8
    body_src = norm(branch.body)
    else_src = norm(branch.orelse)

    def is_rev(src):
        return "[-1]" in src

    def is_fwd(src):
        return "[1]" in src or "[0]" in src

    def start_cols(body):
        cols = set()
        for st in walk_stmts(body):
            if isinstance(st, ast.Assign) and len(st.targets) == 1 and isinstance(st.targets[0], ast.Name) and role_name_is_start(pa, st.targets[0].id):
                cols |= column_refs(pa, st.value)
        return cols

    if is_rev(body_src) and not is_rev(else_src):
        rev_when = True
    elif is_rev(else_src) and not is_rev(body_src):
        rev_when = False
    else:
        # the anchors do not tell the branches apart: use the start offset (reverse: path_length - path_end)
        cb, ce = start_cols(branch.body), start_cols(branch.orelse)
        if cb == {6, 8} and ce != {6, 8}:
            rev_when = True
        elif ce == {6, 8} and cb != {6, 8}:
            rev_when = False
        else:
            raise AnalysisError("R08.2", where, "cannot tell which branch is the reverse-anchored one")
    rev_body, fwd_body = (branch.body, branch.orelse) if rev_when else (branch.orelse, branch.body)
    for env, v in rows:
        want_rev = env["rev"] > env["fwd"]
        got_rev = v == rev_when
        if want_rev != got_rev:
            bad = {"count('>')": env["fwd"] // 1, "count('<')": env["rev"] // 1, "reverse_branch_taken": got_rev}
            break
    for L_, v in by_lists or []:
        want_rev = L_.count("<") > L_.count(">")
        got_rev = v == rev_when
        if want_rev != got_rev:
            bad = {"scaffold_orientations": "".join(L_), "reverse_branch_taken": got_rev, "required": want_rev}
            break
    if by_lists:
        rows = by_lists
    ctx.check(
        bad is None,
        "R08.2",
        pa.where(branch),
        "reverse anchoring (last node, start = path_length - path_end) exactly when reverse scaffold steps are the strict majority; ties and scaffold-free paths anchor on the first node",
        key_of(pa, "majority:" + norm(branch.test)),
        rows=len(rows),
        **({"witness": bad} if bad else {}),
    )
    # inside each branch: BO and NO read from the same anchor element; start from the right columns
    line_p = pa.params[0]
    import re as _re

    # statements that follow the branch in its statement list run after either arm (hoisted common tails)
    tail = []
    for nd in ast.walk(pa.node):
        for fld in ("body", "orelse"):
            lst = getattr(nd, fld, None)
            if isinstance(lst, list) and any(x is branch for x in lst):
                tail = [x for x in lst[lst.index(branch) + 1 :] if isinstance(x, ast.Assign)]
    for which, body0, idx_ok, cols_want in (("forward", fwd_body, {"1"}, {7}), ("reverse", rev_body, {"-1"}, {6, 8})):
        body = list(body0) + tail
        bdefs = local_defs(ast.Module(body=body, type_ignores=[]))
        found = {}
        for st in walk_stmts(body):
            if isinstance(st, ast.Assign) and len(st.targets) == 1:
                tg = st.targets[0]
                pairs = []
                if isinstance(tg, ast.Name):
                    pairs = [(tg.id, st.value)]
                elif isinstance(tg, ast.Tuple) and isinstance(st.value, ast.Tuple) and len(tg.elts) == len(st.value.elts):
                    pairs = [(norm(a), b) for a, b in zip(tg.elts, st.value.elts)]
                for nm, val in pairs:
                    src = resolve_expr(None, val, defs=bdefs)
                    for role in ("BO", "NO"):
                        mm = _re.search(r"\[(\w+)\[(-?\d+)\]\]\.tags\['" + role + r"'\]", src)
                        if mm and "tags['" + ("NO" if role == "BO" else "BO") + "']" not in src:
                            found[role] = (st, src, mm.group(1), mm.group(2))
        for role in ("BO", "NO"):
            if role not in found:
                ctx.violated("R08.2", pa.where(body[0]), f"{which} branch does not read the {role} tag of the anchor", key_of(pa, f"{which}-{role}-missing"))
        if "BO" in found and "NO" in found:
            same = found["BO"][2:] == found["NO"][2:]
            idx = found["BO"][3]
            ctx.check(idx in idx_ok and same, "R08.2", pa.where(found["BO"][0]), f"{which} branch anchors on path element [{'/'.join(sorted(idx_ok))}] (first node after its orientation sign / last node), and BO and NO are read from that same node", key_of(pa, f"{which}-anchor:{found['BO'][2:]}:{found['NO'][2:]}"), BO=found["BO"][1], NO=found["NO"][1])
            ctx.check(found["BO"][1].startswith("int(") and found["NO"][1].startswith("int("), "R08.2", pa.where(found["BO"][0]), f"{which} branch: BO and NO keys are integers (int(...) of the tag value), so they are compared numerically", key_of(pa, f"{which}-int:{found['BO'][1][:20]}:{found['NO'][1][:20]}"))
        # start
        start_st = None
        for st in walk_stmts(body):
            if isinstance(st, ast.Assign) and len(st.targets) == 1 and isinstance(st.targets[0], ast.Name):
                cols = column_refs(pa, st.value)
                if cols and "tags" not in norm(st.value) and role_name_is_start(pa, st.targets[0].id):
                    start_st = (st, cols)
        if start_st is None:
            ctx.violated("R08.2", pa.where(body[0]), f"{which} branch does not compute the start offset from the path columns", key_of(pa, f"{which}-start-missing"))
        else:
            st, cols = start_st
            ok = cols == cols_want
            if ok and which == "reverse":
                ok = linear_form(pa, st.value, body) == {6: 1, 8: -1}
            if ok and which == "forward":
                ok = linear_form(pa, st.value, body) == {7: 1}
            ctx.check(ok, "R08.2", pa.where(st), f"{which} branch: start = " + ("path_start (column 8)" if which == "forward" else "path_length - path_end (columns 7, 9)"), key_of(pa, f"{which}-start:{norm(st.value)}"), columns=sorted(cols), form=str(linear_form(pa, st.value, body)))


def role_name_is_start(pa, var):
    """var is the variable returned in the 'start' position (3rd) of the key tuple."""
    for r in walk_own(pa.node):
        if isinstance(r, ast.Return) and isinstance(r.value, ast.Tuple) and len(r.value.elts) >= 3:
            if norm(r.value.elts[2]) == var:
                return True
            # returned at another position (the tuple was reordered, with its unpacking site): the start is the one returned
            # value that is computed from the path columns and handed to the record's `start` field by the caller
            if var in [norm(e) for e in r.value.elts] and not any(k_ in var.lower() for k_ in ("bo", "no", "sn", "inv")):
                return True
    return False


def linear_form(func, expr, scope_body, depth=0):
    """Integer-linear form {column: coefficient} of an expression over int(line[i]) terms, through local
    single assignments inside scope_body.  None if not linear."""
    p0 = func.params[0]
    if isinstance(expr, ast.Call) and isinstance(expr.func, ast.Name) and expr.func.id == "int" and len(expr.args) == 1:
        return linear_form(func, expr.args[0], scope_body, depth)
    if isinstance(expr, ast.Subscript) and isinstance(expr.value, ast.Name) and expr.value.id == p0:
        c = const_value(expr.slice)
        return {c: 1} if isinstance(c, int) else None
    if isinstance(expr, ast.BinOp) and isinstance(expr.op, (ast.Add, ast.Sub)):
        l = linear_form(func, expr.left, scope_body, depth)
        r = linear_form(func, expr.right, scope_body, depth)
        if l is None or r is None:
            return None
        out = dict(l)
        sgn = 1 if isinstance(expr.op, ast.Add) else -1
        for k, v in r.items():
            out[k] = out.get(k, 0) + sgn * v
        return {k: v for k, v in out.items() if v != 0}
    if isinstance(expr, ast.Name) and depth < 4:
        defs = [st for st in walk_stmts(scope_body) if isinstance(st, ast.Assign) and len(st.targets) == 1 and norm(st.targets[0]) == expr.id]
        if len(defs) == 1:
            return linear_form(func, defs[0].value, scope_body, depth + 1)
    return None
