"""C20 — phase annotates every record without altering it.

R20.1  columns 1–12 of the emitted record are the parsed columns, each from its own attribute
R20.2  optional fields: exactly one repetition over the parsed tag mapping, key and value adjacent
R20.3  well-formed line: every column after the twelfth starts with a `xx:T:` prefix, no empty column
R20.4  ps / ht carry contig-phase-set and haplotype of the *first* TSV row of the read, 'none' exactly
       when the read is absent from the TSV or unphased; exactly one ps and one ht per record
R20.5  one output record per input record, one line separator per record
"""

from __future__ import annotations

import ast
import re

from ..core import AnalysisError, const_value, norm, walk_own, walk_stmts, names_in
from ..paths import enum_paths, canon_test
from .. import tmpl, relang
from . import emit
from .c19 import tag_loop, tag_regex_info, key_group_items
from .c09 import guards_of
from .common import key_of

META = {
    "explanation": "Static decision of gaftools phase's emitter: every control-flow path through one record of add_phase_info is folded into a "
    "tab-separated string template of everything written to the output handle; the template must consist of the twelve parsed columns in "
    "schema order (strand included), exactly one ps:Z: and one ht:Z: column, then exactly one repetition over the record's parsed tag "
    "mapping with key and value adjacent, no empty or unprefixed column, and one line separator; the values in ps/ht are traced to the "
    "TSV columns through the per-read table, which must be filled insert-if-absent (first row of a read wins) and never updated; the "
    "'none' branch is taken exactly when the read is absent or its haplotype is 'none'.",
    "technique": "static analysis: string templates over enumerated paths, def-use provenance through the per-read table, guard decision table",
}

TAGPFX = re.compile(r"^[A-Za-z][A-Za-z0-9]:[AifZHB]:")


def check(ctx):
    repo = ctx.repo
    schema, extras, ems = emit.find_emitters(ctx, "R20.1")
    mine = [(f, rec, n) for f, rec, n in ems if f.module.name == "gaftools.cli.phase"]
    ctx.require_count("R20.1", len(mine), 1, "gaftools/cli/phase.py", "record emitter of phase")
    f, rec, n = mine[0]
    ctx.analysed_func(f)
    st, var, handle, region, out = emit.templates_of(ctx, f, rec, n, extras["tags_attr"], "R20.1")
    if not out:
        raise AnalysisError("R20.1", f.where(st), "no path emits a record")
    var_mode = handle is None
    if handle is None and var is not None:
        # the record is assembled in a variable and written in one piece: the handle is the receiver of that write
        sinks = [c for c in walk_own(f.node) if isinstance(c, ast.Call) and isinstance(c.func, ast.Attribute) and c.func.attr == "write" and c.args and var in {x.id for x in ast.walk(c.args[0]) if isinstance(x, ast.Name)}]
        if len({norm(c.func.value) for c in sinks}) == 1:
            handle = norm(sinks[0].func.value)
    pf, loop = tag_loop(ctx, "R20.2")
    key_colon = relang.all_end_with(key_group_items(tag_regex_info(pf, loop, "R20.2")), ":")
    table = phase_table(ctx, f)
    seen = {}
    for p, parts in out:
        sig = tmpl.show(parts)
        if sig not in seen:
            seen[sig] = (p, parts)
    for sig, (p, parts) in seen.items():
        # a piece of the record's text that is carried through a local (`outcome[0]` of a memo, a string built elsewhere):
        # which fields it holds is not read off the template
        for h_ in tmpl.holes(parts):
            e_ = h_[1]
            if isinstance(e_, (ast.Name, ast.Subscript)) and not norm(e_).startswith((f"{rec}.", f"{table.name}[")) and isinstance(getattr(e_, "value", e_), ast.Name) and getattr(e_, "value", e_).id not in (rec, table.name) and not (isinstance(e_, ast.Name) and e_.id in {norm(x_) for x_ in ast.walk(loop) if isinstance(x_, ast.Name)}):
                local_txt = [st_ for st_ in walk_own(f.node) if isinstance(st_, ast.Assign) and len(st_.targets) == 1 and norm(st_.targets[0]) == getattr(e_, "value", e_).id]
                if local_txt and any(isinstance(x_, (ast.Tuple, ast.BinOp, ast.JoinedStr)) or (isinstance(x_, ast.Call) and isinstance(x_.func, ast.Attribute) and x_.func.attr == "get") for st_ in local_txt for x_ in [st_.value]):
                    raise AnalysisError("R20.1", f.where(st), f"part of the record's text is written from the local `{norm(e_)[:40]}` (text put together or remembered elsewhere): the fields it holds are not read off the template")
        check_template(ctx, f, rec, st, p, parts, schema, extras, key_colon, table)
    ctx.run(r20_4_guard, f, rec, st, out, table)
    ctx.run(r20_5, f, rec, st, region, out, handle, var_mode)
    ctx.run(r20_6, f, handle)
    ctx.run(r20_7, f, table)
    ctx.run(r20_8, f)
    # "optional fields are those of the input": the parser's acceptance of the tag grammar is shared with C16
    from . import c16

    info16 = tag_regex_info(pf, loop, "R16.1")
    ctx.run(c16.r16_1, pf, loop, info16)
    ctx.run(c16.r16_2, pf, loop)
    ctx.not_decided.append("nothing of C20 beyond the TSV being tab-separated with columns read, haplotype, phase set, contig")
    # mechanisms this property rests on (see shared.py): a change there is reported here as well
    from . import shared as _sh

    ctx.run_shared(_sh.gaf_reader)
    ctx.run_shared(_sh.tag_parser)
    ctx.run_shared(_sh.cli_layer, "gaftools.cli.phase")


def check_template(ctx, f, rec, st, p, parts, schema, extras, key_colon, table):
    where = f.where(st)
    for a in tmpl.arity_errors(parts):
        ctx.violated("R20.1", where, f"format arity: {a[2]}", key_of(f, "arity"))
    # strip a leading/trailing record separator
    body = list(parts)
    lead = trail = ""
    if body and body[0][0] == "lit" and body[0][1].startswith("\n"):
        lead = "\n"
        body[0] = ("lit", body[0][1][1:])
        if body[0][1] == "":
            body = body[1:]
    if body and body[-1][0] == "lit" and body[-1][1].endswith("\n"):
        trail = "\n"
        body[-1] = ("lit", body[-1][1][:-1])
        if body[-1][1] == "":
            body = body[:-1]
    reps = [x for x in body if x[0] == "rep"]
    flat = [x for x in body if x[0] != "rep"]
    cols = tmpl.columns(flat)
    # R20.1
    bad = None
    for i in range(12):
        c = cols[i] if i < len(cols) else []
        ok = len(c) == 1 and c[0][0] == "hole" and isinstance(c[0][1], ast.Attribute) and norm(c[0][1].value) == rec and schema.get(c[0][1].attr) == i
        if not ok:
            bad = (i + 1, tmpl.show(c))
            break
    ctx.check(bad is None, "R20.1", where, "columns 1-12 are the parsed columns of the record, each from its own attribute (the strand is not rewritten)", key_of(f, f"columns:{bad}"), **({"column": bad[0], "found": bad[1]} if bad else {}), template=tmpl.show(parts)[:200])
    # R20.2
    if len(reps) != 1:
        ctx.violated("R20.2", where, f"the parsed optional fields are emitted {len(reps)} times (expected once)", key_of(f, f"rep-count:{len(reps)}"), template=tmpl.show(parts)[:300])
    else:
        r = reps[0]
        loop = r[2]
        base = f"{rec}.{extras['tags_attr']}"
        it = norm(loop.iter)
        ctx.check(it in (base, base + ".keys()", base + ".items()"), "R20.2", f.where(loop), "the writer iterates the parsed tag mapping itself, unfiltered, in its own order", key_of(f, f"tag-iter:{it}"), iter=it)
        tb = r[1]
        kvars = [norm(e) for e in (loop.target.elts if isinstance(loop.target, ast.Tuple) else [loop.target])]
        k = kvars[0]
        vals = {f"{base}[{k}]"} | ({kvars[1]} if len(kvars) > 1 else set())
        if key_colon:
            ok = len(tb) == 3 and tb[0] == ("lit", "\t") and tb[1][0] == "hole" and norm(tb[1][1]) == k and tb[2][0] == "hole" and norm(tb[2][1]) in vals
        else:
            ok = len(tb) == 4 and tb[0] == ("lit", "\t") and tb[2] == ("lit", ":")
        ctx.check(ok, "R20.2", f.where(loop), "each parsed field is written as TAB key value, key and value adjacent (the stored key ends with ':')", key_of(f, f"tag-spelling:{tmpl.show(tb)}"), template=tmpl.show(tb))
    # R20.3 + R20.4 on the extra columns
    extra = cols[12:]
    n_ps = n_ht = 0
    for c in extra:
        s = tmpl.show(c)
        if not c:
            ctx.violated("R20.3", where, "an empty column (two consecutive separators) is written after column 12", key_of(f, "empty-column"), template=tmpl.show(parts)[:300])
            continue
        first = c[0]
        if first[0] != "lit" or not TAGPFX.match(first[1]):
            ctx.violated("R20.3", where, f"column `{s}` after column 12 does not start with a TAG:TYPE: prefix (not a well-formed optional field)", key_of(f, f"bare-column:{s}"), template=tmpl.show(parts)[:300])
            continue
        pfx = first[1][:5]
        if pfx == "ps:Z:":
            n_ps += 1
            check_ps_ht(ctx, f, rec, where, "ps", c, table)
        elif pfx == "ht:Z:":
            n_ht += 1
            check_ps_ht(ctx, f, rec, where, "ht", c, table)
        else:
            ctx.violated("R20.3", where, f"an optional field `{s}` is written for every record although the input may not have it (invented field)", key_of(f, f"invented:{pfx}"), template=tmpl.show(parts)[:300])
    ctx.check(n_ps == 1 and n_ht == 1, "R20.4", where, "exactly one ps:Z: and one ht:Z: field are added per record", key_of(f, f"ps-ht-count:{n_ps}/{n_ht}"), ps=n_ps, ht=n_ht)
    # order: ps/ht/tag-rep are all after column 12, and the rep is not in the middle of a column
    if len(reps) == 1:
        idx = body.index(reps[0])
        before = tmpl.columns([x for x in body[:idx] if x[0] != "rep"])
        ctx.check(len(before) >= 12 and (not before[-1] or before[-1][-1][0] != "lit" or not before[-1][-1][1].endswith("\t")) and (idx == 0 or not (body[idx - 1][0] == "lit" and body[idx - 1][1].endswith("\t"))), "R20.3", where, "the tag repetition follows a complete column (no dangling separator in front of it)", key_of(f, "dangling-separator"), template=tmpl.show(parts)[:300])


class PhaseTable:
    pass


def one_level(e, defs):
    """Text of e; a plain temporary (single definition) is replaced once by its definition.  A column taken from a
    tuple-unpacked row (`a, b, c = line.split("\t")[:3]`) reads `ROW[i]`, the row being named by its split expression."""
    if isinstance(e, ast.Name):
        d = [x for x in defs.get(e.id, [])]
        if len(d) == 1 and d[0] is not None and isinstance(d[0], ast.Subscript):
            sub = d[0]
            base = sub.value
            # row[:n][i] == row[i]
            if isinstance(base, ast.Subscript) and isinstance(base.slice, ast.Slice) and base.slice.lower is None and base.slice.step is None and isinstance(const_value(sub.slice), int) and const_value(sub.slice) >= 0:
                base = base.value
            if isinstance(base, ast.Call) and ".split('\\t')" in norm(base) and isinstance(const_value(sub.slice), int):
                return f"ROW[{const_value(sub.slice)}]"
            return norm(ast.Subscript(value=base, slice=sub.slice, ctx=ast.Load()))
    return norm(e)


def phase_table(ctx, f):
    """The per-read table filled from the TSV:  table[key] = Ctor(args...)  with key = <row>[0], in the emitter function
    or in a helper that returns the table.  -> attr -> tsv column, names on both sides."""
    from ..core import local_defs, resolve_expr

    repo = ctx.repo
    t = PhaseTable()
    t.name = None
    cands = [f] + [h for c in walk_own(f.node) if isinstance(c, ast.Call) for h in [repo.resolve_call(f, c)] if h is not None and h.module is f.module and h is not f and h.name != "__init__"]
    from ..core import plain_statements

    cands = [plain_statements(g) if any((isinstance(c, ast.Call) and isinstance(c.func, ast.Attribute) and c.func.attr == "setdefault") or isinstance(c, ast.GeneratorExp) for c in walk_own(g.node)) else g for g in cands]
    for g in cands:
        gd = local_defs(g.node)
        for st in walk_own(g.node):
            if isinstance(st, ast.Assign) and isinstance(st.targets[0], ast.Subscript) and isinstance(st.targets[0].value, ast.Name):
                key = one_level(st.targets[0].slice, gd)
                mm = re.fullmatch(r"(\w+)\[(\d+)\]", key)
                if mm and any(isinstance(l, ast.For) and any(x is st for x in ast.walk(l)) for l in walk_own(g.node)):
                    t.fill_func, t.fill_name, t.store, t.elems, t.key_col, t.key_text = g, st.targets[0].value.id, st, mm.group(1), int(mm.group(2)), norm(st.targets[0].slice)
                    t.fill_defs = gd
    if getattr(t, "store", None) is None:
        # a dict comprehension keyed by a TSV column keeps the *last* row of a repeated read name
        for g in cands:
            for st in walk_own(g.node):
                if isinstance(st, ast.Assign) and isinstance(st.value, ast.DictComp) and isinstance(st.value.key, ast.Subscript) and isinstance(const_value(st.value.key.slice), int) and isinstance(st.value.value, ast.Call) and repo.resolve_call(g, st.value.value) is not None:
                    ctx.violated("R20.4", g.where(st), "the per-read table is built by a dict comprehension: for a read listed more than once the last TSV row replaces the earlier ones (the first row must win)", key_of(g, "first-row-wins:dict-comprehension"))
        raise AnalysisError("R20.4", f.where(), "cannot find the per-read table filled from the TSV")
    g = t.fill_func
    ctx.analysed_func(g)
    # name of the table in the emitter function
    t.name = t.fill_name
    t.handle_arg = None
    if g is not f:
        rets = [r for r in walk_own(g.node) if isinstance(r, ast.Return) and r.value is not None]
        for st in walk_own(f.node):
            if isinstance(st, ast.Assign) and isinstance(st.value, ast.Call) and repo.resolve_call(f, st.value) is g and isinstance(st.targets[0], ast.Name) and rets and norm(rets[-1].value) == t.fill_name:
                t.name = st.targets[0].id
                t.call = st.value
    # value: a local assigned from a constructor of a program class, or the constructor call itself
    val = t.store.value
    if isinstance(val, ast.Name):
        d = [x for x in t.fill_defs.get(val.id, []) if x is not None]
        val = d[0] if d else val
    if not isinstance(val, ast.Call):
        # None stored as an entry while "absent" is tested as `table.get(key) is None`: the two cannot be told apart, so a
        # later row of the same read is taken for its first
        vname = t.store.value.id if isinstance(t.store.value, ast.Name) else None
        stores_none = vname is not None and any(isinstance(x, ast.Constant) and x.value is None for x in t.fill_defs.get(vname, []) if x is not None)
        from .c09 import guards_of as _g9

        tests = [norm(t_) for t_, _pol in _g9(g.node, t.store)]
        if stores_none and any(f"{t.fill_name}.get(" in t_ and "is None" in t_ for t_ in tests):
            ctx.violated("R20.4", g.where(t.store), f"`{norm(t.store)}` may store None as the entry of a read, and whether a read is already listed is tested with `{next(t_ for t_ in tests if '.get(' in t_)}`: a read whose first TSV row was stored as None looks unlisted, so a later row of the same read replaces it (the first row must win)", key_of(g, "none-entry-and-none-test"))
        raise AnalysisError("R20.4", g.where(t.store), "per-read entry is not built by a constructor call")
    ctor = repo.resolve_call(g, val)
    if ctor is None:
        raise AnalysisError("R20.4", g.where(t.store), "cannot resolve the entry constructor")
    ctx.analysed_func(ctor)
    params = ctor.params[1:]
    arg_col = {}
    for i, a in enumerate(val.args):
        a_txt = one_level(a, t.fill_defs)
        mm = re.fullmatch(rf"{re.escape(t.elems)}\[(\d+)\]", a_txt)
        if i < len(params) and mm:
            arg_col[params[i]] = int(mm.group(1))
    for k in val.keywords:
        a_txt = one_level(k.value, t.fill_defs)
        mm = re.fullmatch(rf"{re.escape(t.elems)}\[(\d+)\]", a_txt)
        if mm:
            arg_col[k.arg] = int(mm.group(1))
    t.attr_col = {}
    for s_ in walk_own(ctor.node):
        if isinstance(s_, ast.Assign) and isinstance(s_.targets[0], ast.Attribute) and isinstance(s_.value, ast.Name) and s_.value.id in arg_col:
            t.attr_col[s_.targets[0].attr] = arg_col[s_.value.id]
    d = [x for x in t.fill_defs.get(t.elems, []) if x is not None]
    ok_split = (len(d) == 1 and "split('\\t')" in norm(d[0])) or t.elems == "ROW"
    ctx.check(ok_split, "R20.4", g.where(t.store), "TSV rows are split on tabs", key_of(g, "tsv-split"))
    gds = guards_of(g.node, t.store)
    absent = any(canon_test(x, pol) == (f"{t.key_text} in {t.fill_name}", False) for x, pol in gds)
    others = []
    for s_ in walk_own(g.node):
        if isinstance(s_, (ast.Assign, ast.AugAssign)):
            for tg in (s_.targets if isinstance(s_, ast.Assign) else [s_.target]):
                if s_ is not t.store and norm(tg).startswith(t.fill_name + "["):
                    others.append(norm(s_)[:80])
    if g is not f:
        for s_ in walk_own(f.node):
            if isinstance(s_, (ast.Assign, ast.AugAssign)):
                for tg in (s_.targets if isinstance(s_, ast.Assign) else [s_.target]):
                    if norm(tg).startswith(t.name + "["):
                        others.append(norm(s_)[:80])
    ctx.check(absent and not others and t.key_col == 0, "R20.4", g.where(t.store), "the per-read table is keyed by the read name (TSV column 1) and filled insert-if-absent: the first row of a read wins and is never updated", key_of(g, f"first-row-wins:{[norm(x) for x, _ in gds]}:{others}"), guards=[(norm(x), pol) for x, pol in gds], other_stores=others)
    return t


def check_ps_ht(ctx, f, rec, where, which, col, table):
    s = tmpl.show(col)
    holes = [h for h in col if h[0] == "hole"]
    lits = [h[1] for h in col if h[0] == "lit"]
    entry = f"{table.name}[{rec}.query_name]"
    if not holes:
        ok = lits == [f"{which}:Z:none"]
        ctx.check(ok, "R20.4", where, f"the unphased branch writes {which}:Z:none", key_of(f, f"{which}-none:{s}"), column=s)
        return
    # locals that stand for this read's entry: every binding is `table.get(<rec>.query_name[, d])`, `table[<rec>.query_name]`,
    # or the "absent" value (None / a private marker) — the guard rule decides which one is live where the phase is written
    aliases = set()
    by_name = {}
    for st_ in walk_own(f.node):
        if isinstance(st_, ast.Assign) and len(st_.targets) == 1 and isinstance(st_.targets[0], ast.Name):
            by_name.setdefault(st_.targets[0].id, []).append(st_.value)
    for nm_, vs_ in by_name.items():
        def _is_entry(v):
            return (isinstance(v, ast.Call) and isinstance(v.func, ast.Attribute) and v.func.attr == "get" and norm(v.func.value) == table.name and v.args and norm(v.args[0]) == f"{rec}.query_name") or norm(v) == entry
        def _is_absent(v):
            return (isinstance(v, ast.Constant) and v.value is None) or (isinstance(v, ast.Name) and isinstance(f.module.consts.get(v.id), ast.Call) and norm(f.module.consts[v.id].func) == "object")
        if any(_is_entry(v) for v in vs_) and all(_is_entry(v) or _is_absent(v) for v in vs_):
            aliases.add(nm_)
    cols = []
    for h in holes:
        e = h[1]
        if isinstance(e, ast.Attribute) and (norm(e.value) == entry or (isinstance(e.value, ast.Name) and e.value.id in aliases)):
            cols.append(table.attr_col.get(e.attr))
        else:
            cols.append(None)
    if which == "ht":
        ok = cols == [1] and lits == ["ht:Z:"]
        ctx.check(ok, "R20.4", where, "ht:Z: carries the haplotype (TSV column 2) of this read's entry", key_of(f, f"ht:{s}"), column=s, tsv_columns=cols)
    else:
        ok = cols == [3, 2] and lits == ["ps:Z:", "-"]
        ctx.check(ok, "R20.4", where, "ps:Z: carries <contig (TSV column 4)>-<phase set (TSV column 3)> of this read's entry", key_of(f, f"ps:{s}"), column=s, tsv_columns=cols)


def r20_4_guard(ctx, f, rec, st, out, table):
    """'none' exactly when the read is absent or its haplotype is 'none': on every path, every world
    (present?, haplotype == 'none'?) consistent with the outcomes of the tests evaluated on the path must
    agree with what the path wrote."""
    entry = f"{table.name}[{rec}.query_name]"
    hap_attr = next((a for a, c in table.attr_col.items() if c == 1), None)
    P_TXT = f"{rec}.query_name in {table.name}"
    H_TXT = f"{entry}.{hap_attr} == 'none'"

    class Unknown(Exception):
        pass

    def entry_kind(v):
        """how a local is bound to the read's entry: 'get' (entry or a default), 'entry' (table[key]), 'absent' (None / a marker)"""
        if isinstance(v, ast.Call) and isinstance(v.func, ast.Attribute) and v.func.attr == "get" and norm(v.func.value) == table.name and v.args and norm(v.args[0]) == f"{rec}.query_name":
            return "get", (norm(v.args[1]) if len(v.args) > 1 else "None")
        if isinstance(v, ast.Subscript) and norm(v) == entry:
            return "entry", None
        if (isinstance(v, ast.Constant) and v.value is None) or (isinstance(v, ast.Name) and isinstance(f.module.consts.get(v.id), ast.Call) and norm(f.module.consts[v.id].func) == "object"):
            return "absent", norm(v)
        return None, None

    def ev(e, world, flags):
        # a local bound to the read's entry (`node = phase.get(name, MARK)`, `node = phase[name]`, `node = None`)
        if isinstance(e, ast.Compare) and len(e.ops) == 1 and isinstance(e.ops[0], (ast.Is, ast.IsNot)) and isinstance(e.left, ast.Name) and e.left.id in flags and not isinstance(flags[e.left.id], bool):
            kind, dflt = entry_kind(flags[e.left.id])
            cmp_ = norm(e.comparators[0])
            res = None
            if kind == "get" and cmp_ == dflt:
                res = not world[0]
            elif kind == "entry" and (cmp_ == "None" or entry_kind(e.comparators[0])[0] == "absent"):
                res = False
            elif kind == "absent" and cmp_ == dflt:
                res = True
            if res is not None:
                return res == isinstance(e.ops[0], ast.Is)
        if any(isinstance(x, ast.Name) and x.id in flags and not isinstance(flags[x.id], bool) and entry_kind(flags[x.id])[0] in ("get", "entry") for x in ast.walk(e)) and not isinstance(e, (ast.BoolOp, ast.UnaryOp, ast.Name)):
            import copy as _copy

            class _S(ast.NodeTransformer):
                def visit_Name(self, n_):
                    if isinstance(n_.ctx, ast.Load) and n_.id in flags and not isinstance(flags[n_.id], bool) and entry_kind(flags[n_.id])[0] in ("get", "entry"):
                        return ast.copy_location(ast.parse(entry, mode="eval").body, n_)
                    return n_

            e = ast.fix_missing_locations(_S().visit(_copy.deepcopy(e)))
        t, tp = canon_test(e, True)
        if t == P_TXT:
            return world[0] == tp
        if t == H_TXT:
            if not world[0]:
                raise Unknown()  # no entry to look at
            return world[1] == tp
        if isinstance(e, ast.Name) and e.id in flags:
            fv = flags[e.id]
            if isinstance(fv, bool):
                return fv
            inner = {k: v for k, v in flags.items() if k != e.id}
            return ev(fv, world, inner)
        if isinstance(e, ast.UnaryOp) and isinstance(e.op, ast.Not):
            return not ev(e.operand, world, flags)
        if isinstance(e, ast.BoolOp):
            if isinstance(e.op, ast.And):
                for v in e.values:
                    if not ev(v, world, flags):
                        return False
                return True
            for v in e.values:
                if ev(v, world, flags):
                    return True
            return False
        if isinstance(e, ast.Constant):
            return bool(e.value)
        raise Unknown()

    bad = None
    n = 0
    for p, parts in out:
        s = tmpl.show(parts)
        is_none = "ps:Z:none" in s
        worlds = [(True, True), (True, False), (False, None)]
        flags = {}
        looked = False
        for e in p.events:
            if e.kind == "stmt" and isinstance(e.node, ast.Assign) and isinstance(e.node.targets[0], ast.Name):
                nm = e.node.targets[0].id
                if isinstance(e.node.value, ast.Constant) and isinstance(e.node.value.value, bool):
                    flags[nm] = e.node.value.value
                else:
                    flags[nm] = e.node.value  # a flag bound to an expression is evaluated in each world
            if e.kind == "test":
                keep = []
                for w in worlds:
                    try:
                        v = ev(e.node, w, dict(flags))
                    except Unknown:
                        keep.append(w)
                        continue
                    looked = True
                    if v == e.pol:
                        keep.append(w)
                worlds = keep
        if not worlds:
            continue  # infeasible path
        n += 1
        for w in worlds:
            want_none = (not w[0]) or bool(w[1])
            if want_none != is_none:
                bad = (p, f"possible on this path: read present={w[0]}, haplotype=='none'={w[1]} — but the path wrote {'none' if is_none else 'the phase'}")
                break
        if bad:
            break
    ctx.check(bad is None, "R20.4", f.where(st), "ps/ht are 'none' exactly when the read is absent from the TSV or its haplotype is 'none'", key_of(f, f"none-guard:{bad[1] if bad else ''}"), paths=n, **({"path": bad[0].show(), "why": bad[1]} if bad else {}))


def split_test(t, pol):
    """Conjuncts of a test that is known True (or disjuncts known False) with their polarity."""
    if isinstance(t, ast.BoolOp) and isinstance(t.op, ast.And) and pol:
        out = []
        for v in t.values:
            out += split_test(v, True)
        return out
    if isinstance(t, ast.BoolOp) and isinstance(t.op, ast.Or) and not pol:
        out = []
        for v in t.values:
            out += split_test(v, False)
        return out
    return [(t, pol)]


def r20_5(ctx, f, rec, st, region, out, handle, var_mode=False):
    # every path through one record writes the 12-column template exactly once
    paths = enum_paths(region, rule="R20.5", where=f.where(st))
    bad = None
    for p in paths:
        if p.term not in ("fall", "continue"):
            bad = (p, f"record loop left by {p.term}")
            break
        k = sum(1 for e in p.events if e.kind == "stmt" and e.node is st)
        if k != 1:
            bad = (p, f"record written {k} times")
            break
    ctx.check(bad is None, "R20.5", f.where(st), "every path through one input record writes exactly one output record", key_of(f, f"one-record:{bad[1] if bad else ''}"), paths=len(paths), **({"path": bad[0].show(), "why": bad[1]} if bad else {}))
    # separators: either every template ends with \n, or every template but the first-record one starts with \n
    sigs = {tmpl.show(parts) for _, parts in out}
    lead = {s.startswith("\\n") for s in sigs}
    trail = {s.endswith("\\n") for s in sigs}
    nl_inside = any(s.strip("\\n").count("\\n") for s in [x.replace("\\n", "", 1) if x.startswith("\\n") else x for x in sigs])
    ok = (trail == {True} and lead == {False}) or (trail == {False} and lead == {True, False})
    if not ok and var_mode and handle is not None and len([c for c in walk_own(f.node) if isinstance(c, ast.Call) and isinstance(c.func, ast.Attribute) and c.func.attr == "write" and norm(c.func.value) == handle]) > 1:
        raise AnalysisError("R20.5", f.where(st), "the record is assembled in a variable while the handle also receives other writes (the separating newline): the separator discipline is not read from that mix")
    ctx.check(ok, "R20.5", f.where(st), "records are separated by exactly one newline (trailing newline per record, or a leading one for every record but the first)", key_of(f, f"separator:{sorted(lead)}:{sorted(trail)}"), leading=sorted(lead), trailing=sorted(trail))
    if lead == {True, False}:
        # the leading newline must be guarded by 'not the first record'
        pass
    # the loop iterates the parsed records of the input, unfiltered
    loops = [n for n in walk_own(f.node) if isinstance(n, ast.For) and any(x is st for x in ast.walk(n))]
    ok_it = bool(loops) and "read_file" in norm(loops[-1].iter)
    from ..core import own_loop_jumps

    skip = own_loop_jumps(region)
    ctx.check(ok_it and not skip, "R20.5", f.where(st), "the loop runs over every parsed record of the input (no continue/break)", key_of(f, "record-loop"))


def r20_6(ctx, f, handle):
    """The output argument defaults to sys.stdout (a file object): it may reach open() only when it is a path."""
    repo = ctx.repo
    mod = f.module
    aa = mod.funcs.get("add_arguments")
    default_is_stdout = False
    if aa is not None:
        for c in walk_own(aa.node):
            if isinstance(c, ast.Call) and any(const_value(a) in ("-o", "--output") for a in c.args):
                default_is_stdout = any(k.arg == "default" and norm(k.value) == "sys.stdout" for k in c.keywords)
    for fn in mod.funcs.values():
        for d, p in zip(reversed(fn.node.args.defaults), reversed(fn.params)):
            if norm(d) == "sys.stdout":
                default_is_stdout = True
    opens = [s for s in walk_own(f.node) if isinstance(s, ast.Assign) and norm(s.targets[0]) == handle and isinstance(s.value, ast.Call) and norm(s.value.func) == "open"]
    if not default_is_stdout:
        ctx.holds("R20.6", f.where(), "the output argument is always a path", nontrivial=False)
        return
    ok = bool(opens)
    for o in opens:
        g = guards_of(f.node, o)
        pth = norm(o.value.args[0])
        ok = ok and any(canon_test(t, pol) in ((f"{pth} is sys.stdout", False), (f"isinstance({pth}, str)", True), (f"{pth} == sys.stdout", False)) for t, pol in g)
    alt = [s for s in walk_own(f.node) if isinstance(s, ast.Assign) and norm(s.targets[0]) == handle and norm(s.value) in ("sys.stdout",) or (isinstance(s, ast.Assign) and norm(s.targets[0]) == handle and isinstance(s.value, ast.Name))]
    ctx.check(ok and bool(alt), "R20.6", f.where(), "without -o the records go to standard output: the default (sys.stdout, a file object) is used as it is and only a path is passed to open()", key_of(f, "stdout-default"))
    closes = [s for s in walk_stmts(f.node.body) if isinstance(s, ast.Expr) and norm(s.value) == f"{handle}.close()"]
    okc = all(any(canon_test(t, pol) == (f"{handle} is sys.stdout", False) for t, pol in guards_of(f.node, c)) for c in closes)
    ctx.check(okc, "R20.6", f.where(), "standard output is not closed by the command", key_of(f, "stdout-close"))


def r20_7(ctx, f, table):
    """Every TSV row is seen by the table-building loop: the TSV handle is read by that loop only."""
    g = table.fill_func
    loops = [l for l in walk_own(g.node) if isinstance(l, ast.For) and any(x is table.store for x in ast.walk(l))]
    if not loops:
        raise AnalysisError("R20.7", g.where(), "the per-read table is not filled in a loop over the TSV")
    l = loops[-1]
    h_in = norm(l.iter)
    h = h_in
    if g is not f and h_in in g.params and getattr(table, "call", None) is not None:
        h = norm(table.call.args[g.params.index(h_in)]) if g.params.index(h_in) < len(table.call.args) else h_in
    opened = [s for s in walk_own(f.node) if isinstance(s, ast.Assign) and norm(s.targets[0]) == h and isinstance(s.value, ast.Call) and norm(s.value.func) == "open"]
    # ... or `with open(path) as handle:`
    opened += [w for w in walk_own(f.node) if isinstance(w, ast.With) and any(i.optional_vars is not None and norm(i.optional_vars) == h and isinstance(i.context_expr, ast.Call) and norm(i.context_expr.func) == "open" for i in w.items)]
    if not opened:
        raise AnalysisError("R20.7", f.where(), f"cannot find where the TSV handle `{h}` is opened")
    others = []
    for fn_, hn in ((f, h), (g, h_in)):
        for c in walk_own(fn_.node):
            if isinstance(c, ast.Call):
                if isinstance(c.func, ast.Name) and c.func.id in ("next", "list", "iter", "enumerate") and c.args and norm(c.args[0]) == hn and not any(x is c for x in ast.walk(l.iter)):
                    others.append(norm(c))
                if isinstance(c.func, ast.Attribute) and norm(c.func.value) == hn and c.func.attr in ("readline", "readlines", "read", "seek", "__next__"):
                    others.append(norm(c))
        if g is f:
            break
    # a row may be skipped only because its read is already in the table
    skips = []
    for s_ in l.body:
        if isinstance(s_, ast.If) and any(isinstance(x, ast.Continue) for x in ast.walk(s_)):
            if canon_test(s_.test, True) != (f"{table.key_text} in {table.fill_name}", True):
                skips.append(norm(s_.test))
    ctx.check(bool(opened) and not others and not skips, "R20.7", g.where(l), "every row of the haplotag TSV reaches the per-read table: the TSV handle is consumed by the table loop only, and the loop skips a row only when its read is already listed", key_of(g, f"tsv-consumers:{others}:{skips}"), other_reads=others, skips=skips)



def r20_8(ctx, f):
    """The command's entry point reaches the annotating function, unconditionally, with its three paths in their roles:
    the parameter that is opened as the GAF receives the entry point's GAF path, the one read as the TSV the TSV path, the
    one written to the output."""
    repo = ctx.repo
    mod = f.module
    f0 = mod.funcs.get(f.qualname, f)
    main = mod.funcs.get("main")
    if main is None:
        raise AnalysisError("R20.8", mod.relpath, "no main(args)")
    entry = None
    for c in walk_own(main.node):
        if isinstance(c, ast.Call) and any(k.arg is None for k in c.keywords):
            entry = repo.resolve_call(main, c)
    if entry is None:
        raise AnalysisError("R20.8", main.where(), "cannot find the run function main() forwards to")
    ctx.analysed_func(entry)
    if entry.qualname == f0.qualname:
        # the annotator is read inlined into the entry point (normal form `f`): what is opened as the GAF / read as the TSV /
        # written to must be the entry point's parameter of that role
        roles_ = {}
        for x in walk_own(f.node):
            if isinstance(x, ast.Call) and x.args and isinstance(x.args[0], ast.Name) and x.args[0].id in entry.params:
                fn = norm(x.func)
                mode = const_value(x.args[1], "r") if len(x.args) > 1 else "r"
                if fn == "GAF":
                    roles_[x.args[0].id] = "gaf"
                elif fn == "open" and isinstance(mode, str) and mode.startswith("r"):
                    roles_.setdefault(x.args[0].id, "tsv")
                elif fn == "open" and isinstance(mode, str) and mode[:1] in ("w", "a"):
                    roles_[x.args[0].id] = "out"
        if set(roles_.values()) != {"gaf", "tsv", "out"}:
            raise AnalysisError("R20.8", entry.where(), f"cannot tell which parameter of the entry point is the GAF, the TSV and the output ({roles_})")
        bad_ = [f"`{p_}` is used as the {r_} path" for p_, r_ in roles_.items() if r_ not in p_.lower()]
        ctx.check(not bad_, "R20.8", entry.where(), "the GAF path, the TSV path and the output reach the annotator in their roles", key_of(entry, f"annotator-args:{bad_}"), **({"mismatch": bad_} if bad_ else {}))
        return
    calls = [c for c in walk_own(entry.node) if isinstance(c, ast.Call) and repo.resolve_call(entry, c) is not None and repo.resolve_call(entry, c).qualname == f0.qualname]
    if not calls:
        ctx.violated("R20.8", entry.where(), f"{entry.qualname} does not call {f0.qualname}: nothing is annotated or written", key_of(entry, "annotator-not-called"))
        return
    c = calls[0]
    top = any(isinstance(st, (ast.Expr, ast.Assign, ast.Return)) and st.value is c for st in entry.node.body) or any(isinstance(st, ast.With) and any(isinstance(x, ast.Expr) and x.value is c for x in st.body) for st in entry.node.body)
    ctx.check(top, "R20.8", entry.where(c), f"{f0.qualname} is called unconditionally from the entry point", key_of(entry, "annotator-conditional"))
    # roles of the annotator's parameters, by what is done with them
    roles = {}
    for p_ in f0.params:
        for x in walk_own(f0.node):
            if isinstance(x, ast.Call) and x.args and isinstance(x.args[0], ast.Name) and x.args[0].id == p_:
                fn = norm(x.func)
                mode = const_value(x.args[1], "r") if len(x.args) > 1 else "r"
                if fn == "GAF":
                    roles[p_] = "gaf"
                elif fn == "open" and isinstance(mode, str) and mode.startswith("r"):
                    roles.setdefault(p_, "tsv")
                elif fn == "open" and isinstance(mode, str) and mode[:1] in ("w", "a"):
                    roles[p_] = "out"
    bound = repo.bound_args(f0, c) if hasattr(repo, "bound_args") else None
    if not bound or set(roles.values()) != {"gaf", "tsv", "out"}:
        raise AnalysisError("R20.8", entry.where(c), f"cannot bind the annotator's parameters to roles ({roles})")
    bad = []
    for p_, role in roles.items():
        a = bound.get(p_)
        if not isinstance(a, ast.Name) or a.id not in entry.params:
            raise AnalysisError("R20.8", entry.where(c), f"argument for `{p_}` is not a parameter of the entry point")
        ok = (role in a.id.lower()) or (role == "out" and "out" in a.id.lower())
        if not ok:
            bad.append(f"{p_} (the {role} path) receives `{a.id}`")
    ctx.check(not bad, "R20.8", entry.where(c), "the GAF path, the TSV path and the output reach the annotator in their roles", key_of(entry, f"annotator-args:{bad}"), **({"mismatch": bad} if bad else {}))
