"""C11 — realign output is exactly-once and in input order under every schedule.

If the rules below hold, the file written is a function of the *set* of items delivered and of
their priorities, not of arrival order or timing: the schedule quantifier is discharged from the
shape of the code (given a reliable FIFO channel per producer, which is trusted).

R11.1  only a freshly dequeued item is consumed
R11.2  ordered drain: output is written only from PriorityQueue.get() after the collection loop
R11.3  one ranked item per record (worker), rank = input counter (parent)
R11.4  one sentinel per worker; the loop ends only when every sentinel has arrived
R11.5  no batch is lost: every batch goes to exactly one started, collected and joined process
"""

from __future__ import annotations

import ast

from ..core import AnalysisError, const_value, norm, walk_own, walk_stmts
from ..paths import enum_paths, Ev
from . import realign_common as rc
from .common import key_of

META = {
    "explanation": "Static decision of the schedule-independence of gaftools realign: every control-flow path of one iteration of each "
    "collection loop (the loops reading the multiprocessing result queue with a timeout) is enumerated from the syntax tree, with the "
    "exception edge from the timed get() into the queue.Empty handler; a dequeued value may be consumed only on paths where the get() "
    "completed in the same iteration (R11.1).  Who-may-write and ordering rules show that the output handle is written only from the "
    "ordered drain of the per-group PriorityQueue after the loop has seen one sentinel per worker, that each record is put exactly once "
    "with its own input rank, and that no batch is dropped.  This covers all interleavings and timeouts because the rules do not depend "
    "on arrival order; multiprocessing.Queue's own delivery guarantee is assumed.",
    "technique": "static analysis: structured path enumeration with exception edges, reaching-definition freshness, who-may-write and dominance checks on the AST",
}


def check(ctx):
    from . import shared as _sh0

    ctx.run(lambda c_: _sh0.zip_drops_item(c_, list(c_.repo.module("gaftools.cli.realign", "R11.0").funcs.values()), "R11.0"))
    m = rc.build(ctx, "R11")
    pf = m.parent
    ctx.require_count("R11.1", len(m.loops), 1, pf.where(), "collection loops (while loop reading the result queue)")
    ctx.notes.append(f"collection loops found: {len(m.loops)} (pinned tree: 2 — full groups and the leftover group)")
    # every get on the channel belongs to a recognised loop
    in_loops = {id(g) for L in m.loops for g in L.gets}
    stray = [g for g in m.channel_gets if id(g) not in in_loops]
    ctx.check(not stray, "R11.1", pf.where(), "every read of the result queue is inside a recognised collection loop", key_of(pf, "stray-get"), found=[norm(s) for s in stray])
    if not m.pqueues and any(isinstance(c, ast.Call) and ((isinstance(c.func, ast.Attribute) and c.func.attr == "sort") or (isinstance(c.func, ast.Name) and c.func.id == "sorted")) for c in walk_own(pf.node)):
        raise AnalysisError("R11.2", pf.where(), "the parent keeps no PriorityQueue but sorts a collection: the input order may be re-established another way, which these rules do not read")
    for L in m.loops:
        r11_1(ctx, m, L)
        r11_4_loop(ctx, m, L)
        r11_2(ctx, m, L)
        r11_5_group(ctx, m, L)
    ctx.run(r11_8, m, _independent=True)
    # a healthy run must not be given up: the exit-code test after the joins (C13's rule) reads codes of workers that have ended
    from . import c13 as _c13

    for L in m.loops:
        ctx.run(_c13.r13_4, m, L, _independent=True)
    ctx.run(r11_3, m)
    ctx.run(r11_6, m)
    ctx.run(r11_4_worker, m)
    ctx.run(r11_5_batches, m)
    ctx.run(r11_7, m, _independent=True)
    ctx.not_decided += [
        "multiprocessing.Queue delivers every item of a producer exactly once and in FIFO order (trusted)",
        "operating-system scheduling itself; a worker dying while holding the queue's internal lock (inside CPython)",
    ]
    ctx.assumptions.append("multiprocessing.Queue is a reliable FIFO channel per producer; a process that exited has flushed its queue feeder thread")
    # mechanisms this property rests on (see shared.py): a change there is reported here as well
    from . import shared as _sh

    ctx.run_shared(_sh.gaf_reader)
    ctx.run_shared(_sh.cli_layer, "gaftools.cli.realign")


# ---------------------------------------------------------------------------------------------


def uses_name(node, name):
    return any(isinstance(n, ast.Name) and n.id == name and isinstance(n.ctx, ast.Load) for n in ast.walk(node))


def r11_1(ctx, m, L):
    pf = m.parent
    if L.get_stmt is None:
        raise AnalysisError("R11.1", L.where(), "the dequeued item is not bound to a simple variable")
    v = L.var
    n_paths = 0
    bad = []
    for p in L.paths:
        n_paths += 1
        fresh = False
        for e in p.events:
            if e.kind == "stmt" and e.node is L.get_stmt:
                fresh = True
                continue
            if e.kind == "exc" and e.node is L.get_stmt:
                fresh = False
                continue
            node = e.node if e.kind in ("stmt", "test") else None
            if node is not None and uses_name(node, v) and not fresh:
                bad.append((p, e))
                break
    what = f"the dequeued item `{v}` is consumed only on paths where get() returned in the same iteration"
    if bad:
        p, e = bad[0]
        ctx.violated("R11.1", L.where(), what, key_of(pf, f"stale:{norm(L.get_stmt)}@{norm(L.node.test)}:{norm(e.node)[:60]}"), paths=n_paths, stale_paths=len(bad), path=p.show(), use=norm(e.node)[:120])
    else:
        ctx.holds("R11.1", L.where(), what, paths=n_paths)


def r11_4_loop(ctx, m, L):
    """Loop exit: only by the guard `sentinels != number of processes`; the counter is incremented by one exactly under `item is None`; no break."""
    pf = m.parent
    test = L.node.test
    ok_guard = False
    counter = None
    step_want = 1
    sg = rc.sentinel_guard(m, L)
    if sg is not None:
        counter, ok_guard = sg[1], True
        step_want = 1 if sg[0] == "up" else -1
    ctx.check(ok_guard, "R11.4", L.where(), "the collection loop runs until the number of sentinels equals the number of processes of the group", key_of(pf, f"guard:{norm(test)}"), guard=norm(test))
    breaks = [st for st in walk_stmts(L.node.body) if isinstance(st, ast.Break) and not _in_inner_loop(L.node, st)]
    rets = [st for st in walk_stmts(L.node.body) if isinstance(st, ast.Return)]
    ctx.check(not breaks and not rets, "R11.4", L.where(), "the only normal exit of the collection loop is its sentinel-count guard (no break/return)", key_of(pf, f"loop-exit:{norm(test)}:{len(breaks)}b{len(rets)}r"), breaks=len(breaks), returns=len(rets))
    if counter and L.var:
        # on every path: counter incremented at most once, and only when `var is None` was tested true
        bad = None
        for p in L.paths:
            incs = [e for e in p.events if e.kind == "stmt" and isinstance(e.node, ast.AugAssign) and norm(e.node.target) == counter]
            other = [e for e in p.events if e.kind == "stmt" and isinstance(e.node, ast.Assign) and any(norm(t) == counter for t in e.node.targets)]
            none_true = any(e.kind == "test" and _is_none_test(e.node, L.var) == e.pol for e in p.events if e.kind == "test" and _is_none_test(e.node, L.var) is not None)
            if other:
                bad = (p, "sentinel counter reassigned inside the loop")
            if len(incs) > 1:
                bad = (p, "sentinel counted more than once in one iteration")
            for e in incs:
                if not (isinstance(e.node.op, ast.Add if step_want == 1 else ast.Sub) and const_value(e.node.value) == 1):
                    bad = (p, f"sentinel counter step is not {step_want:+d}")
            if incs and not none_true:
                bad = (p, "sentinel counted although the item is not the None sentinel")
            got = any(e.kind == "stmt" and e.node is L.get_stmt for e in p.events)
            if got and none_true and not incs and p.term in ("fall", "continue"):
                bad = (p, "a received sentinel is not counted")
        ctx.check(bad is None, "R11.4", L.where(), "one sentinel increments the counter by exactly one, records never do", key_of(pf, f"sentinel-count:{norm(test)}:{bad[1] if bad else ''}"), **({"path": bad[0].show(), "why": bad[1]} if bad else {}))
        # records go to the priority queue on every non-sentinel path
        badp = None
        for p in L.paths:
            got = any(e.kind == "stmt" and e.node is L.get_stmt for e in p.events)
            none_false = any(e.kind == "test" and _is_none_test(e.node, L.var) is not None and _is_none_test(e.node, L.var) != e.pol for e in p.events)
            if got and none_false:
                puts = [e for e in p.events if e.kind == "stmt" and isinstance(e.node, ast.Expr) and isinstance(e.node.value, ast.Call) and isinstance(e.node.value.func, ast.Attribute) and e.node.value.func.attr == "put" and norm(e.node.value.func.value) in m.pqueues and e.node.value.args and norm(e.node.value.args[0]) == L.var]
                if len(puts) != 1:
                    badp = (p, len(puts))
        ctx.check(badp is None, "R11.2", L.where(), "every received record is put into the group's PriorityQueue exactly once", key_of(pf, f"pq-put:{norm(test)}"), **({"path": badp[0].show(), "puts": badp[1]} if badp else {}))


def _in_inner_loop(loop, st):
    for n in ast.walk(loop):
        if isinstance(n, (ast.For, ast.While)) and n is not loop and any(x is st for x in ast.walk(n)):
            return True
    return False


def _is_none_test(expr, var):
    """True if expr is `var is None`, False if `var is not None`, None otherwise (polarity of 'is None')."""
    if isinstance(expr, ast.Compare) and len(expr.ops) == 1 and norm(expr.left) == var and const_value(expr.comparators[0], 0) is None and isinstance(expr.comparators[0], ast.Constant):
        if isinstance(expr.ops[0], (ast.Is, ast.Eq)):
            return True
        if isinstance(expr.ops[0], (ast.IsNot, ast.NotEq)):
            return False
    return None


def _block_of(func_node, target):
    """(statement list, index) of the statement list directly containing `target`."""
    for n in ast.walk(func_node):
        for fld in ("body", "orelse", "finalbody"):
            lst = getattr(n, fld, None)
            if isinstance(lst, list):
                for i, st in enumerate(lst):
                    if st is target:
                        return lst, i
    return None, None


def r11_2(ctx, m, L):
    """All writes to the output handle after this loop come from PriorityQueue.get() in a drain loop of len(queue) iterations."""
    pf = m.parent
    out_param = None
    for p in pf.params:
        if p in ("output", "out", "writer"):
            out_param = p
    if out_param is None:
        # handle = the receiver of .write calls in the parent
        recv = {norm(n.func.value) for n in walk_own(pf.node) if isinstance(n, ast.Call) and isinstance(n.func, ast.Attribute) and n.func.attr in ("write", "writelines")}
        recv = {r for r in recv if r in pf.params}
        if len(recv) == 1:
            out_param = recv.pop()
    if out_param is None:
        raise AnalysisError("R11.2", pf.where(), "cannot identify the output handle parameter of the parent")
    block, idx = _block_of(pf.node, L.node)
    after = block[idx + 1 :]
    # writes anywhere in the parent
    writes = []
    for n in walk_own(pf.node):
        if isinstance(n, ast.Call):
            if isinstance(n.func, ast.Attribute) and n.func.attr in ("write", "writelines") and norm(n.func.value) == out_param:
                writes.append(n)
            if isinstance(n.func, ast.Name) and n.func.id == "print" and any(k.arg == "file" and norm(k.value) == out_param for k in n.keywords):
                writes.append(n)
    # writes inside the collection loop are forbidden
    inside = [w for w in writes if any(x is w for x in ast.walk(L.node))]
    ctx.check(not inside, "R11.2", L.where(), "nothing is written to the output inside the collection loop (results are written only after re-ordering)", key_of(pf, "write-in-collection-loop"), found=[norm(w) for w in inside])
    mine = [w for w in writes if any(x is w for st in after for x in ast.walk(st))]
    # restrict to the writes up to the next collection loop / end of block
    drain_ok = False
    detail = {}
    for w in mine:
        arg = w.args[0] if w.args else None
        src = norm(arg) if arg is not None else ""
        from_get = any(isinstance(c, ast.Call) and isinstance(c.func, ast.Attribute) and c.func.attr == "get" and norm(c.func.value) in m.pqueues for c in ast.walk(arg)) if arg is not None else False
        if not from_get and arg is not None:
            # the item taken from the queue is held in a local first: item = pq.get(); out.write(item.seq)
            root_ = arg
            while isinstance(root_, (ast.Attribute, ast.Subscript)):
                root_ = root_.value
            if isinstance(root_, ast.Name):
                defs_ = [a_ for st_ in after for a_ in ast.walk(st_) if isinstance(a_, ast.Assign) and len(a_.targets) == 1 and norm(a_.targets[0]) == root_.id]
                lp_ = next((l_ for st_ in after for l_ in ast.walk(st_) if isinstance(l_, (ast.For, ast.While)) and any(x is w for x in ast.walk(l_))), None)
                defs_in = [a_ for a_ in defs_ if lp_ is not None and any(x is a_ for x in lp_.body)]
                if len(defs_in) == 1 and isinstance(defs_in[0].value, ast.Call) and isinstance(defs_in[0].value.func, ast.Attribute) and defs_in[0].value.func.attr == "get" and norm(defs_in[0].value.func.value) in m.pqueues and pf.before(defs_in[0], w):
                    from_get = True
        raw_heap = ".queue" in src and not from_get
        is_write = isinstance(w.func, ast.Attribute) and w.func.attr == "write"
        ok = from_get and is_write and not raw_heap
        ctx.check(ok, "R11.2", pf.where(w), "the output is written from PriorityQueue.get() (smallest rank first), never from the channel item or the heap array", key_of(pf, f"write:{src}"), expr=norm(w))
        if not ok:
            continue
        # enclosing drain loop
        loop = None
        for st in after:
            for n in ast.walk(st):
                if isinstance(n, (ast.For, ast.While)) and any(x is w for x in ast.walk(n)):
                    loop = n
        if loop is None:
            ctx.violated("R11.2", pf.where(w), "the ordered write is not inside a drain loop", key_of(pf, "drain-loop-missing"))
            continue
        ok_n, why = _drain_count_ok(pf, loop, m.pqueues, after)
        ctx.check(ok_n, "R11.2", pf.where(loop), "the drain loop runs once per queued item (range(len(pq.queue)) / until empty)", key_of(pf, f"drain-count:{norm(loop.iter) if isinstance(loop, ast.For) else norm(loop.test)}"), why=why)
        drain_ok = True
        break
    if not mine:
        # the ordered write may live in a helper called after the loop: helper(pq, output)
        done = False
        for st in after:
            if isinstance(st, ast.Expr) and isinstance(st.value, ast.Call):
                h = ctx.repo.resolve_call(pf, st.value)
                if h is None or h.module is not m.mod:
                    continue
                amap = {p_: norm(a) for p_, a in zip(h.params, st.value.args)}
                pq_params = {p_ for p_, a in amap.items() if a in m.pqueues}
                out_params = {p_ for p_, a in amap.items() if a == out_param}
                if not pq_params or not out_params:
                    continue
                ctx.analysed_func(h)
                hw = [c for c in walk_own(h.node) if isinstance(c, ast.Call) and isinstance(c.func, ast.Attribute) and c.func.attr in ("write", "writelines") and norm(c.func.value) in out_params]
                for w in hw:
                    arg = w.args[0] if w.args else None
                    from_get = arg is not None and any(isinstance(c, ast.Call) and isinstance(c.func, ast.Attribute) and c.func.attr == "get" and norm(c.func.value) in pq_params for c in ast.walk(arg))
                    ok = from_get and w.func.attr == "write" and ".queue" not in norm(arg)
                    ctx.check(ok, "R11.2", h.where(w), "the output is written from PriorityQueue.get() (smallest rank first), never from the channel item or the heap array", key_of(h, f"write:{norm(arg)}"), expr=norm(w))
                    loop = next((n for n in walk_own(h.node) if isinstance(n, (ast.For, ast.While)) and any(x is w for x in ast.walk(n))), None)
                    if loop is None:
                        ctx.violated("R11.2", h.where(w), "the ordered write is not inside a drain loop", key_of(h, "drain-loop-missing"))
                    else:
                        ok_n, why = _drain_count_ok(h, loop, pq_params, h.node.body)
                        ctx.check(ok_n, "R11.2", h.where(loop), "the drain loop runs once per queued item (range(len(pq.queue)) / until empty)", key_of(h, f"drain-count:{why}"), why=why)
                    done = True
        if not done:
            ctx.violated("R11.2", L.where(), "no write of the collected results follows the collection loop", key_of(pf, "no-drain"))


def _drain_count_ok(pf, loop, pqueues, after):
    if isinstance(loop, ast.While):
        t = norm(loop.test)
        for pq in pqueues:
            if t in (f"not {pq}.empty()", f"{pq}.qsize() > 0", f"{pq}.qsize() != 0", f"len({pq}.queue) > 0", f"len({pq}.queue) != 0", f"{pq}.queue"):
                return True, t
        # a countdown: n = len(pq.queue) before the loop, `while n > 0` / `n != 0`, one `n -= 1` per iteration
        tt = loop.test
        if isinstance(tt, ast.Compare) and len(tt.ops) == 1 and isinstance(tt.left, ast.Name) and const_value(tt.comparators[0], None) == 0 and isinstance(tt.ops[0], (ast.Gt, ast.NotEq)):
            c = tt.left.id
            defs = [st for st in after if isinstance(st, ast.Assign) and len(st.targets) == 1 and norm(st.targets[0]) == c]
            steps = [st for st in loop.body if isinstance(st, ast.AugAssign) and norm(st.target) == c]
            from ..core import own_loop_jumps

            if len(defs) == 1 and any(norm(defs[0].value) in (f"len({pq}.queue)", f"{pq}.qsize()") for pq in pqueues) and len(steps) == 1 and isinstance(steps[0].op, ast.Sub) and const_value(steps[0].value) == 1 and not own_loop_jumps(loop.body) and sum(1 for x in ast.walk(loop) if isinstance(x, ast.Name) and x.id == c and isinstance(x.ctx, ast.Store)) == 1:
                return True, t
        raise AnalysisError("R11.2", pf.where(loop), f"cannot read how often the drain loop `while {t[:50]}` runs")
    it = loop.iter
    if isinstance(it, ast.Call) and isinstance(it.func, ast.Name) and it.func.id == "range" and len(it.args) == 1:
        a = it.args[0]
        src = norm(a)
        if isinstance(a, ast.Name):
            defs = [st for st in after if isinstance(st, ast.Assign) and len(st.targets) == 1 and norm(st.targets[0]) == a.id]
            if len(defs) == 1:
                src = norm(defs[0].value)
        for pq in pqueues:
            if src in (f"len({pq}.queue)", f"{pq}.qsize()"):
                return True, src
        return False, src
    return False, norm(it)


def r11_3(ctx, m):
    """Worker: exactly one put of a ranked item per record; parent: rank = input counter, +1 once per record."""
    wf, pf = m.worker, m.parent
    qparam = None
    # queue parameter of the worker: the one .put is called on
    for n in walk_own(wf.node):
        if isinstance(n, ast.Call) and isinstance(n.func, ast.Attribute) and n.func.attr == "put" and isinstance(n.func.value, ast.Name) and n.func.value.id in wf.params:
            qparam = n.func.value.id
    if qparam is None:
        raise AnalysisError("R11.3", wf.where(), "worker does not put results on a queue parameter")
    batch_loops = [n for n in walk_stmts(wf.node.body) if isinstance(n, ast.For) and isinstance(n.iter, ast.Name) and n.iter.id in wf.params]  # also inside try / with
    ctx.require_count("R11.3", len(batch_loops), 1, wf.where(), "worker loop over its batch")
    loop = batch_loops[0]
    tgt = loop.target
    if not isinstance(tgt, ast.Tuple):
        raise AnalysisError("R11.3", wf.where(loop), "batch items are not unpacked into (record, ref, query, rank)")
    tnames = [norm(e) for e in tgt.elts]
    paths = enum_paths(loop.body, rule="R11.3", where=wf.where(loop))
    bad = None
    prio_vars = set()
    for p in paths:
        puts = []
        for e in p.events:
            if e.kind == "stmt" and isinstance(e.node, ast.Expr) and isinstance(e.node.value, ast.Call):
                c = e.node.value
                if isinstance(c.func, ast.Attribute) and c.func.attr == "put" and norm(c.func.value) == qparam:
                    puts.append(c)
        if p.term in ("fall", "continue") and len(puts) != 1:
            bad = (p, f"{len(puts)} put(s) on a normal path through one record")
            break
        for c in puts:
            a = c.args[0] if c.args else None
            if isinstance(a, ast.Call) and a.args:
                prio = norm(a.args[0])
                prio_vars.add(prio)
                if prio not in tnames:
                    bad = (p, f"priority {prio} is not the rank element of this batch tuple {tnames}")
            elif isinstance(a, ast.Constant) and a.value is None:
                bad = (p, "sentinel put inside the batch loop")
            else:
                bad = (p, f"item {norm(a)} carries no rank")
    ctx.check(bad is None, "R11.3", wf.where(loop), "every path through one record of the batch puts exactly one item ranked with that record's own input counter", key_of(wf, f"worker-put:{bad[1] if bad else ''}"), paths=len(paths), **({"path": bad[0].show(), "why": bad[1]} if bad else {}))
    # the priority dataclass orders on its first field
    prio_cls = None
    for n in walk_own(wf.node):
        if isinstance(n, ast.Call) and isinstance(n.func, ast.Name) and n.func.id in m.mod.classes:
            prio_cls = m.mod.classes[n.func.id]
    if prio_cls is not None:
        deco = [norm(d) for d in prio_cls.decorator_list]
        fields = [st for st in prio_cls.body if isinstance(st, ast.AnnAssign)]
        ordered = any("dataclass" in d and "order=True" in d for d in deco)
        first_is_rank = bool(fields) and norm(fields[0].annotation) == "int"
        custom_lt = any(isinstance(st, ast.FunctionDef) and st.name in ("__lt__", "__le__", "__gt__", "__ge__", "__eq__") for st in prio_cls.body)
        ctx.check(ordered and first_is_rank and not custom_lt, "R11.3", f"{m.mod.relpath}:{prio_cls.lineno} {prio_cls.name}", "the queued item orders on its integer rank first (dataclass(order=True), rank is the first field)", f"{m.mod.name}.{prio_cls.name}::order", decorators=deco, first_field=norm(fields[0]) if fields else None)
        # constructor argument order at the put site: rank is the first positional argument -> the first field
    # parent: rank position in the batch tuple and the counter discipline
    rank_pos = tnames.index(next(iter(prio_vars))) if len(prio_vars) == 1 and next(iter(prio_vars)) in tnames else None
    rec_loops = [n for n in walk_own(pf.node) if isinstance(n, ast.For) and "read_file" in norm(n.iter)]
    ctx.require_count("R11.3", len(rec_loops), 1, pf.where(), "parent loop over the parsed records")
    rl = rec_loops[0]
    appends = [n for n in walk_stmts(rl.body) if isinstance(n, ast.Expr) and isinstance(n.value, ast.Call) and isinstance(n.value.func, ast.Attribute) and n.value.func.attr == "append" and n.value.args and isinstance(n.value.args[0], ast.Tuple)]
    if not appends or rank_pos is None:
        raise AnalysisError("R11.3", pf.where(rl), "cannot find the batch tuple append / the rank position")
    ap = appends[0]
    counter = norm(ap.value.args[0].elts[rank_pos]) if rank_pos < len(ap.value.args[0].elts) else None
    ppaths = enum_paths(rl.body, rule="R11.3", where=pf.where(rl))
    badp = None
    for p in ppaths:
        ev = p.events
        i_ap = p.index(lambda e: e.kind == "stmt" and e.node is ap)
        incs = [i for i, e in enumerate(ev) if e.kind == "stmt" and isinstance(e.node, ast.AugAssign) and norm(e.node.target) == counter]
        sets = [i for i, e in enumerate(ev) if e.kind == "stmt" and isinstance(e.node, ast.Assign) and any(norm(t) == counter for t in e.node.targets)]
        if i_ap < 0:
            if p.term in ("fall", "continue"):
                badp = (p, "a record is not added to any batch")
            continue
        if sets:
            badp = (p, "input counter reassigned inside the record loop")
        if len(incs) != 1:
            badp = (p, f"input counter incremented {len(incs)} times for one record")
        elif not (isinstance(ev[incs[0]].node.op, ast.Add) and const_value(ev[incs[0]].node.value) == 1):
            badp = (p, "input counter step is not +1")
        elif incs[0] < i_ap:
            # incremented before being stored: ranks start at 1 — still unique and increasing; allowed
            pass
    ctx.check(badp is None, "R11.3", pf.where(rl), f"the rank stored with each record is the input counter `{counter}`, incremented by one exactly once per record", key_of(pf, f"counter:{badp[1] if badp else ''}"), paths=len(ppaths), **({"path": badp[0].show(), "why": badp[1]} if badp else {}))
    # the counter is initialised once before the loop, not inside any loop
    inits = [st for st in walk_stmts(pf.node.body) if isinstance(st, ast.Assign) and any(norm(t) == counter for t in st.targets)]
    in_loop = [st for st in inits if any(any(x is st for x in ast.walk(l)) for l in walk_own(pf.node) if isinstance(l, (ast.For, ast.While)))]
    ctx.check(len(inits) == 1 and not in_loop, "R11.3", pf.where(), "the input counter is initialised once, outside every loop (ranks are unique across groups)", key_of(pf, "counter-init"), inits=[norm(s) for s in inits])


def r11_4_worker(ctx, m):
    """Exactly one None sentinel per worker: counted along every normal path through the worker (try / finally included);
    a sentinel put inside a loop is sent once per iteration."""
    wf = m.worker
    body = wf.node.body

    def is_sent(st):
        return isinstance(st, ast.Expr) and isinstance(st.value, ast.Call) and isinstance(st.value.func, ast.Attribute) and st.value.func.attr == "put" and st.value.args and isinstance(st.value.args[0], ast.Constant) and st.value.args[0].value is None

    sent = [st for st in walk_stmts(body) if is_sent(st)]
    in_loop = [st for st in sent if any(isinstance(l, (ast.For, ast.While)) and any(x is st for x in ast.walk(l)) for l in walk_stmts(body))]
    paths = enum_paths(body, rule="R11.4", where=wf.where())
    counts = set()
    bad = None
    loop_after = False
    for p in paths:
        if p.term not in ("fall", "return"):
            continue
        n = 0
        for e in p.events:
            if e.kind == "stmt" and is_sent(e.node):
                n += 1
            elif e.kind in ("loop", "stmt") and n and isinstance(e.node, (ast.For, ast.While)):
                loop_after = True
        counts.add(n)
        if n != 1 and bad is None:
            bad = p
    rets = [st for st in walk_stmts(body) if isinstance(st, ast.Return)]
    ok = counts == {1} and not in_loop and not loop_after
    ctx.check(ok, "R11.4", wf.where(), "the worker puts exactly one None sentinel, after its batch loop, on every normal path", key_of(wf, f"sentinel:{sorted(counts)}per-path{len(in_loop)}inner{len(rets)}ret"), sentinels_per_path=sorted(counts), inside_loops=len(in_loop), early_returns=len(rets), **({"path": bad.show()} if bad else {}))


def r11_5_group(ctx, m, L):
    """Around one collection loop: start every process before, join every process after, then reset."""
    pf = m.parent
    block, idx = _block_of(pf.node, L.node)
    before = block[:idx]
    after = block[idx + 1 :]

    def loop_calls(stmts, meth):
        for st in stmts:
            if isinstance(st, ast.For) and norm(st.iter) in m.proc_lists:
                for n in ast.walk(st):
                    if isinstance(n, ast.Call) and isinstance(n.func, ast.Attribute) and n.func.attr == meth and norm(n.func.value) == norm(st.target):
                        if not any(isinstance(x, (ast.If, ast.Break, ast.Continue)) for x in ast.walk(st)):
                            return st
        return None

    st_start = loop_calls(before, "start")
    st_join = loop_calls(after, "join")
    ctx.check(st_start is not None, "R11.5", L.where(), "every process of the group is started (unconditional loop over the process list) before results are collected", key_of(pf, f"start-before:{norm(L.node.test)}"))
    ctx.check(st_join is not None, "R11.5", L.where(), "every process of the group is joined after the collection loop", key_of(pf, f"join-after:{norm(L.node.test)}"))
    # the priority queue used by this loop is created fresh for the group (before the loop, in the same block)
    fresh = [st for st in before if isinstance(st, ast.Assign) and norm(st.targets[0]) in m.pqueues and isinstance(st.value, ast.Call)]
    ctx.check(bool(fresh), "R11.5", L.where(), "the group's PriorityQueue is created in the group's own block before collecting", key_of(pf, f"pq-fresh:{norm(L.node.test)}"))


def _slices_tile(pf, call, sub):
    """True when the slices `bv[...]` taken in the loop around `call` cover all of bv; a message when they provably do
    not (floor-divided chunk length); None when undecided."""
    bv = sub.value.id
    loop = None
    for n in walk_own(pf.node):
        if isinstance(n, ast.For) and any(x is call for x in ast.walk(n)) and isinstance(n.target, ast.Name):
            if loop is None or any(x is n for x in ast.walk(loop)):
                loop = n
    if loop is None or not (isinstance(loop.iter, ast.Call) and norm(loop.iter.func) == "range"):
        return None
    i = loop.target.id
    rargs = [norm(a) for a in loop.iter.args]
    lo, hi, step = (norm(x) if x is not None else None for x in (sub.slice.lower, sub.slice.upper, sub.slice.step))
    ln = f"len({bv})"
    if len(rargs) == 3 and rargs[0] == "0" and rargs[1] == ln and lo == i and hi in (f"{i} + {rargs[2]}", f"{rargs[2]} + {i}") and step is None:
        return True  # for i in range(0, len(b), c): b[i:i + c]
    if len(rargs) == 1 and lo == i and hi is None and step == rargs[0]:
        return True  # for i in range(n): b[i::n]
    if len(rargs) != 1 or step is not None or lo is None or hi is None:
        return None
    n = rargs[0]
    c = None
    for cand in {x.id for x in ast.walk(sub.slice) if isinstance(x, ast.Name)} - {i}:
        if lo in (f"{i} * {cand}", f"{cand} * {i}") and hi in (f"({i} + 1) * {cand}", f"{cand} * ({i} + 1)", f"{i} * {cand} + {cand}", f"{lo} + {cand}"):
            c = cand
    if c is None:
        return None
    defs = [st.value for st in walk_stmts(pf.node.body) if isinstance(st, ast.Assign) and len(st.targets) == 1 and norm(st.targets[0]) == c]
    if len(defs) != 1:
        return None
    d = norm(defs[0])
    if d in (f"({ln} + {n} - 1) // {n}", f"-(-{ln} // {n})", f"math.ceil({ln} / {n})", f"ceil({ln} / {n})", f"-({ln} // -{n})"):
        return True  # n * ceil(len / n) >= len
    if d in (f"{ln} // {n}", f"int({ln} / {n})"):
        return (f"the {n} slices `{norm(sub)}` have length {c} = {d}, rounded down: the last len({bv}) % {n} records of the batch "
                f"(e.g. 1 of 3 for 2 processes) are handed to no process and are never written")
    return None


def r11_5_batches(ctx, m):
    pf = m.parent
    rec_loops = [n for n in walk_own(pf.node) if isinstance(n, ast.For) and "read_file" in norm(n.iter)]
    if not rec_loops:
        raise AnalysisError("R11.5", pf.where(), "no record loop")
    rl = rec_loops[0]
    # batch variable: first arg of args=(batch, queue)
    batch_vars = set()
    for site in m.ctor_sites:
        c = site.node
        if site.batch is not None:
            batch_vars.add(norm(site.batch))
            ch = norm(site.queue) if site.queue is not None else None
            ctx.check(ch in m.channels, "R11.5", pf.where(c), "the worker is handed the result queue that the collection loop reads", key_of(pf, f"worker-queue:{ch}"), queue=ch)
    # a batch handed over in slices: the slices of one loop must tile the whole list
    for site in m.ctor_sites:
        b = site.batch
        if isinstance(b, ast.Subscript) and isinstance(b.value, ast.Name) and isinstance(b.slice, ast.Slice):
            batch_vars.discard(norm(b))
            batch_vars.add(b.value.id)
            verdict = _slices_tile(pf, site.node, b)
            if verdict is None:
                raise AnalysisError("R11.5", pf.where(site.node), f"cannot decide whether the slices `{norm(b)}` cover the whole batch")
            ctx.check(verdict is True, "R11.5", pf.where(site.node), "the slices of a batch that is spread over several processes cover every record of the batch" if verdict is True else verdict, key_of(pf, f"slices-tile:{b.value.id}"), slice=norm(b))
    if len(batch_vars) != 1:
        raise AnalysisError("R11.5", pf.where(), f"cannot identify the batch list variable ({batch_vars})")
    bv = batch_vars.pop()
    in_loop = [c for c in m.proc_ctor_calls if any(x is c for x in ast.walk(rl))]
    after_loop = [c for c in m.proc_ctor_calls if not any(x is c for x in ast.walk(rl))]
    ctx.check(len(in_loop) >= 1, "R11.5", pf.where(rl), "a full batch is handed to a new process inside the record loop", key_of(pf, "full-batch-process"))
    # after handing over, the batch variable is rebound to a fresh list (not cleared in place: the process holds the old list)
    for c in in_loop:
        blk, i = None, None
        for st in walk_stmts(rl.body):
            if isinstance(st, ast.Expr) and any(x is c for x in ast.walk(st)):
                blk, i = _block_of(pf.node, st)
        ok = False
        if blk is not None:
            for st in blk[i + 1 :]:
                if isinstance(st, ast.Assign) and norm(st.targets[0]) == bv and isinstance(st.value, (ast.List, ast.Call)) and norm(st.value) in ("[]", "list()"):
                    ok = True
        ctx.check(ok, "R11.5", pf.where(c), "after a batch is handed to a process the batch variable is rebound to a new empty list", key_of(pf, f"batch-reset:{bv}"))
    # remainder
    rem_ok = False
    for c in after_loop:
        for n in walk_own(pf.node):
            if isinstance(n, ast.If) and any(x is c for x in ast.walk(n)) and not any(x is n for x in ast.walk(rl)):
                t = norm(n.test)
                if t in (f"len({bv}) > 0", f"len({bv}) != 0", f"{bv}", f"len({bv}) >= 1", f"len({bv})"):
                    rem_ok = True
    if not rem_ok and after_loop:
        # a guard on something else than the batch list itself (a counter kept next to it): not decided here
        other_guard = [norm(n.test) for c in after_loop for n in walk_own(pf.node) if isinstance(n, ast.If) and any(x is c for x in ast.walk(n)) and not any(x is n for x in ast.walk(rl)) and bv not in {x.id for x in ast.walk(n.test) if isinstance(x, ast.Name)}]
        if other_guard:
            raise AnalysisError("R11.5", pf.where(), f"the leftover batch is handed over under `{other_guard[0][:50]}`, a test that does not look at the batch list `{bv}`: that it means 'the list is not empty' is not established")
    ctx.check(rem_ok, "R11.5", pf.where(), "the records left over after the last full batch are handed to a process (guarded only by non-emptiness)", key_of(pf, "remainder-batch"))
    # the leftover group (processes created but not yet run) is collected after the record loop
    loops_after = [L for L in m.loops if not any(x is L.node for x in ast.walk(rl))]
    guard_ok = False
    for L in loops_after:
        for n in walk_own(pf.node):
            if isinstance(n, ast.If) and any(x is L.node for x in ast.walk(n)) and not any(x is n for x in ast.walk(rl)):
                t = norm(n.test)
                if any(t in (f"len({pl}) != 0", f"len({pl}) > 0", f"{pl}", f"len({pl})") for pl in m.proc_lists):
                    guard_ok = True
    ctx.check(guard_ok, "R11.5", pf.where(), "processes still pending after the record loop are run and collected (guarded only by a non-empty process list)", key_of(pf, "leftover-group"))
    # nothing leaves the function between the record loop and the collection of the leftover group, unless the process list is
    # known to be empty there: full batches parked in the list (fewer than `cores` of them) would never be run
    from .c09 import guards_of as _gof11

    for r_ in walk_stmts(pf.node.body):
        if isinstance(r_, (ast.Return, ast.Raise)) or (isinstance(r_, ast.Expr) and isinstance(r_.value, ast.Call) and norm(r_.value.func) in ("sys.exit", "exit", "quit")):
            if any(x is r_ for x in ast.walk(rl)) or not pf.before(rl, r_):
                continue
            if not any(pf.before(r_, L.node) for L in loops_after):
                continue
            if any(any(x is r_ for x in ast.walk(L.node)) for L in m.loops):
                continue
            gs_ = [(norm(t_), p_) for t_, p_ in _gof11(pf.node, r_)]
            knows_empty = any(any(pl in g for pl in m.proc_lists) for g, _p in gs_)
            is_abort = isinstance(r_, ast.Raise) or (isinstance(r_, ast.Expr) and r_.value.args and const_value(r_.value.args[0], 0) not in (0, None))
            if not knows_empty and not is_abort:
                ctx.violated("R11.5", pf.where(r_), f"the function leaves (`{norm(r_)[:30]}`, under `{' and '.join(g for g, _ in gs_)[:60]}`) after the record loop and before the leftover group is run, without looking at the process list: when the number of records is a multiple of the batch size, full batches still parked there (fewer than `cores` of them) are never realigned and never written", key_of(pf, "leaves-before-leftover-group"))
    # inside the record loop the group is run when the process count reaches the core count; afterwards the list is reset
    loops_in = [L for L in m.loops if any(x is L.node for x in ast.walk(rl))]
    for L in loops_in:
        blk, i = _block_of(pf.node, L.node)
        reset = [st for st in blk[i + 1 :] if isinstance(st, ast.Assign) and norm(st.targets[0]) in m.proc_lists and norm(st.value) in ("[]", "list()")]
        ctx.check(bool(reset), "R11.5", L.where(), "the process list is reset after a group has been collected and written", key_of(pf, "process-list-reset"))
        # a fresh channel or the same one: both fine as long as the new processes get the current one (checked above)


def r11_6(ctx, m):
    """A timeout while some worker is still running must lead back to the read: the parent may give up (exit) only on
    a path that established that *no* worker is alive; the process predicates are classified as in C13."""
    from . import c13

    c13.check_helpers(ctx, m)
    pf = m.parent
    repo = ctx.repo
    for L in m.loops:
        bad = None
        n = 0
        for p in L.paths:
            if not any(e.kind == "exc" and e.node is L.get_stmt for e in p.events):
                continue
            n += 1
            facts = {}
            seen = False
            for e in p.events:
                if e.kind == "exc":
                    seen = True
                elif e.kind == "test" and seen:
                    facts.update(rc.test_facts(repo, pf, e.node, e.pol))
            if p.term in ("exit", "raise", "break", "return") and facts.get("alive_any") is not False:
                bad = (p, f"the parent gives up ({p.term}) after a timeout without having established that no worker is alive (a slow worker, or one that already finished cleanly next to a running one, makes the run fail)")
            order = list(facts)
            if p.term in ("exit", "raise") and facts.get("alive_any") is False and "exit_all_zero" in order and order.index("exit_all_zero") < order.index("alive_any"):
                bad = (p, "the exit codes are read before it is established that no worker is alive: a worker that is still running then (exit code None) and finishes cleanly before the liveness test makes a healthy run abort")
            if facts.get("alive_any") is True and p.term not in ("continue", "fall"):  # (falling off the loop body goes back to the read as well; a stale item used on the way is R11.1's)
                bad = (p, f"a worker is still alive but the path ends in '{p.term}' instead of going back to the read")
        ctx.check(bad is None, "R11.6", L.where(), "after a timed-out read the parent keeps waiting while any worker is alive and gives up only when none is", key_of(pf, f"wait-while-alive:{norm(L.node.test)}:{bad[1][:40] if bad else ''}"), handler_paths=n, **({"path": bad[0].show(), "why": bad[1]} if bad else {}))


def _parent_adds_newline(m):
    """every `output.write(...)` of a ranked item in the parent appends a newline to the item's text (`write(x.seq + "\n")`)"""
    pf = m.parent
    ws = [c for c in walk_own(pf.node) if isinstance(c, ast.Call) and isinstance(c.func, ast.Attribute) and c.func.attr == "write" and c.args and any(isinstance(x, ast.Call) and isinstance(x.func, ast.Attribute) and x.func.attr == "get" and norm(x.func.value) in m.pqueues for x in ast.walk(c.args[0]))]
    if not ws:
        # the item is bound to a name first
        for c in walk_own(pf.node):
            if isinstance(c, ast.Call) and isinstance(c.func, ast.Attribute) and c.func.attr == "write" and c.args and isinstance(c.args[0], ast.BinOp):
                ws.append(c)
    return bool(ws) and all(isinstance(c.args[0], ast.BinOp) and isinstance(c.args[0].op, ast.Add) and const_value(c.args[0].right, None) == "\n" for c in ws)


def r11_8(ctx, m):
    """(a) Records reach the output only through the ordered drain of a group's priority queue: any other write of a record
    in the parent (a leftover batch aligned in the parent and written at once) overtakes groups that are still waiting.
    (b) The internal list of a PriorityQueue is a heap: only `.queue[0]` means something (the smallest item); `.queue[-1]`
    is not the largest, so a completeness / order test on it fails for legal arrival orders."""
    pf = m.parent
    repo = ctx.repo
    helpers = [pf] + [h for c in walk_own(pf.node) if isinstance(c, ast.Call) for h in [repo.resolve_call(pf, c)] if h is not None and h.module is pf.module and h is not m.worker]
    # (b)
    for fn in helpers:
        heap_names = set(m.pqueues) if fn is pf else set(fn.params)
        aliases = {st.targets[0].id for st in walk_own(fn.node) if isinstance(st, ast.Assign) and len(st.targets) == 1 and isinstance(st.targets[0], ast.Name) and isinstance(st.value, ast.Attribute) and st.value.attr == "queue" and norm(st.value.value) in heap_names}
        for x in walk_own(fn.node):
            if isinstance(x, ast.Subscript) and ((isinstance(x.value, ast.Attribute) and x.value.attr == "queue" and norm(x.value.value) in heap_names) or (isinstance(x.value, ast.Name) and x.value.id in aliases)):
                idx = const_value(x.slice, None) if not (isinstance(x.slice, ast.UnaryOp) and isinstance(x.slice.op, ast.USub)) else -const_value(x.slice.operand, 0)
                if idx != 0:
                    ctx.violated("R11.8", fn.where(x), f"`{norm(x)[:40]}` reads an element other than the first of a PriorityQueue's internal list: that list is a heap, only its first element is known to be the smallest; which item sits at `{norm(x.slice)}` depends on the order in which the workers delivered, so a decision made on it (a completeness check that aborts) differs between legal schedules", key_of(fn, f"heap-position-read:{norm(x)[:30]}"))
    # (a)
    out_param = next((p_ for p_ in pf.params if "out" in p_), None)
    if out_param is None:
        return
    for c in walk_own(pf.node):
        if isinstance(c, ast.Call) and isinstance(c.func, ast.Attribute) and c.func.attr == "write" and norm(c.func.value) == out_param and c.args:
            arg = c.args[0]
            names = {x.id for x in ast.walk(arg) if isinstance(x, ast.Name)}
            from_pq = any(isinstance(x, ast.Call) and isinstance(x.func, ast.Attribute) and x.func.attr == "get" and norm(x.func.value) in m.pqueues for x in ast.walk(arg))
            if not from_pq:
                for st in walk_own(pf.node):
                    if isinstance(st, ast.Assign) and len(st.targets) == 1 and isinstance(st.targets[0], ast.Name) and st.targets[0].id in names and any(isinstance(x, ast.Call) and isinstance(x.func, ast.Attribute) and x.func.attr == "get" and norm(x.func.value) in m.pqueues for x in ast.walk(st.value)):
                        from_pq = True
            if not from_pq and names:
                # where does the written item come from: a loop over something that is not a priority queue of the parent
                src = None
                for lp in walk_own(pf.node):
                    if isinstance(lp, ast.For) and any(y is c for y in ast.walk(lp)) and ({y.id for y in ast.walk(lp.target) if isinstance(y, ast.Name)} & names):
                        src = norm(lp.iter)
                if src is not None and not any(pq in src for pq in m.pqueues):
                    ctx.violated("R11.8", pf.where(c), f"`{norm(c)[:50]}` writes records taken from `{src[:50]}`, not from the ordered drain of a group's priority queue: they reach the output at once, ahead of the records of batches whose processes have not been run and collected yet (1010 records with two cores: the last ten come first)", key_of(pf, f"write-outside-drain:{src[:30]}"))
    ctx.holds("R11.8", pf.where(), "records are written only from the ordered drain of a priority queue; no decision reads a heap position other than the first", nontrivial=False)


def r11_7(ctx, m):
    """One queue item is one output line: the text of every ranked item the worker puts ends with a newline (the parent writes
    the items one after the other with nothing in between, so an item without its line end is glued to the next record)."""
    from .. import tmpl
    from ..core import reaching_def

    wf = m.worker
    n = 0
    for c in walk_own(wf.node):
        if not (isinstance(c, ast.Call) and isinstance(c.func, ast.Attribute) and c.func.attr == "put" and c.args):
            continue
        item = c.args[0]
        if isinstance(item, ast.Constant) and item.value is None:
            continue  # the sentinel
        text = None
        if isinstance(item, ast.Call) and len(item.args) >= 2:
            text = item.args[-1]  # PriorityAlignment(rank, text)
        elif isinstance(item, ast.Tuple) and len(item.elts) >= 2:
            text = item.elts[-1]
        if text is None:
            raise AnalysisError("R11.7", wf.where(c), f"cannot find the text of the item put on the queue (`{norm(item)[:50]}`)")
        n += 1
        e = text
        st = next((s_ for s_ in walk_stmts(wf.node.body) if not isinstance(s_, (ast.If, ast.For, ast.While, ast.With, ast.Try)) and any(x is c for x in ast.walk(s_))), None)
        for _ in range(3):
            if isinstance(e, ast.Name) and st is not None:
                d = reaching_def(wf.node, st, e.id)
                if d is None:
                    break
                e = d
        try:
            parts = tmpl.of_expr(e)
        except tmpl.TemplateError:
            parts = None
        ends_nl = bool(parts) and parts[-1][0] == "lit" and parts[-1][1].endswith("\n")
        if ends_nl and _parent_adds_newline(m):
            ctx.violated("R11.7", wf.where(c), f"the worker queues `{norm(text)[:60]}` with its line end and the parent adds another one when it writes the item: an empty line follows the record", key_of(wf, f"item-with-two-newlines:{norm(text)[:40]}"))
        elif ends_nl:
            ctx.holds("R11.7", wf.where(c), "the text of a queued item ends with its line end")
        elif (isinstance(e, ast.Call) and isinstance(e.func, ast.Name) and e.func.id in ("str", "repr", "format") or (parts and parts[-1][0] in ("hole", "rep") and not any(x[0] == "opaque" for x in parts))) and _parent_adds_newline(m):
            ctx.holds("R11.7", wf.where(c), "the text of a queued item has no line end, and every write of an item in the parent adds one")
        elif isinstance(e, ast.Call) and isinstance(e.func, ast.Name) and e.func.id in ("str", "repr", "format") or (parts and parts[-1][0] in ("hole", "rep") and not any(x[0] == "opaque" for x in parts)):
            ctx.violated("R11.7", wf.where(c), f"the worker queues `{norm(text)[:60]}` without a line end: the parent writes the items back to back, so this record and the next one end up on one line (one record fewer for every reader, and no final newline when it is the last)", key_of(wf, f"item-without-newline:{norm(text)[:40]}"))
        else:
            raise AnalysisError("R11.7", wf.where(c), f"cannot decide whether the queued text `{norm(text)[:50]}` ends with a newline")
    ctx.require_count("R11.7", n, 2, wf.where(), "ranked items put by the worker (pass-through and realigned)")
