"""C04 — view --node returns exactly the records touching the nodes.

R04.1  exactly once: on every path to the emitting loops the offset collection is a set-derived value
R04.2  file order: sorted() / .sort() after the last mutation, before every emitting loop
R04.3  unaligned nodes contribute nothing: every lookup keyed by a user-supplied node is guarded per node
R04.4  nothing found is reported: raise CommandLineError on emptiness before the emitting loops
R04.5  convert-then-select = select-then-convert: converters get the same auxiliary objects on both routes
R04.6  same content without --format: records are printed through the record's own serialiser
"""

from __future__ import annotations

import ast

from ..core import AnalysisError, const_value, norm, walk_own, walk_stmts, names_in
from ..paths import enum_paths, canon_test
from . import view_common as vc
from .c09 import guards_of
from .common import key_of
from . import c16
from .common import gaf_schema

META = {
    "explanation": "Static decision of view's selection branch: along every control-flow path from the index lookup to the loops that seek and print "
    "records, the offset collection is built as a set union over the requested nodes (so a record that visits a node twice, or several "
    "requested nodes, is printed once), is sorted after its last mutation (file order), and every lookup keyed by a user-supplied node id is "
    "guarded per node (membership test, or a try/except KeyError *inside* the per-node loop), so a node without alignments contributes "
    "nothing and does not end the collection; emptiness raises CommandLineError before any output; the converter calls of the selection "
    "branch receive positionally the same auxiliary objects as the whole-file generators, which forward them unchanged; unconverted records "
    "are printed through Alignment.__str__, whose columns are the parsed ones (decided in C16).",
    "technique": "static analysis: path enumeration with abstract collection kinds (list/set/sorted), guarded-lookup discipline, sibling call-site agreement",
}


def check(ctx):
    v = vc.build(ctx, "R04")
    ctx.run(r04_123, v)
    ctx.run(r04_4, v)
    ctx.run(r04_5, v)
    ctx.run(r04_7, v)
    ctx.run(r04_6, v)
    # "records that traverse a node" is what the index lists: the coverage rules of the index are shared with C03
    from . import c03

    from . import c01 as _c01

    ctx.run(_c01.r01_8)  # --format on the selected records uses the same graph tables
    from . import conv_common as _cc

    ctx.run(_c01.r01_9, _cc.build(ctx, "R01.9"))  # and must not disturb them: records converted later in the same run share them
    irun = c03.index_run(ctx, "R03")
    ctx.analysed_func(irun)
    info = c03.r03_1(ctx, irun)
    ctx.run(c03.r03_2, irun, info)
    ctx.run(c03.r03_3, irun, info)
    from . import c16 as _c16
    from .c19 import tag_loop as _tl, tag_regex_info as _ti

    _pf, _loop = _tl(ctx, "R16.1")
    ctx.run(_c16.r16_1, _pf, _loop, _ti(_pf, _loop, "R16.1"))  # optional fields survive: the parser accepts the tag grammar (shared with C16)
    ctx.run(_c16.r16_2, _pf, _loop)
    ctx.not_decided.append("that the index itself lists the right offsets (C03) and that seek/readline return that record (pysam / text I/O contract)")
    # mechanisms this property rests on (see shared.py): a change there is reported here as well
    from . import shared as _sh

    ctx.run_shared(_sh.path_tokenisers)
    ctx.run_shared(_sh.gaf_reader)
    ctx.run_shared(_sh.tag_parser)
    ctx.run_shared(_sh.graph_loader)
    ctx.run_shared(_sh.contig_paths)
    ctx.run_shared(_sh.index_build)
    ctx.run_shared(_sh.cli_layer, "gaftools.cli.view")
    ctx.run_shared(_sh.cli_layer, "gaftools.cli.index")


RANK = {"sorted": 0, "set": 1, "uniq-list": 2, "sorted-dups": 3, "list": 4}


def worst(kinds):
    kinds = [k for k in kinds if k is not None]
    return max(kinds, key=lambda k: RANK.get(k, 9)) if kinds else None


class Kinds:
    """Flow-sensitive abstract kinds of collection-valued locals along one path:
    'set' (duplicate-free, unordered), 'sorted' (duplicate-free and ascending), 'uniq-list' (duplicate-free list, order unknown),
    'sorted-dups' (ascending, duplicates possible), 'list' (anything: e.g. the per-visit offset list of one node)."""

    def __init__(self, ctx, func, depth=0):
        self.ctx, self.func, self.depth = ctx, func, depth
        self.env = {}

    def of(self, e):
        if isinstance(e, ast.Name):
            return self.env.get(e.id, "list")
        if isinstance(e, (ast.Set, ast.SetComp)):
            return "set"
        if isinstance(e, ast.Call):
            fn = e.func
            if isinstance(fn, ast.Name):
                if fn.id == "set":
                    return "set"
                if fn.id == "frozenset":
                    return "set"
                if fn.id == "sorted":
                    inner = self.of(e.args[0]) if e.args else None
                    rev = any(k.arg == "reverse" and const_value(k.value) is not False for k in e.keywords)
                    key = any(k.arg == "key" for k in e.keywords)
                    if rev or key:
                        return "uniq-list" if inner in ("set", "sorted", "uniq-list") else "list"
                    return "sorted" if inner in ("set", "sorted", "uniq-list") else "sorted-dups"
                if fn.id in ("list", "tuple"):
                    inner = self.of(e.args[0]) if e.args else None
                    if inner == "sorted":
                        return "sorted"
                    if inner == "sorted-dups":
                        return "sorted-dups"
                    return "uniq-list" if inner in ("set", "uniq-list") else "list"
                callee = self.ctx.repo.resolve_call(self.func, e)
                if callee is not None and self.depth < 2:
                    return return_kind(self.ctx, callee, self.depth + 1)
                return "list"
            if isinstance(fn, ast.Attribute):
                if fn.attr in ("union", "intersection", "difference", "copy", "symmetric_difference"):
                    base = self.of(fn.value)
                    return "set" if base == "set" else "list"
                if fn.attr == "fromkeys" and norm(fn.value) == "dict":
                    return "uniq-list"
                if fn.attr in ("keys",):
                    return "uniq-list"
            return "list"
        if isinstance(e, ast.BinOp) and isinstance(e.op, (ast.BitOr, ast.BitAnd, ast.Sub, ast.BitXor)):
            l, r = self.of(e.left), self.of(e.right)
            return "set" if (l == "set" and r == "set") else "list"
        if isinstance(e, ast.BinOp) and isinstance(e.op, ast.Add):
            return "list"
        if isinstance(e, ast.List):
            return "sorted" if not e.elts else "list"
        return "list"

    def stmt(self, st):
        if isinstance(st, ast.Assign) and len(st.targets) == 1 and isinstance(st.targets[0], ast.Name):
            self.env[st.targets[0].id] = self.of(st.value)
        elif isinstance(st, ast.Assign) and len(st.targets) == 1 and isinstance(st.targets[0], ast.Tuple) and isinstance(st.value, ast.Call):
            for t in st.targets[0].elts:
                if isinstance(t, ast.Name):
                    self.env[t.id] = "list"
        elif isinstance(st, ast.AugAssign) and isinstance(st.target, ast.Name):
            cur = self.env.get(st.target.id, "list")
            if isinstance(st.op, (ast.BitOr, ast.BitAnd, ast.Sub)) and cur == "set":
                self.env[st.target.id] = "set"
            else:
                self.env[st.target.id] = "list"
        elif isinstance(st, ast.Expr) and isinstance(st.value, ast.Call) and isinstance(st.value.func, ast.Attribute) and isinstance(st.value.func.value, ast.Name):
            recv, m = st.value.func.value.id, st.value.func.attr
            cur = self.env.get(recv)
            if cur is None:
                return
            if m == "sort":
                rev = any(k.arg in ("reverse", "key") for k in st.value.keywords)
                self.env[recv] = ("sorted" if cur in ("set", "sorted", "uniq-list") else "sorted-dups") if not rev else ("uniq-list" if cur in ("sorted", "uniq-list") else "list")
            elif m in ("update", "add", "discard", "remove", "intersection_update", "difference_update"):
                self.env[recv] = "set" if cur == "set" else "list"
            elif m in ("append", "extend", "insert", "reverse"):
                self.env[recv] = "list"


def return_kind(ctx, func, depth):
    """Worst kind of the value returned by a helper, over all its paths (loops expanded 0/1 times)."""
    paths = enum_paths(func.node.body, expand_loop=lambda n: True, rule="R04.1", where=func.where())
    kinds = []
    for p in paths:
        k = Kinds(ctx, func, depth)
        for e in p.events:
            if e.kind == "stmt":
                if isinstance(e.node, ast.Return) and e.node.value is not None:
                    kinds.append(k.of(e.node.value))
                else:
                    k.stmt(e.node)
    ctx.analysed_func(func)
    return worst(kinds) or "list"


def node_lookup_sites(ctx, v):
    """(func, loop, subscript) for every `MAP[x]` whose key x is the variable of a loop over the requested nodes,
    in view.run and the helpers it calls."""
    repo = ctx.repo
    funcs = [v.run]
    for c in walk_own(v.run.node):
        if isinstance(c, ast.Call):
            h = repo.resolve_call(v.run, c)
            if h is not None and h.module is v.mod and h not in funcs:
                funcs.append(h)
    sites = []
    for f in funcs:
        for l in walk_own(f.node):
            if isinstance(l, ast.For) and isinstance(l.target, ast.Name) and (isinstance(l.iter, ast.Name) or (isinstance(l.iter, ast.Subscript) and norm(l.iter).endswith("[1:]"))) and "node" in norm(l.iter):
                for sub in ast.walk(l):
                    if isinstance(sub, ast.Subscript) and isinstance(sub.ctx, ast.Load) and isinstance(sub.slice, ast.Name) and sub.slice.id == l.target.id and not (isinstance(sub.value, ast.Name) and sub.value.id == l.target.id):
                        sites.append((f, l, sub))
        # lookups with a constant position of the node list (nodes[0]) are per-node lookups outside a loop
        for sub in walk_own(f.node):
            if isinstance(sub, ast.Subscript) and isinstance(sub.ctx, ast.Load) and isinstance(sub.slice, ast.Subscript) and "node" in norm(sub.slice.value) and isinstance(const_value(sub.slice.slice), int):
                sites.append((f, None, sub))
    return sites


def r04_123(ctx, v):
    run = v.run
    off = v.offsets
    first_emit = min(v.emit_loops, key=lambda l: l.lineno)
    blk = v.block
    end = len(blk)
    for i, st in enumerate(blk):
        if any(x is l for l in v.emit_loops for x in ast.walk(st)):
            end = i
            break
    region = blk[:end]
    paths = enum_paths(region, expand_loop=lambda n: True, rule="R04.1", where=run.where(region[0]) if region else run.where())
    bad1 = bad2 = None
    n = 0
    for p in paths:
        if p.term in ("raise", "exit"):
            continue
        n += 1
        k = Kinds(ctx, run)
        for e in p.events:
            if e.kind == "stmt":
                k.stmt(e.node)
        kind = k.env.get(off)
        if kind not in ("sorted", "set", "uniq-list") and bad1 is None:
            bad1 = (p, f"the offsets reach the printing loops as `{kind}`: an offset stored once per visit of a node (or once per requested node) can be printed more than once")
        if kind not in ("sorted", "sorted-dups") and bad2 is None:
            bad2 = (p, f"the offsets reach the printing loops as `{kind}`: not in ascending (file) order after the last mutation")
    ctx.check(bad1 is None, "R04.1", run.where(first_emit), "on every path the offsets to print form a duplicate-free collection (set union over the requested nodes)", key_of(run, f"dedupe:{bad1[1] if bad1 else ''}"), paths=n, **({"path": bad1[0].show(), "why": bad1[1]} if bad1 else {}))
    ctx.check(bad2 is None, "R04.2", run.where(first_emit), "on every path the offsets are sorted after their last mutation and before the records are printed (file order)", key_of(run, f"sorted:{bad2[1] if bad2 else ''}"), paths=n, **({"path": bad2[0].show(), "why": bad2[1]} if bad2 else {}))
    # R04.3 guarded lookups
    sites = node_lookup_sites(ctx, v)
    for f, l, sub in sites:
        ok, why = guarded_lookup(f, l, sub)
        ctx.check(ok, "R04.3", f.where(sub), f"the lookup `{norm(sub)}` of a user-supplied node is guarded for that node alone (a node without alignments contributes nothing and the other nodes are still looked up)", key_of(f, f"lookup:{norm(sub)}:{why}"), why=why)
        if l is not None:
            whole = isinstance(l.iter, ast.Name)
            if not whole and isinstance(l.iter, ast.Subscript) and norm(l.iter).endswith("[1:]"):
                base = norm(l.iter.value)
                whole = any(norm(s2.slice) == f"{base}[0]" for _, l2, s2 in sites if l2 is None)
            ok2 = whole and not [s_ for s_ in walk_stmts(l.body) if isinstance(s_, ast.Break)]
            ctx.check(ok2, "R04.3", f.where(l), "every requested node is looked up (the node loop runs over the whole list, no break)", key_of(f, f"node-loop:{norm(l.iter)}"), iter=norm(l.iter))
    ctx.require_count("R04.3", len(sites), 1, run.where(), "index lookups keyed by a requested node")


def guarded_lookup(f, loop, sub):
    key = norm(sub.slice)
    mapping = norm(sub.value)
    st = sub_stmt(f, sub)
    g = guards_of(f.node, st)
    for t, pol in g:
        s, sp = canon_test(t, pol)
        if s in (f"{key} in {mapping}", f"{key} in {mapping}.keys()") and sp:
            return True, "membership test"
    for t in walk_own(f.node):
        if isinstance(t, ast.Try) and any(x is sub for b in t.body for x in ast.walk(b)):
            hs = [h for h in t.handlers if h.type is None or "KeyError" in norm(h.type) or norm(h.type) in ("Exception", "LookupError")]
            if not hs:
                continue
            loops_inside_try = [l for b in t.body for l in ast.walk(b) if isinstance(l, ast.For) and any(x is sub for x in ast.walk(l))]
            if loops_inside_try:
                return False, "the KeyError handler encloses the whole node loop: the first node without alignments ends the collection"
            if any(isinstance(x, (ast.Break, ast.Return, ast.Raise)) for h in hs for x in ast.walk(h)):
                return False, "the KeyError handler leaves the node loop"
            return True, "try/except KeyError per node"
    return False, "no guard: KeyError for a node that has no alignments"


def sub_stmt(f, sub):
    best = None
    for st in walk_stmts(f.node.body):
        if any(x is sub for x in ast.walk(st)) and not isinstance(st, (ast.For, ast.While, ast.If, ast.Try, ast.With)):
            best = st
    return best


def r04_4(ctx, v):
    run = v.run
    off = v.offsets
    raises = [st for st in walk_stmts(v.block) if isinstance(st, ast.Raise) and "CommandLineError" in norm(st)]
    ok = False
    for r in raises:
        g = guards_of(ast.Module(body=v.block, type_ignores=[]), r)
        for t, pol in g:
            s, sp = canon_test(t, pol)
            if (s in (f"len({off}) == 0", f"{off} == []") and sp) or (s == off and not sp) or (s in (f"len({off}) > 0", f"len({off})") and not sp):
                # must precede the emission loops
                first_emit = min(v.emit_loops, key=lambda l: run.pos(l))
                if run.before(r, first_emit):
                    ok = True
    ctx.check(ok, "R04.4", run.where(), "when no offsets were found a CommandLineError is raised before anything is printed", key_of(run, "empty-report"))
    # the caller turns CommandLineError into a non-zero exit
    main = ctx.repo.find_func("gaftools.__main__", "main")
    if main is not None:
        hs = [h for t in walk_own(main.node) if isinstance(t, ast.Try) for h in t.handlers if h.type is not None and "CommandLineError" in norm(h.type)]
        ok2 = bool(hs) and any(isinstance(x, ast.Call) and norm(x.func) == "sys.exit" and x.args and const_value(x.args[0], 0) not in (0, None) for h in hs for x in ast.walk(h))
        ctx.check(ok2, "R04.4", main.where(), "the command line driver reports CommandLineError and exits non-zero", key_of(main, "cli-error-exit"))


def r04_5(ctx, v):
    repo = ctx.repo
    run = v.run
    conv = repo.module("gaftools.conversion", "R04.5")
    gens = [f for f in conv.funcs.values() if any(isinstance(n, (ast.Yield, ast.YieldFrom)) for n in walk_own(f.node))]
    n = 0
    from ..core import same_func, tail_inlined

    public = [g for g in gens if any(cf.module is not conv for cf, _ in repo.callers_of(g))]
    for g0 in public or gens:
        g = tail_inlined(repo, g0)  # `yield from helper(path, converter, *aux)` is read with the helper inlined
        ys = [x for x in walk_own(g.node) if isinstance(x, ast.Yield) and isinstance(x.value, ast.Call)]
        if not ys:
            continue
        inner = ys[0].value
        line_conv = repo.resolve_call(g, inner)
        if line_conv is None:
            continue
        # generator forwards its parameters positionally unchanged
        fwd = [norm(a) for a in inner.args[1:]]
        ok_fwd = fwd == g.params[1:]
        if not ok_fwd:
            # optional trailing parameters (with defaults, on both sides) that no caller uses: compare the required ones,
            # and accept an extra argument only when it is a literal or a local that is only ever bound to literals
            a_ = line_conv.node.args
            n_req = len(a_.posonlyargs + a_.args) - len(a_.defaults) - 1 - (1 if line_conv.params and line_conv.params[0] == "self" else 0)
            extra = inner.args[1 + n_req :]

            def _lit(e_):
                if isinstance(e_, ast.Constant):
                    return True
                if isinstance(e_, ast.Name) and e_.id not in g.params:
                    ds_ = [st_.value for st_ in walk_own(g.node) if isinstance(st_, ast.Assign) and len(st_.targets) == 1 and norm(st_.targets[0]) == e_.id]
                    return bool(ds_) and all(isinstance(d_, ast.Constant) for d_ in ds_)
                return False

            ga_ = g.node.args
            g_req = len(ga_.posonlyargs + ga_.args) - len(ga_.defaults) - 1
            if n_req >= 1 and fwd[:n_req] == g.params[1 : 1 + n_req] and g_req == n_req and all(_lit(e_) for e_ in extra):
                ok_fwd = True
        ctx.check(ok_fwd, "R04.5", g.where(ys[0]), f"{g.qualname} forwards its auxiliary arguments to {line_conv.qualname} unchanged and in order", key_of(g, f"forward:{fwd}"), forwarded=fwd, params=g.params[1:])
        gen_calls = [c for c in walk_own(run.node) if isinstance(c, ast.Call) and same_func(repo.resolve_call(run, c), g)]
        line_calls = [c for c in walk_own(run.node) if isinstance(c, ast.Call) and repo.resolve_call(run, c) is line_conv]
        if not gen_calls or not line_calls:
            as_values = [x for x in walk_own(run.node) if isinstance(x, (ast.Name, ast.Attribute)) and isinstance(x.ctx, ast.Load) and norm(x).split(".")[-1] in (g.name, line_conv.name) and not any(isinstance(c, ast.Call) and c.func is x for c in walk_own(run.node))]
            nested = [x for x in ast.walk(run.node) if isinstance(x, (ast.Name, ast.Attribute)) and norm(x).split(".")[-1] in (g.name, line_conv.name)]
            if not as_values and len(nested) >= 2 and any(isinstance(d_, (ast.FunctionDef, ast.Lambda)) for d_ in ast.walk(run.node) if d_ is not run.node):
                raise AnalysisError("R04.5", run.where(), "view calls its converters from nested functions / generators chosen once before the loops: which route each branch takes is not followed by this rule")
            if as_values:
                raise AnalysisError("R04.5", run.where(as_values[0]), f"view picks its converter as a value (`{norm(as_values[0])}` bound to a local and called later): which route each branch takes is not followed by this rule")
            ctx.violated("R04.5", run.where(), f"view does not offer both routes (whole file / selection) for {line_conv.qualname}", key_of(run, f"routes:{line_conv.qualname}"))
            continue
        for lc in line_calls:
            n += 1
            a = [norm(x) for x in lc.args[1:]] + [f"{k.arg}={norm(k.value)}" for k in lc.keywords]
            b = [norm(x) for x in gen_calls[0].args[1:]] + [f"{k.arg}={norm(k.value)}" for k in gen_calls[0].keywords]
            ctx.check(a == b, "R04.5", run.where(lc), f"the selection route calls {line_conv.qualname} with the same auxiliary objects as the whole-file route", key_of(run, f"aux-args:{line_conv.qualname}:{a}"), selection=a, whole_file=b)
            # the record converted is the record read at this offset
            loop = next((l for l in v.emit_loops if any(x is lc for x in ast.walk(l))), None)
            if loop is not None:
                rd = [st for st in loop.body if isinstance(st, ast.Assign) and isinstance(st.value, ast.Call) and isinstance(st.value.func, ast.Attribute) and st.value.func.attr == "read_line"]
                ok = len(rd) == 1 and norm(rd[0].targets[0]) == norm(lc.args[0])
                ctx.check(ok, "R04.5", run.where(lc), "the record converted is the one read at the current offset", key_of(run, f"converted-record:{norm(lc.args[0])}"))
    ctx.require_count("R04.5", n, 2, run.where(), "line-converter calls in the selection branch")
    # the format test that picks the converter is the same on both routes
    tests = [norm(t.test) for t in walk_own(run.node) if isinstance(t, ast.If) and "format ==" in norm(t.test)]
    ctx.check(len(set(tests)) == 1 and len(tests) >= 3, "R04.5", run.where(), "both routes choose the converter by the same format test", key_of(run, f"format-tests:{sorted(set(tests))}"), tests=tests)


def r04_6(ctx, v):
    run = v.run
    # the no-format emission loop prints the record object itself
    plain = []
    for l in v.emit_loops:
        calls = [c for c in ast.walk(l) if isinstance(c, ast.Call) and isinstance(c.func, ast.Name) and c.func.id == "print"]
        rd = [st for st in l.body if isinstance(st, ast.Assign) and isinstance(st.value, ast.Call) and isinstance(st.value.func, ast.Attribute) and st.value.func.attr == "read_line"]
        if calls and rd and norm(calls[0].args[0]) == norm(rd[0].targets[0]):
            plain.append((l, calls[0]))
    ctx.check(len(plain) == 1, "R04.6", run.where(), "without --format the selected record is printed through its own serialiser (print(record))", key_of(run, f"plain-print:{len(plain)}"))
    # all emission loops print to the same writer
    writers = set()
    for l in v.emit_loops:
        for c in ast.walk(l):
            if isinstance(c, ast.Call) and isinstance(c.func, ast.Name) and c.func.id == "print":
                writers |= {norm(k.value) for k in c.keywords if k.arg == "file"}
    ctx.check(len(writers) == 1, "R04.6", run.where(), "every selected record goes to the one output writer", key_of(run, f"writers:{sorted(writers)}"))
    schema, extras = gaf_schema(ctx.repo, "R04.6")
    c16.r16_7(ctx, schema, extras)
    # whole-file route without format: prints each raw line once (R02.1 decides the count); content = decoded, right-stripped line
    raw = [n for n in walk_own(run.node) if isinstance(n, ast.For) and norm(n.iter).endswith(".file")]
    if raw:
        ok = all(norm(c.args[0]) in (f"{norm(raw[0].target)}.rstrip()", f"{norm(raw[0].target)}.decode('utf-8').rstrip()") for c in ast.walk(raw[0]) if isinstance(c, ast.Call) and isinstance(c.func, ast.Name) and c.func.id == "print")
        ctx.check(ok, "R04.6", run.where(raw[0]), "without selection and format the input lines are reproduced (decoded, right-stripped)", key_of(run, "pass-through"))


def r04_7(ctx, v):
    """The map from a requested node id to its index key is keyed by position 0 of the key (the node id) and maps to the
    whole key; the offsets are then read from the index under that key."""
    repo = ctx.repo
    found = []
    funcs = [v.run] + [h for c in walk_own(v.run.node) if isinstance(c, ast.Call) for h in [repo.resolve_call(v.run, c)] if h is not None and h.module is v.mod]
    for f in funcs:
        for n in walk_own(f.node):
            if isinstance(n, ast.Assign) and isinstance(n.targets[0], ast.Subscript) and isinstance(n.targets[0].slice, ast.Subscript) and isinstance(n.value, ast.Name) and norm(n.targets[0].slice.value) == n.value.id:
                found.append((f, n, const_value(n.targets[0].slice.slice)))
            if isinstance(n, ast.DictComp) and len(n.generators) == 1 and isinstance(n.key, ast.Subscript) and norm(n.key.value) == norm(n.generators[0].target) and norm(n.value) == norm(n.generators[0].target):
                found.append((f, n, const_value(n.key.slice)))
    ctx.require_count("R04.7", len(found), 1, v.run.where(), "construction of the node id -> index key map")
    for f, n, pos in found:
        ctx.check(pos == 0, "R04.7", f.where(n), "the node-id map is keyed by position 0 of the index key (the node id)", key_of(f, f"id-map-key:{pos}"), position=pos)
