"""C06 — order_gfa assigns BO/NO tags that encode the bubble chain.

R06.1  NO numbering: position (+1) in sorted(ids of the bubble); scaffold NO = 0; one BO per bubble
R06.2  BO strictly increases per chain element: the counter advances by one exactly once per
       element of the ordered traversal, after its uses, never inside the per-bubble loop
R06.3  orientation by reference offset: the traversal is reversed exactly when first > last
R06.4  disjoint ranges in requested order: the value returned is the next free BO and it is what
       the chromosome loop passes on; the loop iterates the requested order itself
R06.5  no dependence on earlier BO/NO tags in the ordering closure
R06.6  no dependence on line order while loading: links are resolved after all segments are read
"""

from __future__ import annotations

import ast

from ..core import AnalysisError, const_value, norm, walk_own, walk_stmts, names_in
from ..paths import enum_paths
from .. import ordtab
from . import ordergfa_common as oc
from .common import key_of

META = {
    "explanation": "Static decision of the BO/NO numbering discipline of gaftools order_gfa: the loop that walks the ordered scaffold traversal is "
    "analysed path by path (the BO counter advances by a constant +1 exactly once per chain element, after the assignments that use it, and "
    "not inside the per-bubble loop; all nodes of a bubble read the same counter; NO = 1 + position in sorted(node ids) without key/reverse; "
    "scaffold NO = 0), the orientation block's decision table over (first, last) reference offsets is computed (reversed exactly when first > "
    "last), the counter returned is shown to be the next free BO under both the explicit-counter and the enumerate idiom and to be threaded "
    "through the chromosome loop, which iterates the requested order itself; no function in the ordering closure reads BO/NO tags; the GFA "
    "reader resolves links only after every S line has been read (independence from line order).  The graph-theoretic exactness of "
    "biccs/dfs is not decided here (C15).",
    "technique": "static analysis: loop-iteration path enumeration, counter typestate, order-type decision table, who-may-read closure scan",
}


def check(ctx):
    m = oc.build(ctx, "R06")
    dec = m.dec
    info = numbering_loop(ctx, m)
    ctx.run(r06_1, m, info)
    ctx.run(r06_2_4, m, info)
    ctx.run(r06_3, m, info)
    ctx.run(r06_4_caller, m)
    ctx.run(r06_5, m)
    ctx.run(r06_6)
    ctx.run(r06_7, m)
    ctx.run(r06_8, m)
    ctx.run(r06_9, m)
    ctx.run(r06_10, m)
    ctx.run(r06_11, m)
    ctx.not_decided += [
        "that articulation points / biconnected components / the DFS order are the true ones on every graph (C15)",
        "independence from set/dict iteration order inside biccs (hash randomisation) beyond the orientation fix-up",
    ]
    # the decomposition itself: the structural rules of biccs (edge-stack discipline, cut criterion, low-link updates) are C15's
    from . import c15 as _c15
    from . import gfa_common as _gc

    _g = _gc.build(ctx, "R15.5")
    ctx.run_shared(_c15.r15_5, _g)
    ctx.run_shared(_c15.r15_6, _g)
    ctx.run_shared(_c15.r15_10, _g)
    ctx.run_shared(_c15.r15_11, _g)
    # mechanisms this property rests on (see shared.py): a change there is reported here as well
    from . import shared as _sh

    ctx.run_shared(_sh.graph_loader)
    ctx.run_shared(_sh.cli_layer, "gaftools.cli.order_gfa")


def numbering_loop(ctx, m):
    """The loop over the ordered traversal that fills the (BO, NO) mapping."""
    dec = m.dec
    ok_ret = [r for r in m.ok_returns if not any(isinstance(x, ast.Constant) and x.value is None for x in r.value.elts)]
    proto = oc.counter_protocol(m)
    if proto is None:
        raise AnalysisError("R06.4", m.run.where(m.call_stmt), "cannot identify the loop-carried BO counter")
    pos = proto[1]
    # mapping variable: the dict whose items are 2-tuples stored in loops
    cands = []
    for loop in [n for n in dec.node.body if isinstance(n, ast.For)]:
        stores = [st for st in walk_stmts(loop.body) if isinstance(st, ast.Assign) and isinstance(st.targets[0], ast.Subscript) and isinstance(st.value, ast.Tuple) and len(st.value.elts) == 2]
        if stores:
            cands.append((loop, stores))
    if not cands:
        raise AnalysisError("R06.2", dec.where(), "cannot find the loop that assigns (BO, NO) pairs")
    loop, stores = cands[-1]
    return {"loop": loop, "stores": stores, "pos": pos, "proto": proto}


def r06_1(ctx, m, info):
    dec = m.dec
    loop = info["loop"]
    scaffold_store = None
    bubble_store = None
    for st in info["stores"]:
        inner = None
        for n in ast.walk(loop):
            if isinstance(n, ast.For) and n is not loop and any(x is st for x in ast.walk(n)):
                inner = n
        if inner is None:
            scaffold_store = st
        else:
            bubble_store = (st, inner)
    if scaffold_store is None or bubble_store is None:
        raise AnalysisError("R06.1", dec.where(loop), "expected one store for scaffold nodes and one inside a per-bubble loop")
    no_s = scaffold_store.value.elts[1]
    ctx.check(const_value(no_s, "?") == 0, "R06.1", dec.where(scaffold_store), "scaffold nodes receive NO = 0", key_of(dec, f"scaffold-NO:{norm(no_s)}"), found=norm(no_s))
    key_s = scaffold_store.targets[0].slice
    ctx.check(norm(key_s) == norm(loop.target) or (isinstance(loop.target, ast.Tuple) and norm(key_s) in [norm(e) for e in loop.target.elts]), "R06.1", dec.where(scaffold_store), "the scaffold store is keyed by the traversal element itself", key_of(dec, f"scaffold-key:{norm(key_s)}"))
    st, inner = bubble_store
    it = inner.iter
    ok_enum = isinstance(it, ast.Call) and isinstance(it.func, ast.Name) and it.func.id == "enumerate" and it.args
    start = 0
    srt = None
    if ok_enum:
        if len(it.args) > 1:
            start = const_value(it.args[1], "?")
        for k in it.keywords:
            if k.arg == "start":
                start = const_value(k.value, "?")
        srt = it.args[0]
        if isinstance(srt, ast.Name):
            from ..core import reaching_def

            d_ = reaching_def(dec.node, inner, srt.id)
            if d_ is None:
                raise AnalysisError("R06.1", dec.where(inner), f"cannot find the definition of the enumerated list `{srt.id}`")
            srt = d_
            # sorted in place after it was bound: `members = list(...); [if len(members) > 1:] members.sort()`
            name_ = it.args[0].id
            sorts_ = [c_ for c_ in walk_own(dec.node) if isinstance(c_, ast.Call) and isinstance(c_.func, ast.Attribute) and c_.func.attr == "sort" and norm(c_.func.value) == name_ and dec.before(c_, inner)]
            if sorts_ and not (isinstance(srt, ast.Call) and norm(srt.func) == "sorted"):
                if all(not c_.args and not c_.keywords for c_ in sorts_) and isinstance(srt, ast.Call) and norm(srt.func) in ("list", "sorted") and len(srt.args) == 1:
                    srt = ast.Call(func=ast.Name(id="sorted", ctx=ast.Load()), args=list(srt.args), keywords=[])
                else:
                    raise AnalysisError("R06.1", dec.where(inner), f"the enumerated list `{name_}` is sorted in place in a way this rule does not read")
    ok_sorted = ok_enum and isinstance(srt, ast.Call) and isinstance(srt.func, ast.Name) and srt.func.id == "sorted" and len(srt.args) == 1 and not srt.keywords
    ctx.check(bool(ok_sorted), "R06.1", dec.where(inner), "bubble nodes are enumerated in sorted() order of their ids (no key=, no reverse=: lexicographic)", key_of(dec, f"bubble-order:{norm(it)}"), iter=norm(it))
    if ok_enum and isinstance(inner.target, ast.Tuple) and len(inner.target.elts) == 2:
        ivar, nvar = [norm(e) for e in inner.target.elts]
        no_b = st.value.elts[1]
        src = norm(no_b)
        if start == 0:
            ok = src in (f"{ivar} + 1", f"1 + {ivar}")
        elif start == 1:
            ok = src == ivar
        else:
            ok = False
        ctx.check(ok, "R06.1", dec.where(st), "inner nodes are numbered NO = 1..M (enumerate index + 1, or enumerate(..., 1))", key_of(dec, f"bubble-NO:{src}:start={start}"), expr=src, start=start)
        ctx.check(norm(st.targets[0].slice) == nvar, "R06.1", dec.where(st), "the bubble store is keyed by the enumerated node id", key_of(dec, f"bubble-key:{norm(st.targets[0].slice)}"))
    else:
        ctx.violated("R06.1", dec.where(inner), "per-bubble loop is not `for i, n in enumerate(sorted(...))`", key_of(dec, f"bubble-loop:{norm(it)}"))
    # same BO expression for scaffold and bubble stores, and the bubble's node set is the set indexed by this traversal element
    bo_s = norm(scaffold_store.value.elts[0])
    bo_b = norm(st.value.elts[0])
    ctx.check(bo_s == bo_b, "R06.1", dec.where(st), "scaffold nodes and bubble nodes read the same running BO variable", key_of(dec, f"BO-var:{bo_s}/{bo_b}"), scaffold=bo_s, bubble=bo_b)
    info["bo_var"] = bo_s
    info["inner"] = inner
    if ok_sorted:
        arg = norm(srt.args[0])
        tv = norm(loop.target) if not isinstance(loop.target, ast.Tuple) else norm(loop.target.elts[-1])
        if tv not in arg:
            # the index may be held in a temporary of the loop body (`k = int(node.split(" ")[1]); ... bubbles[k]`)
            from ..core import make_resolver as _mr

            arg = norm(_mr(loop.body)(srt.args[0]))
        ctx.check(tv in arg, "R06.1", dec.where(inner), "the bubble enumerated is the one indexed by the current traversal element", key_of(dec, f"bubble-set:{arg}"), expr=arg)


def r06_2_4(ctx, m, info):
    dec = m.dec
    loop = info["loop"]
    bo = info.get("bo_var")
    if bo is None:
        return
    pos = info["pos"]
    kind = info["proto"][0]
    param = info["proto"][3]
    ok_returns = [r for r in m.returns if r not in m.fail_returns]
    final = [r for r in ok_returns if any(r is st for st in dec.node.body)]
    enum_idiom = isinstance(loop.iter, ast.Call) and isinstance(loop.iter.func, ast.Name) and loop.iter.func.id == "enumerate" and isinstance(loop.target, ast.Tuple) and norm(loop.target.elts[0]) == bo
    if enum_idiom:
        start = None
        if len(loop.iter.args) > 1:
            start = norm(loop.iter.args[1])
        for k in loop.iter.keywords:
            if k.arg == "start":
                start = norm(k.value)
        ctx.check(start == param, "R06.2", dec.where(loop), f"BO numbering starts at the incoming counter `{param}`", key_of(dec, f"enumerate-start:{start}"), start=start)
        incs = [st for st in walk_stmts(loop.body) if isinstance(st, (ast.Assign, ast.AugAssign)) and bo in {norm(t) for t in (st.targets if isinstance(st, ast.Assign) else [st.target])}]
        ctx.check(not incs, "R06.2", dec.where(loop), "the enumerate index is not modified inside the loop (one BO per chain element, strictly increasing)", key_of(dec, "enumerate-index-modified"))
        seq = norm(loop.iter.args[0])
        for r in final:
            src = norm(r.value.elts[pos])
            if kind == "assign":
                good = {f"{bo} + 1", f"1 + {bo}", f"{param} + len({seq})", f"len({seq}) + {param}"}
            else:
                good = {f"len({seq})", f"{bo} + 1 - {param}", f"{bo} - {param} + 1"}
            ctx.check(src in good, "R06.4", dec.where(r), "the value handed to the next chromosome is the next free BO (last used + 1), so ranges are disjoint", key_of(dec, f"return-counter:{src}"), returned=src, accepted=sorted(good))
        return
    # explicit counter idiom: bo = <param> before the loop; one `bo += 1` per iteration
    inits = [st for st in dec.node.body if isinstance(st, ast.Assign) and norm(st.targets[0]) == bo]
    init_ok = len(inits) == 1 and norm(inits[0].value) == param and dec.node.body.index(inits[0]) < dec.node.body.index(loop)
    between = []
    if inits:
        i0, i1 = dec.node.body.index(inits[0]), dec.node.body.index(loop)
        between = [st for st in walk_stmts(dec.node.body[i0 + 1 : i1]) if isinstance(st, (ast.Assign, ast.AugAssign)) and bo in {norm(t) for t in (st.targets if isinstance(st, ast.Assign) else [st.target])}]
    ctx.check(init_ok and not between, "R06.2", dec.where(loop), f"BO numbering starts at the incoming counter `{param}`", key_of(dec, f"counter-init:{[norm(s) for s in inits]}"))
    inner = info["inner"]
    paths = enum_paths(loop.body, expand_loop=lambda n: n is inner, rule="R06.2", where=dec.where(loop))
    bad = None
    modes = set()
    for p in paths:
        if p.term not in ("fall", "continue"):
            continue
        incs = [i for i, e in enumerate(p.events) if e.kind == "stmt" and isinstance(e.node, ast.AugAssign) and norm(e.node.target) == bo]
        sets = [i for i, e in enumerate(p.events) if e.kind == "stmt" and isinstance(e.node, ast.Assign) and bo in {norm(t) for t in e.node.targets}]
        uses = [i for i, e in enumerate(p.events) if e.kind == "stmt" and any(e.node is s for s in info["stores"])]
        if sets:
            bad = (p, "BO counter reassigned inside the traversal loop")
        elif len(incs) != 1:
            bad = (p, f"BO counter advanced {len(incs)} times for one chain element")
        else:
            e = p.events[incs[0]].node
            if not (isinstance(e.op, ast.Add) and isinstance(const_value(e.value), int) and const_value(e.value) >= 1):
                bad = (p, f"BO step is `{norm(e)}`, not a positive constant")
            elif uses and incs[0] < min(uses):
                modes.add("pre")  # `bo += 1` first, then the element is numbered: the counter means "last index used"
            elif uses and incs[0] < max(uses):
                bad = (p, "BO counter advanced between the nodes of one element (they get different BO)")
            elif uses:
                modes.add("post")
            elif any(x is e for x in ast.walk(inner)):
                bad = (p, "BO counter advanced inside the per-bubble loop (nodes of one bubble get different BO)")
        if bad:
            break
    if bad is None and modes == {"pre", "post"}:
        bad = (paths[0], "the BO counter is advanced before the element is numbered on some paths and after it on others")
    pre = modes == {"pre"}  # convention "last used": numbering starts at incoming + 1 and the counter handed on is the last index used
    info["bo_convention"] = "last-used" if pre else "next-free"
    ctx.check(bad is None, "R06.2", dec.where(loop), "on every path through one chain element the BO counter advances by a positive constant exactly once, " + ("before" if pre else "after") + " its uses and outside the per-bubble loop", key_of(dec, f"bo-step:{bad[1] if bad else ''}"), paths=len(paths), **({"path": bad[0].show(), "why": bad[1]} if bad else {}))
    inc_in_inner = [st for st in walk_stmts(inner.body) if isinstance(st, ast.AugAssign) and norm(st.target) == bo]
    ctx.check(not inc_in_inner, "R06.2", dec.where(inner), "no BO increment inside the per-bubble loop", key_of(dec, "bo-inc-in-bubble-loop"))
    # the loop iterates the whole traversal, unfiltered
    from ..core import own_loop_jumps

    skip = own_loop_jumps(loop.body)
    ctx.check(not skip, "R06.2", dec.where(loop), "no chain element is skipped (no continue/break in the traversal loop)", key_of(dec, "traversal-skip"))
    for r in final:
        src = norm(r.value.elts[pos])
        good = {bo} if kind == "assign" else {f"{bo} - {param}"}
        # nothing modifies the counter between the loop and the return
        i1 = dec.node.body.index(loop)
        after_mod = [st for st in walk_stmts(dec.node.body[i1 + 1 :]) if isinstance(st, (ast.Assign, ast.AugAssign)) and bo in {norm(t) for t in (st.targets if isinstance(st, ast.Assign) else [st.target])}]
        ctx.check(src in good and not after_mod, "R06.4", dec.where(r), "the value handed to the next chromosome is the counter after the last chain element (next free BO)", key_of(dec, f"return-counter:{src}"), returned=src)
    # single-node component
    early = [r for r in ok_returns if r not in final]
    for r in early:
        src = norm(r.value.elts[pos])
        good = {f"{param} + 1", f"1 + {param}"} if kind == "assign" else {"1"}
        if src not in good:
            # the value as an affine form of the incoming counter, through the straight-line statements before the return
            from ..affine import AffEval

            blk = None
            for own in ast.walk(dec.node):
                for fld in ("body", "orelse"):
                    lst = getattr(own, fld, None)
                    if isinstance(lst, list) and any(x is r for x in lst):
                        blk = lst[: lst.index(r)]
            if blk is not None and all(isinstance(x, (ast.Assign, ast.AugAssign, ast.Expr)) for x in blk):
                ev_ = AffEval()
                for x in blk:
                    ev_.assign(x)
                got = ev_.of(r.value.elts[pos])
                want_ = ev_.of(ast.parse(sorted(good)[0], mode="eval").body) if kind == "assign" else None
                if kind == "assign" and got.t == {param: 1} and got.c == 1:
                    src = f"{param} + 1"
                elif kind != "assign" and not got.t and got.c == 1:
                    src = "1"
        ctx.check(src in good, "R06.4", dec.where(r), "a single-node component uses exactly one BO index", key_of(dec, f"single-node-return:{src}"), returned=src)
        # its node gets (param, 0)
        d = r.value.elts[2] if len(r.value.elts) > 2 else None
        if isinstance(d, ast.Dict) and d.values and isinstance(d.values[0], ast.Tuple):
            v = d.values[0]
            want_bo = (f"{param} + 1", f"1 + {param}") if pre and kind == "assign" else (param,)
            ctx.check(norm(v.elts[0]) in want_bo and const_value(v.elts[1], "?") == 0, "R06.4", dec.where(r), "the single node is tagged (incoming BO, NO 0)" if not pre else "the single node is tagged (last used BO + 1, NO 0)", key_of(dec, f"single-node-tags:{norm(v)}"), tags=norm(v))


def r06_3(ctx, m, info):
    dec = m.dec
    loop = info["loop"]
    trav = norm(loop.iter.args[0]) if isinstance(loop.iter, ast.Call) and norm(loop.iter.func) == "enumerate" else norm(loop.iter)
    block = None
    for st in dec.node.body:
        if isinstance(st, ast.If) and any(isinstance(c, ast.Call) and isinstance(c.func, ast.Attribute) and c.func.attr == "reverse" and norm(c.func.value) == trav for c in ast.walk(st)):
            block = st
    if block is None and any(isinstance(a, ast.Assign) and norm(a.targets[0]) == trav and (norm(a.value) in (f"{trav}[::-1]", f"list(reversed({trav}))")) for a in walk_own(dec.node)):
        raise AnalysisError("R06.3", dec.where(loop), f"the traversal `{trav}` is re-oriented by rebinding it to a reversed copy: that spelling is not read by this rule")
    if block is None:
        # reversed(...) idiom is not recognised
        ctx.violated("R06.3", dec.where(loop), f"the traversal `{trav}` is never re-oriented by reference offset before numbering", key_of(dec, "no-orientation-block"))
        return
    # decision table of the test over (first, last)
    test = block.test
    coords = None

    def atom_of(e):
        nonlocal coords
        if isinstance(e, ast.Subscript) and isinstance(e.value, ast.Name):
            c = const_value(e.slice, "?")
            if c == 0:
                coords = e.value.id
                return "first"
            if c == -1:
                coords = e.value.id
                return "last"
        return None

    rows = []
    bad = None
    try:
        for env, scale in ordtab.weak_orderings(["first", "last"], []):
            v = ordtab.Evaluator(env, atom_of, scale).truth(test)
            rows.append((env, v))
            rev_in_body = True
            want = env["first"] > env["last"]
            if v != want and env["first"] != env["last"]:
                bad = {"first": env["first"], "last": env["last"], "reversed": v}
    except ordtab.Unsupported as e:
        raise AnalysisError("R06.3", dec.where(block), f"orientation test outside the comparison fragment: {e}")
    in_body = any(isinstance(c, ast.Call) and isinstance(c.func, ast.Attribute) and c.func.attr == "reverse" and norm(c.func.value) == trav for st in block.body for c in ast.walk(st))
    ctx.check(bad is None and in_body and not block.orelse, "R06.3", dec.where(block), "the traversal is reversed exactly when the first scaffold offset is greater than the last (so BO ascends with the reference)", key_of(dec, f"orientation:{norm(test)}"), rows=len(rows), **({"witness": bad} if bad else {}))
    # the coordinates come from the SO tags of the scaffold elements of this very traversal
    if coords:
        defs = [st for st in dec.node.body if isinstance(st, ast.Assign) and norm(st.targets[0]) == coords]
        ok = len(defs) == 1 and "tags['SO']" in norm(defs[0].value) and "int(" in norm(defs[0].value)
        ctx.check(ok, "R06.3", dec.where(block), "the offsets compared are the integer SO tags of the scaffold nodes", key_of(dec, f"coords-def:{[norm(d.value) for d in defs]}"))
        if ok:
            # derived from the traversal that is numbered
            src_names = names_in(defs[0].value)
            derived = False
            for nme in src_names:
                d2 = [st for st in dec.node.body if isinstance(st, ast.Assign) and norm(st.targets[0]) == nme]
                if any(trav in names_in(x.value) for x in d2):
                    derived = True
            ctx.check(derived or trav in src_names, "R06.3", dec.where(defs[0]), "the offsets are taken from the traversal that is numbered", key_of(dec, "coords-from-traversal"))
    # block precedes the numbering loop
    ctx.check(dec.node.body.index(block) < dec.node.body.index(loop), "R06.3", dec.where(block), "orientation is fixed before numbering", key_of(dec, "orientation-after-numbering"))
    # traversal starts at a degree-1 end and is the dfs of the scaffold graph
    tdefs = [st for st in dec.node.body if isinstance(st, ast.Assign) and norm(st.targets[0]) == trav]
    ctx.check(len(tdefs) == 1 and isinstance(tdefs[0].value, ast.Call) and norm(tdefs[0].value.func).endswith(".dfs"), "R06.3", dec.where(), "the traversal is the depth-first walk of the scaffold graph from one of its two ends", key_of(dec, f"traversal-def:{[norm(t.value) for t in tdefs]}"))


def r06_4_caller(ctx, m):
    run = m.run
    proto = oc.counter_protocol(m)
    if proto is None:
        raise AnalysisError("R06.4", run.where(m.loop), "cannot identify the loop-carried BO counter")
    kind, pos, counter, param = proto[:4]
    # loop iterates the requested order itself
    it = m.loop.iter
    ok_iter = isinstance(it, ast.Name)
    ctx.check(ok_iter, "R06.4", run.where(m.loop), "the chromosome loop iterates the requested order itself (not a set, sorted copy or reversed view)", key_of(run, f"loop-iter:{norm(it)}"), iter=norm(it))
    if ok_iter:
        # how is that name defined: from the user's option split on ',' or the default list
        defs = [st for st in walk_stmts(run.node.body) if isinstance(st, ast.Assign) and norm(st.targets[0]) == it.id]
        bad = [norm(d.value) for d in defs if isinstance(d.value, ast.Call) and norm(d.value.func) in ("sorted", "set", "reversed", "list") and d.value.args and isinstance(d.value.args[0], ast.Call) and norm(d.value.args[0].func) in ("sorted", "set", "reversed")]
        bad += [norm(d.value) for d in defs if isinstance(d.value, ast.Call) and norm(d.value.func) in ("sorted", "set", "reversed")]
        # a comprehension / filter that walks another collection and keeps the requested names: the order becomes that collection's
        for d in defs:
            v_ = d.value
            if isinstance(v_, (ast.ListComp, ast.GeneratorExp)) and len(v_.generators) == 1:
                g_ = v_.generators[0]
                src_names = {x.id for x in ast.walk(g_.iter) if isinstance(x, ast.Name)}
                if it.id not in src_names and any(isinstance(c_, ast.Compare) and isinstance(c_.ops[0], ast.In) and norm(c_.comparators[0]) == it.id for i_ in g_.ifs for c_ in ast.walk(i_)):
                    bad.append(norm(v_))
        ctx.check(not bad, "R06.4", run.where(m.loop), "the requested chromosome order is not re-sorted or de-duplicated", key_of(run, f"order-rewritten:{bad}"), found=bad)
    # counter initialised to a constant before the loop, and not otherwise written in the loop
    inits = [st for st in run.node.body if isinstance(st, ast.Assign) and norm(st.targets[0]) == counter]
    ctx.check(len(inits) == 1 and isinstance(const_value(inits[0].value, None), int), "R06.4", run.where(m.loop), "the running BO counter is initialised once before the chromosome loop", key_of(run, "counter-init"))
    # every binding of the counter name inside the loop: plain / tuple / augmented assignments, loop targets, with-as
    writes = []
    for st in walk_stmts(m.loop.body):
        if st is m.call_stmt:
            continue
        tgts = []
        if isinstance(st, ast.Assign):
            tgts = st.targets
        elif isinstance(st, (ast.AugAssign, ast.AnnAssign, ast.For)):
            tgts = [st.target]
        elif isinstance(st, ast.With):
            tgts = [i.optional_vars for i in st.items if i.optional_vars is not None]
        if any(isinstance(x, ast.Name) and x.id == counter and isinstance(x.ctx, ast.Store) for t in tgts for x in ast.walk(t)):
            writes.append(st)
    if kind == "add":
        writes = [w for w in writes if w is not proto[4]]
    ctx.check(not writes, "R06.4", run.where(m.loop), "inside the chromosome loop the counter is written only from the ordering function's result", key_of(run, f"counter-writes:{[norm(w)[:60] for w in writes]}"))
    # the tags stored are the pair computed by the ordering function for that node
    stores = [st for st in walk_stmts(m.success_body) if isinstance(st, ast.Assign) and isinstance(st.targets[0], ast.Subscript) and ".tags" in norm(st.targets[0])]
    by_key = {const_value(st.targets[0].slice): st for st in stores}
    if "BO" in by_key and "NO" in by_key:
        bo_src = norm(by_key["BO"].value.elts[1]) if isinstance(by_key["BO"].value, ast.Tuple) else norm(by_key["BO"].value)
        no_src = norm(by_key["NO"].value.elts[1]) if isinstance(by_key["NO"].value, ast.Tuple) else norm(by_key["NO"].value)
        unpack = [st for st in walk_stmts(m.success_body) if isinstance(st, ast.Assign) and isinstance(st.targets[0], ast.Tuple) and len(st.targets[0].elts) == 2 and isinstance(st.value, ast.Subscript)]
        ok = False
        if unpack:
            a, b = [norm(e) for e in unpack[0].targets[0].elts]
            ok = (bo_src, no_src) == (a, b) and norm(unpack[0].value.value) in m.targets
        ctx.check(ok, "R06.4", run.where(by_key["BO"]), "the BO and NO tags stored on a node are the first and second element of the pair computed for that node", key_of(run, f"tag-store:{bo_src},{no_src}"), BO=bo_src, NO=no_src)
        ityp = all(isinstance(by_key[k].value, ast.Tuple) and const_value(by_key[k].value.elts[0]) == "i" for k in ("BO", "NO"))
        ctx.check(ityp, "R06.4", run.where(by_key["BO"]), "BO and NO are stored as integer-typed tags", key_of(run, "tag-type"))
    else:
        raise AnalysisError("R06.4", run.where(m.success_if), "cannot find the BO/NO tag stores in the success branch")


def closure(repo, root, depth=3):
    seen = {root.qualname: root}
    frontier = [root]
    for _ in range(depth):
        nxt = []
        for f in frontier:
            for n in walk_own(f.node):
                if isinstance(n, ast.Call):
                    c = repo.resolve_call(f, n)
                    if c is not None and (c.module.name + "." + c.qualname) not in seen:
                        seen[c.module.name + "." + c.qualname] = c
                        nxt.append(c)
        frontier = nxt
    return list(seen.values())


def r06_5(ctx, m):
    repo = ctx.repo
    funcs = closure(repo, m.dec)
    # methods reached through attribute calls on graph objects (biccs, dfs, graph_from_comp, neighbors) are resolved by unique name
    readers = []
    for f in funcs:
        ctx.analysed_func(f)
        for n in walk_own(f.node):
            if isinstance(n, ast.Subscript) and isinstance(n.ctx, ast.Load) and const_value(n.slice) in ("BO", "NO") and "tags" in norm(n.value):
                readers.append((f, n))
            if isinstance(n, ast.Call) and isinstance(n.func, ast.Attribute) and n.func.attr in ("get", "pop", "setdefault") and "tags" in norm(n.func.value) and n.args and const_value(n.args[0]) in ("BO", "NO"):
                readers.append((f, n))
            if isinstance(n, ast.Compare) and const_value(n.left) in ("BO", "NO") and any("tags" in norm(c) for c in n.comparators):
                readers.append((f, n))
    ctx.check(not readers, "R06.5", m.dec.where(), f"no function in the ordering closure ({len(funcs)} functions) reads a BO or NO tag (earlier runs cannot influence the result)", key_of(m.dec, "reads-old-tags:" + ";".join(f"{f.qualname}:{norm(n)}" for f, n in readers)), closure=sorted(f.qualname for f in funcs), readers=[f"{f.qualname}: {norm(n)}" for f, n in readers])
    ctx.require_count("R06.5", len(funcs), 5, m.dec.where(), "functions in the ordering closure")
    # in the caller, both tags are stored unconditionally for every node of the component before the ordered write
    run = m.run
    node_loops = [n for n in m.success_body if isinstance(n, ast.For)]
    ok = False
    for nl in node_loops:
        stores = [st for st in nl.body if isinstance(st, ast.Assign) and isinstance(st.targets[0], ast.Subscript) and ".tags" in norm(st.targets[0]) and const_value(st.targets[0].slice) in ("BO", "NO")]
        if len(stores) == 2:
            comp = norm(nl.iter)
            ok = any(norm(a) in comp for a in [m.arg_of_param.get(m.dec.params[1])] if a is not None)
            wr = [st for st in m.success_body if isinstance(st, ast.Expr) and "write_gfa" in norm(st) and m.success_body.index(st) > m.success_body.index(nl)]
            ok = ok and bool(wr)
    if not ok:
        # the stores may sit deeper (inside a `with` around the CSV handle, in a helper): positive evidence of a violation is
        # a store of one of the tags under a condition of its own, or only one of the two tags stored
        deep = [st for st in walk_stmts(m.success_body) if isinstance(st, ast.Assign) and isinstance(st.targets[0], ast.Subscript) and ".tags" in norm(st.targets[0]) and const_value(st.targets[0].slice) in ("BO", "NO")]
        kinds_ = {const_value(st.targets[0].slice) for st in deep}
        from .c09 import guards_of as _g

        conditional = [st for st in deep if len(_g(run.node, st)) > len(_g(run.node, m.success_body[0]))]
        if deep and kinds_ == {"BO", "NO"} and not conditional and not any(isinstance(n_, ast.For) and any(x is deep[0] for x in n_.body) for n_ in node_loops):
            raise AnalysisError("R06.5", run.where(deep[0]), "the BO / NO tags are stored, unconditionally, but not directly in the node loop of the success branch (nested block or helper): the order relative to the write is not read")
        if not deep and any(isinstance(c_, ast.Call) and ctx.repo.resolve_call(run, c_) is not None and ctx.repo.resolve_call(run, c_).module is run.module for st in m.success_body for c_ in ast.walk(st)):
            raise AnalysisError("R06.5", run.where(m.success_if), "no BO / NO store in the success branch itself (a helper of the module is called there): not traced")
    ctx.check(ok, "R06.5", run.where(m.success_if), "both tags are overwritten, unconditionally, for every node of the component before the (BO, NO)-ordered write", key_of(run, "tags-overwritten-before-write"))


def r06_6(ctx):
    """GFA.read_graph: add_edge is called only after the loop over the file's lines has finished."""
    repo = ctx.repo
    rg = repo.func("gaftools.gfa", "GFA.read_graph", "R06.6")
    ctx.analysed_func(rg)
    if not any(isinstance(c, ast.Call) and isinstance(c.func, ast.Attribute) and c.func.attr == "add_edge" for c in walk_own(rg.node)):
        from ..core import tail_inlined

        rg = tail_inlined(repo, rg, keep=lambda callee: callee.name in ("add_edge", "add_node"))  # the link is added by a helper of the reader
    file_loops = []
    for n in walk_stmts(rg.node.body):  # also inside `with handle:` / try
        if isinstance(n, ast.For) and any(isinstance(c, ast.Call) and isinstance(c.func, ast.Attribute) and c.func.attr == "startswith" for c in ast.walk(n)):
            if not any(isinstance(o, ast.For) and o is not n and any(x is n for x in ast.walk(o)) and o in file_loops for o in file_loops):
                file_loops.append(n)
    ctx.require_count("R06.6", len(file_loops), 1, rg.where(), "loop over the lines of the GFA file")
    fl = file_loops[0]
    edge_calls = [c for c in walk_own(rg.node) if isinstance(c, ast.Call) and isinstance(c.func, ast.Attribute) and c.func.attr == "add_edge"]
    ctx.require_count("R06.6", len(edge_calls), 1, rg.where(), "add_edge call of the reader")
    inside = [c for c in edge_calls if any(x is c for x in ast.walk(fl))]
    # any test "node known?" (`in self`) inside the file loop that filters L lines
    filt = []
    for n in ast.walk(fl):
        if isinstance(n, ast.Compare) and any(isinstance(o, (ast.In, ast.NotIn)) for o in n.ops) and any(norm(c) in ("self", "self.nodes") for c in n.comparators):
            filt.append(norm(n))
    ctx.check(not inside and not filt, "R06.6", rg.where(fl), "links are resolved (node-existence test, add_edge) only after every S line of the file has been read, so the result does not depend on the order of lines", key_of(rg, f"edge-resolution-in-file-loop:{len(inside)}:{filt}"), add_edge_in_loop=len(inside), existence_tests_in_loop=filt)


def r06_7(ctx, m):
    """Components are named by the majority SN of their nodes: per component the running maximum is reset, a tag
    replaces it exactly when its count is not smaller (or strictly greater) than the running maximum, and the
    component is filed under that tag."""
    repo = ctx.repo
    nc = None
    from ..core import same_func

    for c in walk_own(m.run0.node):
        if isinstance(c, ast.Call):
            h = repo.resolve_call(m.run0, c)
            if h is not None and h.module is m.mod and any(isinstance(x, ast.For) for x in h.node.body) and not same_func(h, m.dec):
                rets = [r for r in walk_own(h.node) if isinstance(r, ast.Return) and r.value is not None]
                if rets and any(isinstance(st, ast.Assign) and isinstance(st.targets[0], ast.Subscript) and norm(st.targets[0].value) == norm(rets[-1].value) for st in walk_own(h.node)):
                    nc = h
    if nc is None:
        raise AnalysisError("R06.7", m.run.where(), "cannot find the function that names the components")
    ctx.analysed_func(nc)
    outer = [l for l in nc.node.body if isinstance(l, ast.For)]
    if not outer:
        raise AnalysisError("R06.7", nc.where(), "no loop over the components")
    ol = outer[0]
    inner = [l for l in ol.body if isinstance(l, ast.For)]
    if not inner:
        raise AnalysisError("R06.7", nc.where(ol), "no loop over the SN counts of a component")
    il = inner[0]
    upd = [st for st in il.body if isinstance(st, ast.If)]
    if len(upd) != 1 or not isinstance(il.target, ast.Tuple):
        raise AnalysisError("R06.7", nc.where(il), "majority vote is not a single guarded update over (tag, count) items")
    tagv, cntv = [norm(e) for e in il.target.elts]
    asg = [st for st in upd[0].body if isinstance(st, ast.Assign)]
    names = {}
    for st in asg:
        if isinstance(st.targets[0], ast.Tuple) and isinstance(st.value, ast.Tuple):
            for t_, v_ in zip(st.targets[0].elts, st.value.elts):
                names[norm(v_)] = norm(t_)
        else:
            names[norm(st.value)] = norm(st.targets[0])
    best_tag, best_cnt = names.get(tagv), names.get(cntv)
    if best_tag is None or best_cnt is None:
        ctx.violated("R06.7", nc.where(upd[0]), "the update of the majority vote does not record both the tag and its count", key_of(nc, f"vote-update:{sorted(names.items())}"))
        return

    def atom_of(e):
        t = norm(e)
        return {best_cnt: "best", cntv: "count"}.get(t)

    bad = None
    for env, scale in ordtab.weak_orderings(["best", "count"], []):
        try:
            v = ordtab.Evaluator(env, atom_of, scale).truth(upd[0].test)
        except ordtab.Unsupported as ex:
            raise AnalysisError("R06.7", nc.where(upd[0]), f"vote test outside the comparison fragment: {ex}")
        if env["count"] > env["best"] and not v:
            bad = "a tag with a larger count does not replace the current majority"
        if env["count"] < env["best"] and v:
            bad = "a tag with a smaller count replaces the current majority"
    ctx.check(bad is None, "R06.7", nc.where(upd[0]), "majority vote: a tag replaces the running majority exactly when its count is larger (ties either way)", key_of(nc, f"vote-table:{norm(upd[0].test)}"), **({"why": bad} if bad else {}))
    # the running maximum is reset for every component (inside the component loop, before the vote)
    resets = [st for st in ol.body if isinstance(st, ast.Assign) and norm(st.targets[0]) == best_cnt and const_value(st.value, None) == 0 and ol.body.index(st) < ol.body.index(il)]
    ctx.check(bool(resets), "R06.7", nc.where(ol), "the running maximum is reset to 0 for every component", key_of(nc, "vote-reset"))
    # counts: one per node carrying an SN tag, keyed by the SN value
    stores = [st for st in ol.body if isinstance(st, ast.Assign) and isinstance(st.targets[0], ast.Subscript) and norm(st.targets[0].slice) == best_tag and norm(st.value) == norm(ol.target)]
    ctx.check(len(stores) == 1, "R06.7", nc.where(ol), "each component is filed under its majority tag", key_of(nc, "vote-store"))
    cs = None
    for c in ast.walk(ol):
        if isinstance(c, ast.Call):
            h = repo.resolve_call(nc, c)
            if h is not None and h.module is m.mod and h is not nc:
                cs = h
    if cs is not None:
        ctx.analysed_func(cs)
        src = norm(cs.node)
        incs = [st for st in walk_own(cs.node) if isinstance(st, ast.AugAssign) and isinstance(st.op, ast.Add) and const_value(st.value) == 1 and "tags['SN'][1]" in _resolve(cs, st.target)]
        loops = [l for l in cs.node.body if isinstance(l, ast.For)]
        ok = len(incs) == 1 and bool(loops) and norm(loops[0].iter) in cs.params
        if not ok and (not loops or len(loops) > 1 or any(isinstance(x, ast.Try) for x in ast.walk(cs.node)) or (not incs and norm(loops[0].iter) in cs.params)):
            raise AnalysisError("R06.7", cs.where(), "cannot read how the SN values of a component are counted (no single counting loop with one increment)")
        ctx.check(ok, "R06.7", cs.where(), "the vote counts every node of the component once under its SN value", key_of(cs, "count-sn"))


def _resolve(f, e):
    from ..core import resolve_expr

    return resolve_expr(f.node, e)


def r06_8(ctx, m):
    """Blocks of the block-cut decomposition become elements of the chain by what they contain: a block with nodes
    besides articulation points is a bubble; a block made of articulation points only is a plain link between two scaffold
    nodes.  The test that separates the two must be the emptiness of `block - articulation points` (not the size of the
    block: a chain end hanging on one link is a two-node block with an inside node)."""
    from ..core import local_defs, resolve_expr
    from ..paths import canon_test

    repo = ctx.repo
    # the function that builds the scaffold graph: dec itself or a helper it calls
    cands = [m.dec] + [h for c in walk_own(m.dec.node) if isinstance(c, ast.Call) for h in [repo.resolve_call(m.dec, c)] if h is not None and h.module is m.mod]
    site = None
    for f in cands:
        for lp in walk_own(f.node):
            if not isinstance(lp, ast.For):
                continue
            diffs = [st for st in lp.body if isinstance(st, ast.Assign) and isinstance(st.value, ast.Call) and isinstance(st.value.func, ast.Attribute) and st.value.func.attr == "difference" and norm(st.value.func.value) in ({norm(lp.target)} | ({norm(e_) for e_ in lp.target.elts} if isinstance(lp.target, ast.Tuple) and isinstance(lp.iter, ast.Call) and norm(lp.iter.func) == "enumerate" else set()))]
            if diffs:
                site = (f, lp, diffs[0])
    if site is None:
        raise AnalysisError("R06.8", m.dec.where(), "cannot find the loop over the biconnected components (block.difference(articulation points))")
    f, lp, d = site
    ctx.analysed_func(f)
    inside = norm(d.targets[0])
    # the branch test: the If of the loop body one of whose arms adds a '+','+' link between two unpacked end nodes / appends the bubble
    branch = None
    for st in lp.body:
        if isinstance(st, ast.If) and any(isinstance(c, ast.Call) and isinstance(c.func, ast.Attribute) and c.func.attr == "append" and c.args and norm(c.args[0]) == inside for c in ast.walk(st)):
            branch = st
    if branch is None:
        # continue-guard form: `if inside: ...bubble...; continue` followed by the link case
        for st in lp.body:
            if isinstance(st, ast.If) and inside in names_in(st.test):
                branch = st
                break
    if branch is None:
        raise AnalysisError("R06.8", f.where(lp), "cannot find the test that separates bubbles from plain links")
    bubble_in_body = any(isinstance(c, ast.Call) and isinstance(c.func, ast.Attribute) and c.func.attr == "append" and c.args and norm(c.args[0]) == inside for b_ in branch.body for c in ast.walk(b_))
    t, pol = canon_test(branch.test, True)
    empties = {f"len({inside}) == 0": True, f"{inside} == set()": True, f"len({inside}) > 0": False, f"len({inside}) >= 1": False, f"len({inside}) < 1": True, inside: False, f"bool({inside})": False}
    if t not in empties:
        if inside not in names_in(branch.test):
            ctx.violated("R06.8", f.where(branch), f"bubbles and plain links are told apart by `{norm(branch.test)}`, which does not look at the nodes inside the block (`{inside}` = block minus articulation points)", key_of(f, f"block-kind-test:{norm(branch.test)}"))
            return
        raise AnalysisError("R06.8", f.where(branch), f"cannot read the bubble / link test `{norm(branch.test)}`")
    body_when_empty = empties[t] == pol  # True: the If body runs when the block has no inside node
    ok = body_when_empty != bubble_in_body
    ctx.check(ok, "R06.8", f.where(branch), "a block is a bubble exactly when it has nodes besides articulation points (emptiness of block - articulation points), otherwise a link between its two scaffold ends", key_of(f, f"block-kind:{t}:{pol}:{bubble_in_body}"), test=norm(branch.test))


def r06_9(ctx, m):
    """The caller recognises success by the truth of one returned value: on every return that reports an ordered component
    that value must be truthy whenever the component is non-empty — in particular not an empty literal."""
    dec = m.dec
    n = 0
    for r in m.ok_returns:
        flag = r.value.elts[m.flag_pos]
        n += 1
        empty = (isinstance(flag, ast.Call) and norm(flag.func) in ("set", "list", "dict", "tuple", "frozenset") and not flag.args and not flag.keywords) or (isinstance(flag, (ast.List, ast.Tuple, ast.Set, ast.Dict)) and not (flag.elts if not isinstance(flag, ast.Dict) else flag.keys)) or (isinstance(flag, ast.Constant) and not flag.value)
        ctx.check(not empty, "R06.9", dec.where(r), f"a return that reports an ordered component hands the caller a non-empty value in the position it tests for success (position {m.flag_pos})", key_of(dec, f"ok-flag-empty:{norm(flag)}:{r.value.elts[m.flag_pos + 1:] and norm(r.value.elts[-2])[:30]}"), flag=norm(flag))
    ctx.require_count("R06.9", n, 1, dec.where(), "returns that report an ordered component")


def r06_10(ctx, m):
    """The collapsed (scaffold) graph holds the articulation points under their own names plus one synthetic node per
    bubble.  A synthetic id must be one that no segment can have: a GFA segment name contains no blank, so an id built
    around a literal with a blank is safe; the bare bubble index is not (segments named 0, 1, 2, ... are common)."""
    dec = m.dec
    from .. import tmpl
    from ..core import resolve_expr

    synth = []
    # the collapsed graph may be built in a helper of the ordering function
    for fn in [f_ for f_ in closure(ctx.repo, dec, depth=2) if f_.module is dec.module]:
        for c in walk_own(fn.node):
            if not (isinstance(c, ast.Call) and isinstance(c.func, ast.Attribute) and c.func.attr == "add_node" and len(c.args) == 1):
                continue
            a = c.args[0]
            # the articulation points themselves: `for n in artic_points: g.add_node(n)`
            is_loop_var = any(isinstance(l, ast.For) and norm(l.target) == norm(a) and any(x is c for x in ast.walk(l)) for l in walk_own(fn.node))
            if not is_loop_var:
                synth.append((fn, c))
    ctx.require_count("R06.10", len(synth), 1, dec.where(), "synthetic (bubble) nodes added to the collapsed graph")
    for dec, c in synth:
        a = c.args[0]
        src = ast.parse(resolve_expr(dec.node, a), mode="eval").body
        try:
            parts = tmpl.of_expr(src)
        except tmpl.TemplateError:
            parts = None
        lits = "".join(p[1] for p in parts if p[0] == "lit") if parts else ""
        if any(ch in lits for ch in " \t"):
            ctx.holds("R06.10", dec.where(c), f"a bubble's id in the collapsed graph (`{norm(src)[:50]}`) contains a blank: no segment name can equal it")
            # ... and no two bubbles share an id: the variable part is a running index / counter, not a function of the
            # component's end nodes (two tips hanging off one articulation point have the same set of ends)
            lp = None
            for l in walk_own(dec.node):
                if isinstance(l, ast.For) and any(x is c for x in ast.walk(l)) and (lp is None or any(x is l for x in ast.walk(lp))):
                    lp = l
            holes = []
            if lp is not None:
                # the id as written, with the loop's own single-assignment temporaries expanded (not the end-node set, not the containers)
                import copy as _copy

                ends_vars0 = {st.targets[0].id for st in walk_stmts(lp.body) if isinstance(st, ast.Assign) and isinstance(st.targets[0], ast.Name) and (".intersection(" in norm(st.value) or (isinstance(st.value, ast.BinOp) and isinstance(st.value.op, ast.BitAnd)))}
                ldefs = {}
                for st in walk_stmts(lp.body):
                    if isinstance(st, ast.Assign) and len(st.targets) == 1 and isinstance(st.targets[0], ast.Name):
                        ldefs.setdefault(st.targets[0].id, []).append(st.value)
                ldefs = {k: v[0] for k, v in ldefs.items() if len(v) == 1 and k not in ends_vars0}

                class _R(ast.NodeTransformer):
                    def visit_Name(self, n_):
                        return _copy.deepcopy(ldefs[n_.id]) if isinstance(n_.ctx, ast.Load) and n_.id in ldefs else n_

                e_ = _copy.deepcopy(a)
                for _ in range(3):
                    e_ = _R().visit(e_)
                try:
                    holes = [p_[1] for p_ in tmpl.of_expr(ast.fix_missing_locations(e_)) if p_[0] == "hole"]
                except tmpl.TemplateError:
                    holes = []
            hnames = {x.id for h in holes for x in ast.walk(h) if isinstance(x, ast.Name)}
            if lp is not None and holes:
                appended = {norm(x.func.value) for x in ast.walk(lp) if isinstance(x, ast.Call) and isinstance(x.func, ast.Attribute) and x.func.attr == "append"}
                counters = {norm(x.target) for x in ast.walk(lp) if isinstance(x, ast.AugAssign) and isinstance(x.op, ast.Add) and const_value(x.value) == 1}
                enum_vars = {e_.id for l in walk_own(dec.node) if isinstance(l, ast.For) and any(x is c for x in ast.walk(l)) and isinstance(l.iter, ast.Call) and norm(l.iter.func) == "enumerate" and isinstance(l.target, ast.Tuple) for e_ in [l.target.elts[0]] if isinstance(e_, ast.Name)}
                running = any(isinstance(x, ast.Call) and norm(x.func) == "len" and x.args and norm(x.args[0]) in appended for h in holes for x in ast.walk(h)) or bool(hnames & (counters | enum_vars))
                ends_vars = {st.targets[0].id for st in walk_stmts(lp.body) if isinstance(st, ast.Assign) and isinstance(st.targets[0], ast.Name) and (".intersection(" in norm(st.value) or (isinstance(st.value, ast.BinOp) and isinstance(st.value.op, ast.BitAnd)))}
                # the number in the id is read back as a position in the list of bubbles (`bubbles[int(id.split(" ")[1])]`):
                # it must be the position the bubble is appended at, not a count over all components
                readers = [x for x in walk_own(dec.node) if isinstance(x, ast.Subscript) and isinstance(x.value, ast.Name) and x.value.id in appended and "int(" in norm(x.slice) and ".split(" in norm(x.slice)]
                if readers and running:
                    lst_ = readers[0].value.id
                    positional = any(isinstance(x, ast.Call) and norm(x.func) == "len" and x.args and norm(x.args[0]) == lst_ for h in holes for x in ast.walk(h))
                    if not positional and (hnames & enum_vars):
                        ev_ = sorted(hnames & enum_vars)[0]
                        ctx.violated("R06.10", dec.where(c), f"a bubble's id is numbered by `{ev_}`, the position of its component among all biconnected components, but `{norm(readers[0])[:60]}` reads the number back as a position in `{lst_}`, which holds only the components with inner nodes: after a component without inner nodes (two scaffold nodes joined by a plain link) the numbers no longer agree and the wrong bubble is looked up (or IndexError)", key_of(dec, f"bubble-id-vs-position:{ev_}"))
                        continue
                if running:
                    ctx.holds("R06.10", dec.where(c), "the variable part of a bubble's id is a running index: no two bubbles share an id")
                elif hnames and hnames - {"sorted", "str", "list", "tuple"} <= ends_vars:
                    ctx.violated("R06.10", dec.where(c), f"a bubble's id (`{norm(src)[:60]}`) is a function of the component's articulation points only: two blocks that hang off the same articulation point (a chain forking into two tips at its end) get the same id, collapse into one node of the scaffold graph, and a component that is not a chain is ordered as one (with nodes left out)", key_of(dec, f"bubble-id-not-unique:{norm(a)[:40]}"))
                else:
                    raise AnalysisError("R06.10", dec.where(c), f"cannot decide whether the ids `{norm(src)[:60]}` of two bubbles can coincide")
        elif isinstance(src, ast.Call) and norm(src.func) == "str" or (parts is not None and not lits):
            ctx.violated("R06.10", dec.where(c), f"a bubble is entered into the collapsed graph under `{norm(a)[:50]}`, the bare index: in a graph whose segments are named 0, 1, 2, ... it coincides with an articulation point, the two are merged and the chain is no longer recognised (the chromosome is skipped or mis-ordered)", key_of(dec, f"bubble-id-collides:{norm(a)[:40]}"))
        else:
            raise AnalysisError("R06.10", dec.where(c), f"cannot decide whether the synthetic id `{norm(src)[:60]}` can coincide with a segment name")



def r06_11(ctx, m):
    """How the biconnected components enter the collapsed graph, decided path by path through the loop over the components
    and world by world over (has inner nodes?, number of articulation points): a component with inner nodes becomes one
    synthetic node linked to every one of its articulation points; one without inner nodes is a bridge: with exactly two
    articulation points it becomes an edge between them, with any other number the chromosome is given up.  A chromosome
    that is a single segment gets (bo_start, 0)."""
    from .. import ordtab as _ot
    from ..paths import enum_paths as _ep

    dec = m.dec
    repo = ctx.repo
    fns = [f_ for f_ in closure(repo, dec, depth=2) if f_.module is dec.module]
    found = False

    def calls(node, attr):
        return [c for c in ast.walk(node) if isinstance(c, ast.Call) and isinstance(c.func, ast.Attribute) and c.func.attr == attr]

    for fn in fns:
        for lp in walk_own(fn.node):
            if not (isinstance(lp, ast.For) and calls(lp, "add_edge") and calls(lp, "add_node")):
                continue
            if any(isinstance(o, ast.For) and o is not lp and any(x is lp for x in ast.walk(o)) and calls(o, "add_node") for o in walk_own(fn.node)):
                continue
            # the two sets derived from the component: inner nodes (difference with the articulation points), ends (intersection)
            ins = ends = None
            for st in lp.body:
                if isinstance(st, ast.Assign) and isinstance(st.targets[0], ast.Name):
                    v = st.value
                    t = norm(v)
                    if ".difference(" in t or (isinstance(v, ast.BinOp) and isinstance(v.op, ast.Sub)):
                        ins = st.targets[0].id
                    elif ".intersection(" in t or (isinstance(v, ast.BinOp) and isinstance(v.op, ast.BitAnd)):
                        ends = st.targets[0].id
            if ins is None or ends is None:
                continue
            found = True

            def atom_of(e):
                t = norm(e)
                if t in (f"len({ins})", ins):
                    return "ins"
                if t in (f"len({ends})", ends):
                    return "ends"
                return None

            paths = _ep(lp.body, rule="R06.11", where=fn.where(lp))
            bad = None
            n_worlds = 0
            for has_inner in (0, 1):
                for n_ends in (0, 1, 2, 3):
                    env = {"ins": has_inner, "ends": n_ends}
                    n_worlds += 1
                    try:
                        ps = _ot.consistent_paths(paths, env, atom_of, 1)
                    except _ot.Unsupported as ex:
                        raise AnalysisError("R06.11", fn.where(lp), f"a test of the component loop is outside the fragment: {ex}")
                    for p in ps:
                        nodes_added = [e for e in p.events if e.kind in ("stmt", "loop") and calls(e.node, "add_node")]
                        edge_events = [e for e in p.events if e.kind in ("stmt", "loop") and calls(e.node, "add_edge")]
                        gives_up = p.term == "return"
                        if has_inner:
                            if gives_up or not nodes_added:
                                bad = bad or (p, f"a component with inner nodes and {n_ends} articulation point(s) does not become a bubble node")
                            else:
                                loops_ = [e.node for e in edge_events if isinstance(e.node, ast.For)]
                                ok_l = bool(loops_) and norm(loops_[0].iter) == ends and not any(isinstance(x, (ast.If, ast.Continue, ast.Break)) for x in ast.walk(loops_[0])) and norm(loops_[0].target) in [norm(a) for a in calls(loops_[0], "add_edge")[0].args]
                                if not ok_l:
                                    bad = bad or (p, "a bubble node is not linked to every articulation point of its component")
                        elif n_ends == 2:
                            if gives_up:
                                bad = bad or (p, "a bridge (no inner nodes, two articulation points) makes the chromosome unorderable")
                            elif nodes_added:
                                bad = bad or (p, "a bridge (no inner nodes) is entered as a bubble node")
                            elif not edge_events:
                                bad = bad or (p, "a bridge between two adjacent scaffold nodes adds no edge to the collapsed graph: the chain falls apart and the chromosome is skipped")
                        else:
                            if not gives_up:
                                bad = bad or (p, f"a component without inner nodes and {n_ends} articulation point(s) (three scaffold nodes on one cycle for 3) is not turned away")
            ctx.check(bad is None, "R06.11", fn.where(lp), "components enter the collapsed graph by kind: inner nodes -> bubble node linked to all its articulation points; none and two articulation points -> an edge between them; none and any other number -> the chromosome is given up", key_of(fn, f"bicc-kinds:{bad[1][:60] if bad else ''}"), worlds=n_worlds, paths=len(paths), **({"path": bad[0].show(), "why": bad[1]} if bad else {}))
            # the edge of a bridge joins its two articulation points
            for st in walk_stmts(lp.body):
                if isinstance(st, ast.Assign) and isinstance(st.targets[0], ast.Tuple) and len(st.targets[0].elts) == 2 and ends in names_in(st.value):
                    pair = {norm(e) for e in st.targets[0].elts}
                    es = [c for c in calls(lp, "add_edge") if {norm(c.args[0]), norm(c.args[2])} == pair] if all(len(c.args) >= 3 for c in calls(lp, "add_edge")) else []
                    ctx.check(bool(es), "R06.11", fn.where(st), "the edge of a bridge joins its two articulation points", key_of(fn, f"bridge-edge-ends:{sorted(pair)}"))
    if not found:
        raise AnalysisError("R06.11", dec.where(), "cannot find where the biconnected components are entered into the collapsed graph")
    # single-segment chromosome
    for r in walk_own(dec.node):
        if isinstance(r, ast.Return) and isinstance(r.value, ast.Tuple):
            dicts = [e for e in r.value.elts if isinstance(e, ast.Dict) and len(e.keys) == 1]
            if dicts:
                v = dicts[0].values[0]
                bo_p = dec.params[3] if len(dec.params) > 3 else None
                # (under the "last used" convention — the numbering loop advances the counter before it numbers — the
                # segment gets incoming + 1; R06.2 / R06.4 decide the convention and its consistency)
                pre_ = any(isinstance(l_, ast.For) and l_.body and isinstance(l_.body[0], ast.AugAssign) and isinstance(l_.body[0].op, ast.Add) and const_value(l_.body[0].value, None) == 1 and any(isinstance(d_, ast.Assign) and norm(d_.targets[0]) == norm(l_.body[0].target) and norm(d_.value) == bo_p for d_ in dec.node.body) for l_ in dec.node.body)
                want_ = (f"{bo_p} + 1", f"1 + {bo_p}") if pre_ else (bo_p,)
                ok = isinstance(v, ast.Tuple) and len(v.elts) == 2 and norm(v.elts[0]) in want_ and const_value(v.elts[1], None) == 0
                ctx.check(ok, "R06.11", dec.where(r), "a chromosome that is a single segment gets BO = the running counter and NO = 0 (it is a scaffold node)", key_of(dec, f"single-node-order:{norm(v)}"))
