"""C02 — conversion is lossless: round trips and untouched columns.

R02.1  one output per input, in order: the two streaming generators yield exactly once per parsed
       record on every path; every consumer loop in view prints exactly once per iteration
R02.2  untouched columns: columns 1-4 and 10-12 of both converter templates are the parsed columns of
       the same record, the optional fields are one repetition over the parsed mapping, and the only
       store into the mapping is the CIGAR reversal
R02.3  the inverse pair: the structural necessary conditions of the round trip are those decided for
       C01 (exact overlap filter and window, merge = union of touching same-contig same-orientation
       intervals, run folding, affine offset forms) — re-evaluated here
"""

from __future__ import annotations

import ast

from ..core import AnalysisError, const_value, norm, walk_own, walk_stmts
from ..paths import enum_paths
from .. import tmpl
from . import conv_common as cc
from . import c01, emit
from .common import key_of

META = {
    "explanation": "Static decision of the lossless-conversion shape: every path through one iteration of the streaming generators "
    "(stable_to_unstable / unstable_to_stable) and of every consumer loop in view.run performs exactly one yield / one print, so output "
    "records correspond one-to-one and in order to input records; the converter templates' columns 1-4 and 10-12 are holes fed by the "
    "parsed columns 1-4 and 10-12 of the same record and the tail is exactly one repetition over the parsed tag mapping; the round trip's "
    "structural necessary conditions (overlap filter/window exactness, merge table, run folding, affine offset forms of both directions) "
    "are re-evaluated from C01.  Not decided: that the two directions are arithmetic inverses on every canonical record (the affine forms "
    "are checked per direction against the locus they must designate, not composed).",
    "technique": "static analysis: loop-iteration path enumeration (exactly-one yield/print), string templates, order-type tables and affine forms shared with C01",
    "exhaustive": True,
}


def check(ctx):
    m = cc.build(ctx, "R02")
    ctx.run(r02_1, m)
    ctx.run(r02_2, m)
    # inverse pair: structural necessary conditions
    ctx.run(c01.r01_1_filter, m, m.to_unstable[0], "R01.1")
    ctx.run(c01.r01_1_search, m)
    ctx.run(c01.r01_2, m)
    ctx.run(c01.r01_5, m)
    ctx.run(c01.r01_46_stable, m)
    ctx.run(c01.r01_46_unstable, m)
    from . import c03, c16
    from .c19 import tag_loop, tag_regex_info

    ctx.run(c03.r03_7)
    ctx.run(c03.r03_4, None)
    ctx.run(c01.r01_8)
    ctx.run(c01.r01_9, m)
    # "every optional field ... unchanged": the parser must accept the whole tag grammar (shared with C16)
    pf, loop = tag_loop(ctx, "R16.1")
    info16 = tag_regex_info(pf, loop, "R16.1")
    ctx.run(c16.r16_1, pf, loop, info16)
    ctx.run(c16.r16_2, pf, loop)
    ctx.not_decided.append("composition of the two directions on canonical records (round-trip equality as a whole)")
    # mechanisms this property rests on (see shared.py): a change there is reported here as well
    from . import shared as _sh

    ctx.run_shared(lambda c_: _sh.tag_pop_reinsert(c_, "R16.5"))
    ctx.run_shared(_sh.path_tokenisers)
    ctx.run_shared(_sh.gaf_reader)
    ctx.run_shared(_sh.tag_parser)
    ctx.run_shared(_sh.graph_loader)
    ctx.run_shared(_sh.contig_paths)
    ctx.run_shared(_sh.cli_layer, "gaftools.cli.view")


def r02_1(ctx, m):
    repo = ctx.repo
    conv = repo.module("gaftools.conversion", "R02.1")
    gens = []
    for f in conv.funcs.values():
        ys = [n for n in walk_own(f.node) if isinstance(n, (ast.Yield, ast.YieldFrom))]
        if ys:
            gens.append(f)
    # the generators other modules consume; a generator only delegated to (`yield from helper(...)`) is analysed inlined
    public = [g for g in gens if any(cf.module is not conv for cf, _ in repo.callers_of(g))]
    gens = public or gens
    ctx.require_count("R02.1", len(gens), 2, conv.relpath, "streaming generator functions")
    conv_funcs = {m.to_unstable[0].qualname, m.to_stable[0].qualname}
    from ..core import tail_inlined

    for g0 in gens:
        ctx.analysed_func(g0)
        from ..core import while_next_loops

        g = while_next_loops(tail_inlined(repo, g0))
        loops = [n for n in g.node.body if isinstance(n, ast.For) and "read_file" in norm(n.iter)]
        if not loops:
            raise AnalysisError("R02.1", g.where(), "cannot find the loop over the parsed records of the input (for ... in <GAF>.read_file())")
        if len(loops) != 1:
            ctx.violated("R02.1", g.where(), "the generator does not stream the parsed records of the input with one loop", key_of(g, "stream-loop"))
            continue
        loop = loops[0]
        paths = enum_paths(loop.body, rule="R02.1", where=g.where(loop))
        bad = None
        for p in paths:
            ys = [e for e in p.events if e.kind == "stmt" and isinstance(e.node, ast.Expr) and isinstance(e.node.value, ast.Yield)]
            if p.term not in ("fall", "continue") or len(ys) != 1:
                bad = (p, f"{len(ys)} yields, path ends in {p.term}")
                break
            y = ys[0].node.value.value
            callee = repo.resolve_call(g, y) if isinstance(y, ast.Call) else None
            if isinstance(y, ast.Call) and callee is None and isinstance(y.func, ast.Name) and y.func.id not in g.module.funcs and y.func.id not in g.module.imports:
                raise AnalysisError("R02.1", g.where(loop), f"the converter applied to each record is `{y.func.id}`, a callable chosen at run time (a parameter or local): which converter it is, is not traced")
            if callee is None or callee.qualname not in conv_funcs or norm(y.args[0]) != norm(loop.target):
                bad = (p, f"yields `{norm(y)}`, not the conversion of the current record")
                break
        ctx.check(bad is None, "R02.1", g.where(loop), "every path through one parsed record yields exactly one converted record (no filter, no duplicate)", key_of(g, f"one-yield:{bad[1] if bad else ''}"), paths=len(paths), **({"path": bad[0].show(), "why": bad[1]} if bad else {}))
        outside = [n for n in walk_own(g.node) if isinstance(n, (ast.Yield, ast.YieldFrom)) and not any(x is n for x in ast.walk(loop))]
        ctx.check(not outside, "R02.1", g.where(), "nothing is yielded outside the record loop", key_of(g, "yield-outside"))
    # consumers in view.run
    view = repo.module("gaftools.cli.view", "R02.1")
    run = None
    for f in view.funcs.values():
        if any(isinstance(n, ast.Call) and repo.resolve_call(f, n) in gens for n in walk_own(f.node)):
            run = f
    if run is None:
        raise AnalysisError("R02.1", view.relpath, "view does not call the streaming generators")
    ctx.analysed_func(run)
    from ..core import sink_into_branches

    _keep = lambda c: any(isinstance(x, ast.Call) and isinstance(x.func, ast.Attribute) and x.func.attr == "read_line" for x in ast.walk(c.node))  # noqa: E731
    run = tail_inlined(repo, sink_into_branches(tail_inlined(repo, run, keep=_keep)), keep=_keep)
    n_loops = 0
    for loop in [n for n in walk_own(run.node) if isinstance(n, ast.For)]:
        it = loop.iter
        is_gen = isinstance(it, ast.Call) and repo.resolve_call(run, it) in gens
        is_raw = norm(it).endswith(".file")
        is_sel = isinstance(it, ast.Name) and any(isinstance(c, ast.Call) and isinstance(c.func, ast.Attribute) and c.func.attr == "read_line" for c in ast.walk(loop))
        if not (is_gen or is_raw or is_sel):
            continue
        n_loops += 1
        paths = enum_paths(loop.body, rule="R02.1", where=run.where(loop))
        bad = None
        for p in paths:
            prints = [e for e in p.events if e.kind == "stmt" and isinstance(e.node, ast.Expr) and tmpl.is_write_call(e.node.value)]
            if p.term not in ("fall", "continue") or len(prints) != 1:
                bad = (p, f"{len(prints)} prints, path ends in {p.term}")
                break
        kind = "converted stream" if is_gen else ("pass-through" if is_raw else "selected records")
        ctx.check(bad is None, "R02.1", run.where(loop), f"view ({kind}): every iteration prints exactly one record", key_of(run, f"one-print:{norm(it)}:{bad[1] if bad else ''}"), paths=len(paths), **({"path": bad[0].show(), "why": bad[1]} if bad else {}))
    # line discipline of the output handle: a write that does not end its line glues the next record to it
    for c in walk_own(run.node):
        if isinstance(c, ast.Call) and isinstance(c.func, ast.Attribute) and c.func.attr == "write" and len(c.args) == 1:
            a = c.args[0]
            if isinstance(a, ast.Call) and isinstance(a.func, ast.Attribute) and a.func.attr == "join" and const_value(a.func.value, None) == "\n":
                later = [x for x in walk_own(run.node) if isinstance(x, ast.Call) and x is not c and (tmpl.is_write_call(x) or (isinstance(x.func, ast.Attribute) and x.func.attr == "write"))]
                if later or any(isinstance(l, (ast.For, ast.While)) and any(x is c for x in ast.walk(l)) for l in walk_own(run.node)):
                    ctx.violated("R02.1", run.where(c), f"`{norm(c)[:70]}` writes a block of records without a line end after the last one: the first record of whatever is written next continues that line (two records become one)", key_of(run, f"block-without-newline:{norm(c)[:50]}"))
    ctx.require_count("R02.1", n_loops, 6, run.where(), "record-printing loops of view.run")


def r02_2(ctx, m):
    schema = m.schema
    for which in (m.to_stable, m.to_unstable):
        f, rec, n = which
        st, var, handle, region, out = emit.templates_of(ctx, f, rec, n, m.extras["tags_attr"], "R02.2")
        seen = set()
        for p, parts in out:
            sig = tmpl.show(parts)
            if sig in seen:
                continue
            seen.add(sig)
            cols = tmpl.columns([x for x in parts if x[0] != "rep"])
            bad = None
            for i in (0, 1, 2, 3, 9, 10, 11):
                c = cols[i] if i < len(cols) else []
                ok = len(c) == 1 and c[0][0] == "hole" and isinstance(c[0][1], ast.Attribute) and norm(c[0][1].value) == rec and schema.get(c[0][1].attr) == i
                if not ok:
                    bad = (i + 1, tmpl.show(c))
                    break
            ctx.check(bad is None and len(cols) == 12, "R02.2", f.where(st), "columns 1-4 and 10-12 are the parsed columns of the same record, nothing is appended but the parsed fields", key_of(f, f"untouched:{bad}:{len(cols)}"), **({"column": bad[0], "found": bad[1]} if bad else {}), columns=len(cols))
            reps = [x for x in parts if x[0] == "rep"]
            if not reps and emit.has_unlinked_tag_loop(f, rec, m.extras["tags_attr"], var):
                raise AnalysisError("R02.2", f.where(st), "the function iterates the record's optional fields, but not into the string this rule follows: how they reach the output is not traced")
            ctx.check(len(reps) == 1 and parts[-1] is reps[0], "R02.2", f.where(st), "the record ends with exactly one repetition over the parsed optional fields", key_of(f, f"tag-rep:{len(reps)}"))
        # record attributes other than strand/tags are never assigned
        stores = [s for s in walk_own(f.node) if isinstance(s, (ast.Assign, ast.AugAssign)) and any(isinstance(t, ast.Attribute) and norm(t.value) == rec and t.attr not in ("strand",) for t in (s.targets if isinstance(s, ast.Assign) else [s.target]))]
        ctx.check(not stores, "R02.2", f.where(), "the converter does not modify the parsed record's columns (other than the strand flip)", key_of(f, f"record-mutated:{[norm(s)[:50] for s in stores]}"))
