"""C14 — path sequences are spelled correctly and only for real walks.

R14.1  the walk table agrees with the link table: for every pair of step orientations the side set and far
       side looked up by path_exists are the ones add_edge fills for the corresponding link (derived from
       E_DIR); E_DIR is mirror-symmetric under walk reversal, and add_edge fills both ends (R15.2), so the
       reversed walk is accepted exactly when the walk is
R14.2  spelling: '>' appends the node sequence, '<' its reverse complement; the complement table is an
       involution pairing A-T and C-G; rev_comp reverses
R14.3  empty on failure: every early return is "", the walk check dominates the concatenation
R14.4  find_path: one result per input line, in order
"""

from __future__ import annotations

import ast

from ..core import AnalysisError, const_value, norm, walk_own, walk_stmts
from ..paths import enum_paths, canon_test
from . import gfa_common as gc
from . import c15
from .common import key_of

META = {
    "explanation": "Static decision of the walk check and the spelling in GFA.path_exists / extract_path: the four-row table that maps a pair of step "
    "orientations to (adjacency set of the previous node, far side at the next node) is compared, row by row, with the table derived from the "
    "link-orientation table E_DIR that add_edge uses to fill those very sets; E_DIR is checked to be symmetric under walk reversal "
    "(E_DIR[(flip o2, flip o1)] = mirror of E_DIR[(o1, o2)]) and add_edge to fill both ends on every path, which together give 'reversed "
    "walk accepted iff walk accepted'; the orientation dispatch of extract_path, the complement table (involution, A-T, C-G) and the early "
    "returns are checked; find_path's loops produce one record per path.",
    "technique": "static analysis: literal-table algebra (derived table equality, mirror symmetry, involution), per-path mutation pairing, return-value discipline",
    "exhaustive": True,
}

ATTR_OF_SIDE = {0: "start", 1: "end"}


def check(ctx):
    g = gc.build(ctx, "R14")
    ctx.run(r14_1, g)
    ctx.run(c15.r15_2, g)  # both ends are filled / emptied on every path
    ctx.run(r14_2_3, g)
    ctx.run(r14_4)
    from . import c06

    ctx.run(c06.r06_6)  # every declared link is loaded, wherever its L line stands in the file (a walk over a dropped link spells nothing)
    ctx.not_decided.append("tokenisation of unusual node names by re.findall('[><][^><]+') (names containing '>' or '<' are not valid GFA ids)")
    # mechanisms this property rests on (see shared.py): a change there is reported here as well
    from . import shared as _sh

    ctx.run(_sh.path_tokenisers)  # C14 owns the tokeniser rule
    ctx.run_shared(_sh.graph_loader)
    ctx.run_shared(_sh.cli_layer, "gaftools.cli.find_path")


def r14_1(ctx, g):
    repo = ctx.repo
    from ..core import detuple

    pe = detuple(repo, repo.func("gaftools.gfa", "GFA.path_exists", "R14.1"))
    # a loop bound held in a temporary (`n_steps = len(path) - 1; for i in range(n_steps)`) is read in place
    _bounds = {a.id for l in walk_own(pe.node) if isinstance(l, ast.For) and isinstance(l.iter, ast.Call) and norm(l.iter.func) == "range" for a in l.iter.args if isinstance(a, ast.Name)}
    if _bounds:
        from ..core import inline_pure_temps

        pe = inline_pure_temps(pe)
    ctx.analysed_func(pe)
    cases = None
    for st in walk_own(pe.node):
        if isinstance(st, ast.Assign) and isinstance(st.value, ast.Dict) and len(st.value.keys) == 4:
            cases = st
    if cases is None:
        # a module-level table subscripted with the pair of orientation characters
        for sub in walk_own(pe.node):
            if isinstance(sub, ast.Subscript) and isinstance(sub.value, ast.Name) and isinstance(sub.slice, ast.Tuple) and len(sub.slice.elts) == 2 and all(norm(e).endswith("[0]") for e in sub.slice.elts):
                d = pe.module.consts.get(sub.value.id)
                if isinstance(d, ast.Dict) and len(d.keys) == 4:
                    cases = ast.Assign(targets=[ast.Name(id=sub.value.id, ctx=ast.Store())], value=d)
                    ast.copy_location(cases, d)
    if cases is None:
        # positive evidence of a weaker check: the step is decided by calls of a method that looks only at the neighbour
        # ids of one side (`other in [x[0] for x in self.start]`), once from either node: the far side of the link is
        # never compared within one link
        weak = []
        for c in walk_own(pe.node):
            if isinstance(c, ast.Call) and isinstance(c.func, ast.Attribute):
                callee = ctx.repo.resolve_call(pe, c)
                if callee is not None and callee.cls is not None and callee is not pe:
                    proj = [x for x in ast.walk(callee.node) if isinstance(x, (ast.ListComp, ast.GeneratorExp, ast.SetComp)) and isinstance(x.elt, ast.Subscript) and const_value(x.elt.slice, None) == 0 and norm(x.generators[0].iter) in ("self.start", "self.end")]
                    member = [x for x in ast.walk(callee.node) if isinstance(x, ast.Compare) and isinstance(x.ops[0], (ast.In, ast.NotIn)) and any(p_ is x.comparators[0] for p_ in proj)]
                    if member:
                        weak.append(c)
        if len(weak) >= 2:
            ctx.violated("R14.1", pe.where(weak[0]), f"a step of the walk is accepted on two separate questions (`{norm(weak[0])[:50]}` and `{norm(weak[1])[:50]}`), each of which looks only at the neighbour ids of one side of one node: no single link has to connect the side left with the side entered, so with two links between the same two nodes (a two-node cycle `L a + b +`, `L b + a +`, or a self link) a step such as `>a<b` that no link realises is accepted and spelled", key_of(pe, "step-check-not-one-link"))
            return
        raise AnalysisError("R14.1", pe.where(), "cannot find the step table of the walk check")
    tbl = {}
    nt_fields = None
    for k, v in zip(cases.value.keys, cases.value.values):
        kk = tuple(const_value(e) for e in k.elts) if isinstance(k, ast.Tuple) else None
        vv = tuple(const_value(e) for e in v.elts) if isinstance(v, ast.Tuple) else None
        if vv is None and isinstance(v, ast.Call) and isinstance(v.func, ast.Name):
            # a row built by a module-level namedtuple: its fields in declaration order
            d_ = pe.module.consts.get(v.func.id)
            if isinstance(d_, ast.Call) and norm(d_.func).endswith("namedtuple") and len(d_.args) >= 2 and isinstance(d_.args[1], (ast.List, ast.Tuple)):
                flds = [const_value(x) for x in d_.args[1].elts]
                vals = dict(zip(flds, v.args))
                vals.update({k_.arg: k_.value for k_ in v.keywords if k_.arg})
                if all(f_ in vals for f_ in flds):
                    vv = tuple(const_value(vals[f_]) for f_ in flds)
                    nt_fields = list(flds)
        tbl[kk] = vv
    if tbl and all(v_ is not None and len(v_) == 2 and isinstance(v_[0], int) and isinstance(v_[1], str) for v_ in tbl.values()):
        # rows written (far side, adjacency-set name) instead of (name, far side) — e.g. a record type whose fields were
        # declared in that order: read by role.  The row variable's [0] / [1] are exchanged so that the use check below
        # sees the canonical order.
        cname0 = norm(cases.targets[0])
        row_vars = {st_.targets[0].id for st_ in walk_own(pe.node) if isinstance(st_, ast.Assign) and len(st_.targets) == 1 and isinstance(st_.targets[0], ast.Name) and ((isinstance(st_.value, ast.Subscript) and norm(st_.value.value) == cname0) or (isinstance(st_.value, ast.Call) and isinstance(st_.value.func, ast.Attribute) and st_.value.func.attr == "get" and norm(st_.value.func.value) == cname0))}
        if row_vars:
            tbl = {k_: (v_[1], v_[0]) for k_, v_ in tbl.items()}
            import copy as _cp

            class _F(ast.NodeTransformer):
                def visit_Subscript(self, n_):
                    self.generic_visit(n_)
                    if isinstance(n_.value, ast.Name) and n_.value.id in row_vars and isinstance(n_.slice, ast.Constant) and n_.slice.value in (0, 1):
                        return ast.copy_location(ast.Subscript(value=n_.value, slice=ast.Constant(value=1 - n_.slice.value), ctx=n_.ctx), n_)
                    return n_

            body2 = [ast.fix_missing_locations(_F().visit(_cp.deepcopy(st_))) if isinstance(st_, ast.For) else st_ for st_ in pe.node.body]
            pe_node2 = _cp.copy(pe.node)
            pe_node2.body = body2
            from ..core import Func as _Func

            pe = _Func(pe.module, pe.qualname, pe_node2, pe.cls, pe.parent)
    to_dir = {">": "+", "<": "-"}
    bad = None
    for s1 in (">", "<"):
        for s2 in (">", "<"):
            side1, side2 = g.edir[(to_dir[s1], to_dir[s2])]
            want = (ATTR_OF_SIDE[side1], side2)
            got = tbl.get((s1, s2))
            if got != want:
                bad = {"step": f"{s1}x{s2}y", "looks_in": got, "link_is_stored_in": want}
    ctx.check(bad is None, "R14.1", pe.where(cases), "walk table = link table: a step x->y with orientations (o1,o2) is looked up in the adjacency set and far side where add_edge stores the link `x o1 y o2` (all four rows, derived from E_DIR)", key_of(pe, f"walk-table:{bad}"), rows=4, **({"witness": bad} if bad else {}))
    # how the table is used: names are looked through (temporaries, unpacked rows), so only roles matter
    cname = norm(cases.targets[0])
    ppar = pe.params[1]
    pair_loops = [l for l in pe.node.body if isinstance(l, ast.For)]
    uses_ok = ok_get = cmp_ok = cmp_seen = False
    src_all, look = [], []
    if pair_loops:
        pl0 = pair_loops[0]
        env = {}
        prev = cur = None
        if isinstance(pl0.iter, ast.Call) and norm(pl0.iter.func) == "zip" and isinstance(pl0.target, ast.Tuple) and len(pl0.target.elts) == 2:
            prev, cur = norm(pl0.target.elts[0]), norm(pl0.target.elts[1])
        elif isinstance(pl0.target, ast.Name) and isinstance(pl0.iter, ast.Call) and norm(pl0.iter.func) == "range" and [norm(a) for a in pl0.iter.args] in ([f"len({ppar}) - 1"], ["0", f"len({ppar}) - 1"]):
            prev, cur = f"{ppar}[{pl0.target.id}]", f"{ppar}[{pl0.target.id} + 1]"  # pairs (i, i + 1) for i < len - 1
        elif isinstance(pl0.target, ast.Name):
            prev, cur = f"{ppar}[{pl0.target.id} - 1]", f"{ppar}[{pl0.target.id}]"
        for st in walk_stmts(pl0.body):
            if isinstance(st, ast.Assign) and len(st.targets) == 1:
                t = st.targets[0]
                if isinstance(t, ast.Name):
                    env.setdefault(t.id, []).append(st.value)
                elif isinstance(t, ast.Tuple) and all(isinstance(e, ast.Name) for e in t.elts) and isinstance(st.value, (ast.Subscript, ast.Name)):
                    for k_, e in enumerate(t.elts):
                        env.setdefault(e.id, []).append(ast.Subscript(value=st.value, slice=ast.Constant(value=k_), ctx=ast.Load()))
        # a step carried from one iteration into the next (`n1 = n2` before `n2 = path[i]`): the substitution below would read
        # the new value of n2 into n1; which two steps are compared is then not established by this rule
        order_ = [st for st in pl0.body if isinstance(st, ast.Assign) and len(st.targets) == 1 and isinstance(st.targets[0], ast.Name)]
        for i_, st in enumerate(order_):
            if isinstance(st.value, ast.Name) and any(norm(later.targets[0]) == st.value.id for later in order_[i_ + 1 :]):
                raise AnalysisError("R14.1", pe.where(st), f"`{norm(st)}` carries a step over from the previous iteration: which two consecutive steps each look-up compares is not established")
        env = {k_: v[0] for k_, v in env.items() if len(v) == 1}

        import copy as _copy

        class _R(ast.NodeTransformer):
            def visit_Name(self, n):
                if isinstance(n.ctx, ast.Load) and n.id in env:
                    return _copy.deepcopy(env[n.id])
                return n

        def res_node(e):
            e = _copy.deepcopy(e)
            for _ in range(4):
                e2 = _R().visit(_copy.deepcopy(e))
                if ast.dump(e2) == ast.dump(e):
                    break
                e = e2
            return ast.fix_missing_locations(e)

        def res(e):
            return norm(res_node(e)).replace("self.nodes[", "self[")

        # `cases.get(key)` followed by an `is None` test reads the table like `cases[key]`
        for c_ in list(walk_own(pl0)):
            if isinstance(c_, ast.Call) and isinstance(c_.func, ast.Attribute) and c_.func.attr == "get" and norm(c_.func.value) == cname and len(c_.args) in (1, 2) and not c_.keywords:
                sub_ = ast.Subscript(value=c_.func.value, slice=c_.args[0], ctx=ast.Load())
                for k_, v_ in list(env.items()):
                    if v_ is c_:
                        env[k_] = ast.copy_location(sub_, c_)

        row = f"{cname}[{prev}[0], {cur}[0]]"
        src_all = [res(x) for x in walk_own(pl0) if isinstance(x, (ast.Subscript,)) and norm(x.value) == cname] + [res(v_) for v_ in env.values() if isinstance(v_, ast.Subscript) and norm(v_.value) == cname]
        uses_ok = any(t.replace("(", "").replace(")", "") == row for t in src_all)
        look = [c for c in walk_own(pl0) if isinstance(c, ast.Call) and norm(c.func) == "getattr" and len(c.args) == 2]
        ok_get = len(look) == 1 and res(look[0].args[0]) == f"self[{prev}[1:]]" and res(look[0].args[1]).replace("(", "").replace(")", "") == row + "[0]"
        # the filter: (current id, far side of the row) against (entry[0], entry[1]) of the adjacency entries iterated
        evars = set()
        for n_ in walk_own(pl0):
            if isinstance(n_, (ast.For, ast.comprehension)) and look and (any(x is look[0] for x in ast.walk(n_.iter)) or res(n_.iter) == res(look[0])):
                evars.add(norm(n_.target))
        for c in walk_own(pl0):
            eqs = []
            conj = c.values if isinstance(c, ast.BoolOp) and isinstance(c.op, ast.And) else [c]
            for q in conj:
                if isinstance(q, ast.Compare) and len(q.ops) == 1 and isinstance(q.ops[0], ast.Eq):
                    l_, r_ = res_node(q.left), res_node(q.comparators[0])
                    if isinstance(l_, ast.Tuple) and isinstance(r_, ast.Tuple) and len(l_.elts) == len(r_.elts):
                        eqs += [(res(a), res(b)) for a, b in zip(l_.elts, r_.elts)]
                    else:
                        eqs.append((res(l_), res(r_)))
            eqs = [tuple(t.replace("(", "").replace(")", "") for t in pr) for pr in eqs]
            for ev_ in evars:
                want = {frozenset((f"{ev_}[0]", f"{cur}[1:]")), frozenset((f"{ev_}[1]", row + "[1]"))}
                if any(t.startswith(f"{ev_}[") for pr in eqs for t in pr):
                    cmp_seen = True
                if want <= {frozenset(pr) for pr in eqs}:
                    cmp_ok = True
    if not (uses_ok and ok_get and cmp_ok):
        missing = [w for w, have in (("a subscript of the step table", bool(src_all)), ("the getattr look-up of the adjacency set", len(look) == 1), ("an equality test on the entries of that set", cmp_seen)) if not have]
        if missing and pair_loops:
            # the step is checked through a helper of the node class that looks at neighbour ids only
            for c_ in walk_own(pair_loops[0]):
                if isinstance(c_, ast.Call) and isinstance(c_.func, ast.Attribute):
                    h_ = repo.find_func("gaftools.gfa", f"Node.{c_.func.attr}")
                    if h_ is None:
                        continue
                    reads_sides = any(isinstance(x, ast.Attribute) and norm(x) in ("self.start", "self.end") for x in ast.walk(h_.node))
                    reads_far = any(isinstance(x, ast.Subscript) and const_value(x.slice, None) == 1 for x in ast.walk(h_.node))
                    if reads_sides and not reads_far:
                        ctx.violated("R14.1", pe.where(c_), f"the step is accepted through `{norm(c_)[:60]}`, which only asks whether the other node's id occurs on that side and never compares the far side stored with the entry: with two links between the same nodes on different sides (`L a + b +` and `L b + a +`) or a self-link, a step that follows no single link (`>a<b`) is accepted and spelled", key_of(pe, f"walk-by-id-only:{c_.func.attr}"))
                        return
        if pair_loops:
            # a second look-up that accepts the step when the other node's id alone is found among the entries of a side
            for lp_ in walk_own(pair_loops[0]):
                if isinstance(lp_, ast.For) and isinstance(lp_.target, ast.Name) and any(isinstance(x, ast.Call) and norm(x.func) == "getattr" for x in ast.walk(lp_.iter)):
                    ev_ = lp_.target.id
                    for iff in [y for b in lp_.body for y in ast.walk(b) if isinstance(y, ast.If)]:
                        idx = {const_value(x.slice, None) for x in ast.walk(iff.test) if isinstance(x, ast.Subscript) and norm(x.value) == ev_}
                        accepts = any((isinstance(y, ast.Assign) and const_value(y.value, None) is True) or (isinstance(y, ast.Return) and const_value(y.value, None) is True) for b in iff.body for y in ast.walk(b))
                        if idx == {0} and accepts:
                            ctx.violated("R14.1", pe.where(iff), f"a step is accepted when `{norm(iff.test)[:50]}`: only the id stored with the adjacency entry is compared, not the side at which the link enters the other node, so a step that follows no link in that orientation (`<a>b` when only `L a + b +` exists) is accepted and spelled", key_of(pe, f"walk-by-id-only:{norm(iff.test)[:30]}"))
                            return
        if missing:
            raise AnalysisError("R14.1", pe.where(), "the walk check is not in a recognised form (cannot find " + ", ".join(missing) + "): how the table row is selected and used is not decided")
    ctx.check(uses_ok and ok_get and cmp_ok, "R14.1", pe.where(), "the table row is selected by the orientation characters of the two steps; the set of the previous node named by the row is searched for (next node id, far side of the row)", key_of(pe, f"table-use:{uses_ok}:{ok_get}:{cmp_ok}"))
    # every consecutive pair is checked
    rng = [l for l in pe.node.body if isinstance(l, ast.For) and isinstance(l.iter, ast.Call) and norm(l.iter.func) == "range"]
    ok_rng = bool(rng) and [norm(a) for a in rng[0].iter.args] in (["1", f"len({pe.params[1]})"], [f"len({pe.params[1]}) - 1"], ["0", f"len({pe.params[1]}) - 1"])
    zips = [l for l in pe.node.body if isinstance(l, ast.For) and isinstance(l.iter, ast.Call) and norm(l.iter.func) == "zip" and [norm(a) for a in l.iter.args] == [pe.params[1], f"{pe.params[1]}[1:]"]]
    if zips and not rng:
        ok_rng, rng = True, zips  # for a, b in zip(path, path[1:]): all consecutive pairs
    if not rng:
        raise AnalysisError("R14.1", pe.where(), "cannot find the loop over the consecutive pairs of steps (range(1, len(path)) / zip(path, path[1:]))")
    ctx.check(ok_rng, "R14.1", pe.where(), "every consecutive pair of steps is checked (range(1, len(path)))", key_of(pe, "pair-range"))
    # per pair: the pair is rejected unless a matching link is found *for this pair*
    if rng:
        pl = rng[0]
        pp = enum_paths(pl.body, expand_loop=lambda n: True, rule="R14.1", where=pe.where(pl))
        badp = None
        for p in pp:
            # the decision variable: tested right before a `return False` on some path
            tests = [(e.node, e.pol) for e in p.events if e.kind == "test"]
            if p.term == "return" and const_value(p.term_node.value, "?") is False:
                continue
            if p.term in ("fall", "continue"):
                # accepted pair: the flag that lets it pass must have been (re)set to False and then to True in this iteration,
                # or the acceptance must come from the comparison itself
                flags_true = [e for e in p.events if e.kind == "stmt" and isinstance(e.node, ast.Assign) and const_value(e.node.value, 0) is True]
                flags_false = [e for e in p.events if e.kind == "stmt" and isinstance(e.node, ast.Assign) and const_value(e.node.value, 1) is False]
                def _truthy_match(e):
                    if e.kind != "test":
                        return False
                    t_, pol_ = e.node, e.pol
                    while isinstance(t_, ast.UnaryOp) and isinstance(t_.op, ast.Not):
                        t_, pol_ = t_.operand, not pol_
                    if isinstance(t_, ast.Call) and isinstance(t_.func, ast.Name) and t_.func.id in ("len", "bool", "any", "list") and t_.args:
                        pass
                    txt = res(t_) if pair_loops else norm(t_)
                    return bool(pol_) and "[0]" in txt and "[1]" in txt and "==" in txt

                matched = any(_truthy_match(e) for e in p.events)
                if not matched:
                    badp = (p, "a pair of steps is accepted on a path on which no link of this pair matched")
                    break
                for ft in flags_true:
                    nm = norm(ft.node.targets[0])
                    if not any(norm(ff.node.targets[0]) == nm and p.events.index(ff) < p.events.index(ft) for ff in flags_false):
                        badp = (p, f"the flag `{nm}` that accepts a pair is not reset for each pair: once one pair matched, every later pair is accepted")
                        break
        ctx.check(badp is None, "R14.1", pe.where(pl), "each consecutive pair is accepted only if a link matching *that* pair was found (the per-pair flag is reset for every pair)", key_of(pe, f"per-pair:{badp[1] if badp else ''}"), paths=len(pp), **({"path": badp[0].show(), "why": badp[1]} if badp else {}))
    # result: False as soon as one pair has no link, True otherwise
    rets = [r for r in walk_own(pe.node) if isinstance(r, ast.Return)]
    vals = [const_value(r.value, "?") for r in rets]
    ctx.check(vals.count(True) == 1 and isinstance(pe.node.body[-1], ast.Return) and const_value(pe.node.body[-1].value) is True and all(v in (True, False) for v in vals), "R14.1", pe.where(), "the walk check returns True only after all pairs passed", key_of(pe, f"returns:{vals}"))
    # mirror symmetry of E_DIR under walk reversal
    badm = None
    for (o1, o2), (a, b) in g.edir.items():
        m = g.edir.get((gc.flip(o2), gc.flip(o1)))
        if m != (b, a):
            badm = {"link": (o1, o2), "sides": (a, b), "reversed_link": (gc.flip(o2), gc.flip(o1)), "sides_of_reversed": m}
    inj = len(set(g.edir.values())) == 4
    sides = {o: {v[0] for k, v in g.edir.items() if k[0] == o} for o in "+-"}
    far = {o: {v[1] for k, v in g.edir.items() if k[1] == o} for o in "+-"}
    consistent = all(len(s) == 1 for s in sides.values()) and all(len(s) == 1 for s in far.values()) and sides["+"] != sides["-"] and far["+"] != far["-"] and sides["+"] == {1} and far["+"] == {0}
    ctx.check(badm is None and inj and consistent, "R14.1", f"{g.mod.relpath}:{g.edir_node.lineno} {g.edir_name}", "the link-orientation table is injective, leaves a '+' node by its end and enters a '+' node by its start, and is mirror-symmetric under walk reversal (so <c>b<a is a walk exactly when >a<b>c is)", f"gaftools.gfa.{g.edir_name}::mirror:{badm}", table={f"{k[0]}{k[1]}": v for k, v in g.edir.items()}, **({"witness": badm} if badm else {}))
    # add_edge translates orientations through E_DIR
    ae = g.add_edge
    tr = [st for st in walk_own(ae.node) if isinstance(st, ast.Assign) and isinstance(st.value, ast.Subscript) and norm(st.value.value) == g.edir_name]
    ok = len(tr) == 1 and isinstance(tr[0].targets[0], ast.Tuple) and len(tr[0].targets[0].elts) == 2 and all(isinstance(e, ast.Name) for e in tr[0].targets[0].elts) and norm(tr[0].value.slice).replace("(", "").replace(")", "") == f"{ae.params[2]}, {ae.params[4]}"
    if ok:
        # the first translated side is the one that selects node1's adjacency set, the second node2's
        s1, s2 = [e.id for e in tr[0].targets[0].elts]
        n1, n2 = ae.params[1], ae.params[3]
        for vp in gc.endpoint_mutations(ctx, ae, "add"):
            for recv, meth, _args in vp.muts:
                who = n1 if n1 in recv and n2 not in recv else (n2 if n2 in recv else None)
                side_var = s1 if who == n1 else s2
                at_start = meth.endswith("_start")
                decided = [(t, pol) for t, pol in vp.tests if t in (f"{side_var} == 0", f"{side_var} == 1")]
                other = [(t, pol) for t, pol in vp.tests if t in (f"{s2 if side_var == s1 else s1} == 0", f"{s2 if side_var == s1 else s1} == 1")]
                if who is None:
                    continue
                if not decided:
                    ok = False
                for t, pol in decided:
                    if (t.endswith("== 0")) == pol:
                        ok = ok and at_start
                    else:
                        ok = ok and not at_start
    ctx.check(ok, "R14.1", ae.where(), "add_edge converts (orientation of node1, orientation of node2) to sides through the table, in that order", key_of(ae, f"edir-use:{[norm(t) for t in tr]}"))


def r14_2_3(ctx, g):
    repo = ctx.repo
    ep = repo.func("gaftools.gfa", "GFA.extract_path", "R14.2")
    ctx.analysed_func(ep)
    if any(isinstance(c, ast.Call) and isinstance(c.func, ast.Attribute) and c.func.attr == "get" for c in walk_own(ep.node)) or any(isinstance(s_, ast.Assign) and isinstance(s_.value, ast.Dict) for s_ in walk_own(ep.node)):
        # a look-up table of per-orientation readers (`{">": as_is, "<": rev_comp}.get(n[0])`): the case analysis it abbreviates
        from ..core import expand_table_dispatch, fold_consts, inline_callable_aliases, inline_identity_calls

        ep = fold_consts(inline_identity_calls(repo, inline_callable_aliases(expand_table_dispatch(ep))))
    loops = [l for l in ep.node.body if isinstance(l, ast.For)]
    if not loops:
        raise AnalysisError("R14.2", ep.where(), "no concatenation loop")
    loop = loops[-1]
    n = norm(loop.target)
    # do the steps iterated come from a tokeniser whose every match starts with '>' or '<'?
    from .. import relang
    from ..core import regex_call

    two_signs_only = False
    for st in ep.node.body:
        if isinstance(st, ast.Assign) and norm(st.targets[0]) == norm(loop.iter):
            rc_ = regex_call(ep.module, st.value) if isinstance(st.value, ast.Call) else None
            if rc_ is not None and rc_[0] == "findall":
                items = relang.flatten(relang.parse(rc_[1]))
                two_signs_only = bool(items) and items[0][0] == "char" and set(items[0][1]) == {ord(">"), ord("<")}
    paths = enum_paths(loop.body, rule="R14.2", where=ep.where(loop))
    bad = None
    seen = set()
    from ..core import make_resolver

    res_ = make_resolver(loop.body)  # temporaries of the step loop (node_id = n[1:]) are looked through
    for p in paths:
        apps = [e.node.value for e in p.events if e.kind == "stmt" and isinstance(e.node, ast.Expr) and isinstance(e.node.value, ast.Call) and isinstance(e.node.value.func, ast.Attribute) and e.node.value.func.attr == "append"]
        ctests = [canon_test(res_(t), pol) for t, pol in p.tests()]  # tests read through the loop's temporaries (orient = n[0])
        fwd = any(ct in ((f"{n}.startswith('>')", True), (f"{n}[0] == '>'", True)) for ct in ctests)
        rev = any(ct in ((f"{n}.startswith('<')", True), (f"{n}[0] == '<'", True)) for ct in ctests)
        if p.term == "return":
            if const_value(p.term_node.value, "?") != "":
                bad = (p, f"early return of `{norm(p.term_node.value)}` instead of the empty sequence")
            continue
        if len(apps) != 1:
            bad = (p, f"{len(apps)} pieces appended for one step")
            break
        a = norm(res_(apps[0].args[0]))
        not_fwd = any(ct in ((f"{n}.startswith('>')", False), (f"{n}[0] == '>'", False)) for ct in ctests)
        not_rev = any(ct in ((f"{n}.startswith('<')", False), (f"{n}[0] == '<'", False)) for ct in ctests)
        if two_signs_only and not fwd and not rev:
            # every step starts with '>' or '<' (the tokeniser's pattern): ruling one out establishes the other
            if not_fwd and not not_rev:
                rev = True
            elif not_rev and not not_fwd:
                fwd = True
        if fwd and not rev:
            seen.add(">")
            if a != f"self.nodes[{n}[1:]].seq" and a != f"self[{n}[1:]].seq":
                bad = (p, f"'>' step appends `{a}`")
        elif rev:
            seen.add("<")
            ok = isinstance(apps[0].args[0], ast.Call) and repo.resolve_call(ep, apps[0].args[0]) is not None and (repo.resolve_call(ep, apps[0].args[0]).name == "rev_comp" or _is_revcomp(repo, repo.resolve_call(ep, apps[0].args[0]))) and norm(res_(apps[0].args[0].args[0])) in (f"self.nodes[{n}[1:]].seq", f"self[{n}[1:]].seq")
            if not ok:
                bad = (p, f"'<' step appends `{a}`")
        else:
            piece = apps[0].args[0]
            if isinstance(piece, ast.Call) and isinstance(piece.func, ast.Name) and repo.resolve_call(ep, piece) is None and piece.func.id not in ("str", "len"):
                raise AnalysisError("R14.2", ep.where(loop), f"the piece appended is computed by `{piece.func.id}`, a callable chosen at run time: which orientation it serves is not traced")
            bad = (p, "a piece is appended without the step's orientation being examined")
    ctx.check(bad is None and seen == {">", "<"}, "R14.2", ep.where(loop), "each step appends exactly one piece: the node's sequence for '>', rev_comp of it for '<'", key_of(ep, f"spelling:{bad[1] if bad else ''}"), **({"path": bad[0].show(), "why": bad[1]} if bad else {}))
    # complement table
    um = repo.module("gaftools.utils", "R14.2")
    # by role: the translation table is the module-level str.maketrans(...) of the utilities; the reverse-complement function is
    # the one-parameter function of that module that translates its argument with it (whatever the two are called)
    tabs = [k_ for k_, v_ in um.consts.items() if isinstance(v_, ast.Call) and norm(v_.func) == "str.maketrans"]
    tname = "complement" if "complement" in tabs else (tabs[0] if len(tabs) == 1 else "complement")
    rc = um.funcs.get("rev_comp")
    if rc is None:
        cands_ = [f_ for f_ in um.funcs.values() if f_.cls is None and len(f_.params) == 1 and any(isinstance(c_, ast.Call) and isinstance(c_.func, ast.Attribute) and c_.func.attr == "translate" and c_.args and norm(c_.args[0]) == tname for c_ in walk_own(f_.node))]
        if len(cands_) != 1:
            raise AnalysisError("R14.2", um.relpath, "function rev_comp not found (anchor vanished)")
        rc = cands_[0]
    ctx.analysed_func(rc)
    comp = um.consts.get(tname)
    ok_tab = False
    pairs = {}
    if isinstance(comp, ast.Call) and norm(comp.func) == "str.maketrans" and len(comp.args) == 2:
        a, b = const_value(comp.args[0]), const_value(comp.args[1])
        if isinstance(a, str) and isinstance(b, str) and len(a) == len(b):
            pairs = dict(zip(a, b))
            ok_tab = all(pairs.get(pairs[x]) == x for x in pairs) and pairs.get("A") == "T" and pairs.get("C") == "G" and set(pairs) >= set("ACGT")
    ctx.check(ok_tab, "R14.2", um.relpath, "the complement table is an involution pairing A-T and C-G", f"gaftools.utils::complement:{sorted(pairs.items())}", table=pairs)
    from ..core import resolve_expr

    ret = [r for r in walk_own(rc.node) if isinstance(r, ast.Return)]
    src = resolve_expr(rc.node, ret[0].value) if ret else ""
    p0 = rc.params[0]
    ok_rc = src in (f"{p0}[::-1].translate({tname})", f"{p0}.translate({tname})[::-1]")
    ctx.check(ok_rc, "R14.2", rc.where(), "rev_comp reverses the sequence and complements every base", key_of(rc, f"rev_comp:{src}"), expr=src)
    # R14.3: returns and dominance
    rets = [r for r in walk_own(ep.node) if isinstance(r, ast.Return)]
    final = ep.node.body[-1]
    early = [r for r in rets if r is not final]
    ok_early = all(const_value(r.value, "?") == "" for r in early)
    ok_final = isinstance(final, ast.Return) and norm(final.value).startswith("''.join(")
    ctx.check(ok_early and ok_final, "R14.3", ep.where(), "every return other than the final join is the empty string", key_of(ep, f"early-returns:{[norm(r.value) for r in early]}"))
    # the walk check precedes the loop and returns "" on failure
    chk = [st for st in ep.node.body if isinstance(st, ast.If) and "path_exists" in norm(st.test)]
    ok_dom = len(chk) == 1 and ep.node.body.index(chk[0]) < ep.node.body.index(loop) and canon_test(chk[0].test, True)[1] is False and isinstance(chk[0].body[-1], ast.Return) and const_value(chk[0].body[-1].value, "?") == ""
    ctx.check(ok_dom, "R14.3", ep.where(), "the walk check dominates the concatenation: a path that is not a walk returns the empty sequence before anything is spelled", key_of(ep, "walk-check-dominates"))
    # tokenisation
    # tokenisation: R14.5 (shared.path_tokenisers) decides it on the parsed regular expression


def _is_revcomp(repo, fn):
    """the reverse-complement function of the utilities by role: one parameter, returns it reversed and translated"""
    if fn is None or fn.module.name != "gaftools.utils" or len(fn.params) != 1:
        return False
    return any(isinstance(c_, ast.Call) and isinstance(c_.func, ast.Attribute) and c_.func.attr == "translate" for c_ in walk_own(fn.node)) and "[::-1]" in norm(fn.node)


def r14_4(ctx):
    """find_path: one output record per requested path, in input order, each carrying the sequence of its own path.
    Decided on the normal form of the entry function (helpers inlined, namedtuple records read as tuples): (a) every line of
    a path file adds exactly one (path, sequence) pair — as two parallel lists or as one list of pairs — where the sequence
    is extract_path of that same path; (b) every output loop walks those pairs in order and prints, per pair, the sequence,
    preceded under --fasta by the header `>seq_<path>`."""
    from ..core import detuple, desugar_ifexp, normal, resolve_expr
    from .c09 import guards_of

    repo = ctx.repo
    mod = repo.module("gaftools.cli.find_path", "R14.4")
    run = None
    for f0 in mod.funcs.values():
        f = detuple(repo, normal(repo, f0))
        if any(isinstance(c, ast.Call) and isinstance(c.func, ast.Attribute) and c.func.attr == "extract_path" for c in walk_own(f.node)) and not repo.callers_of(f0):
            run = f
    if run is None:
        for f0 in mod.funcs.values():
            f = detuple(repo, normal(repo, f0))
            if any(isinstance(c, ast.Call) and isinstance(c.func, ast.Attribute) and c.func.attr == "extract_path" for c in walk_own(f.node)):
                run = f
    if run is None:
        raise AnalysisError("R14.4", mod.relpath, "find_path does not call extract_path")
    ctx.analysed_func(run)

    def is_extract(e):
        return isinstance(e, ast.Call) and isinstance(e.func, ast.Attribute) and e.func.attr == "extract_path" and e.args

    # ---- (a) the input loop
    rd = [l for l in walk_own(run.node) if isinstance(l, ast.For) and any(is_extract(c) for c in ast.walk(l)) and not any(isinstance(c, ast.Call) and isinstance(c.func, ast.Name) and c.func.id == "print" for c in ast.walk(l))]
    if not rd:
        # comprehension spelling: paths = [line.strip() for line in reader]; seqs = [g.extract_path(p) for p in paths]
        comps = [st for st in walk_own(run.node) if isinstance(st, ast.Assign) and isinstance(st.value, ast.ListComp) and is_extract(st.value.elt) and len(st.value.generators) == 1]
        for st in comps:
            g_ = st.value.generators[0]
            src = g_.iter
            plain = isinstance(src, ast.Name) and norm(st.value.elt.args[0]) == norm(g_.target) and not g_.ifs
            if plain:
                ctx.holds("R14.4", run.where(st), f"one sequence per path: the sequences are computed over the path list `{src.id}` itself, element by element")
                # where the path list comes from: every line of the file, also a last line without a newline
                for d in [x.value for x in walk_own(run.node) if isinstance(x, ast.Assign) and norm(x.targets[0]) == src.id and isinstance(x.value, ast.ListComp) and len(x.value.generators) == 1]:
                    lines = d.generators[0].iter
                    t = norm(lines)
                    if isinstance(lines, ast.Subscript) and isinstance(lines.slice, ast.Slice) and norm(lines.slice) in (":-1", "0:-1") and ".read().split(" in t:
                        ctx.violated("R14.4", run.where(st), f"the paths are taken from `{t}`: the last piece is dropped on the assumption that the file ends with a newline, so the last path of a file without a final newline is lost", key_of(run, f"lines-drop-last:{t[:50]}"))
            elif isinstance(src, ast.Call) and any(isinstance(a, ast.Name) for a in src.args) and norm(src.func) in ("dict.fromkeys", "set", "sorted", "frozenset", "reversed", "list", "tuple") and norm(src.func) not in ("list", "tuple"):
                ctx.violated("R14.4", run.where(st), f"the sequences are computed over `{norm(src)}`, not over the path list itself: repeated (or reordered) paths make the list of sequences shorter / differently ordered than the list of paths they are paired with", key_of(run, f"seqs-over-copy:{norm(src)[:50]}"))
            elif g_.ifs:
                ctx.violated("R14.4", run.where(st), "paths are filtered before their sequence is extracted: the sequences no longer line up with the paths", key_of(run, "seqs-filtered"))
        # a mapping keyed by the path text: repeated lines of the input collapse into one entry
        for st in walk_own(run.node):
            if isinstance(st, ast.Assign) and isinstance(st.value, (ast.DictComp, ast.SetComp)) and len(st.value.generators) == 1 and any(is_extract(c) for c in ast.walk(st.value)):
                g_ = st.value.generators[0]
                keyed_by_item = isinstance(st.value, ast.SetComp) or norm(st.value.key) == norm(g_.target)
                if keyed_by_item:
                    ctx.violated("R14.4", run.where(st), f"the sequences are kept in `{norm(st.targets[0])}`, a {'set' if isinstance(st.value, ast.SetComp) else 'dict keyed by the path text'}: a path that is listed twice in the input has one entry, so fewer records are written than paths were given", key_of(run, f"seqs-keyed-by-path:{norm(st.targets[0])}"))
    ctx.require_count("R14.4", len(rd), 1, run.where(), "loop over the lines of the path file")
    loop = rd[0]
    lv = norm(loop.target)
    stripped_iter = isinstance(loop.iter, ast.Call) and norm(loop.iter.func) == "map" and loop.iter.args and norm(loop.iter.args[0]) in ("str.strip",)
    path_texts = {lv} if stripped_iter else {f"{lv}.strip()"}
    paths = enum_paths(loop.body, rule="R14.4", where=run.where(loop))
    bad = None
    lists = {}  # list name -> "path" | "seq" | "pair"
    for p in paths:
        apps = []
        local = {}
        for e in p.events:
            if e.kind != "stmt":
                continue
            st = e.node
            if isinstance(st, ast.Assign) and len(st.targets) == 1 and isinstance(st.targets[0], ast.Name):
                local[st.targets[0].id] = st.value
            if isinstance(st, ast.Expr) and isinstance(st.value, ast.Call) and isinstance(st.value.func, ast.Attribute) and st.value.func.attr == "append" and st.value.args:
                apps.append((norm(st.value.func.value), st.value.args[0]))
        if p.term not in ("fall", "continue"):
            bad = (p, f"the loop over the path file ends with {p.term} for some line")
            break

        def res(e, depth=0):
            if isinstance(e, ast.Name) and e.id in local and depth < 3:
                return res(local[e.id], depth + 1)
            return e

        last_path_list = None
        per = {}
        for lname, arg in apps:
            a = res(arg)
            kind = None
            if isinstance(a, ast.Tuple) and len(a.elts) == 2:
                p0, s0 = res(a.elts[0]), res(a.elts[1])
                if norm(p0) in path_texts and is_extract(s0) and norm(res(s0.args[0])) in path_texts:
                    kind = "pair"
                else:
                    bad = (p, f"a (path, sequence) pair `{norm(a)[:70]}` does not pair the line's path with the sequence extracted for that same path")
            elif norm(a) in path_texts:
                kind, last_path_list = "path", lname
            elif is_extract(a):
                src = norm(res(a.args[0]))
                if src in path_texts or (last_path_list is not None and src == f"{last_path_list}[-1]"):
                    kind = "seq"
                else:
                    bad = (p, f"the sequence appended is extract_path({src}), not that of the path read from the current line")
            else:
                bad = (p, f"`{lname}.append({norm(arg)[:50]})` is neither the path of the line nor its sequence")
            if kind:
                per[lname] = per.get(lname, 0) + 1
                lists[lname] = kind
        if bad:
            break
        if not per or any(v != 1 for v in per.values()) or (set(lists.values()) != {"pair"} and set(lists.values()) != {"path", "seq"}) or set(per) != set(lists):
            bad = (p, f"appends per line: {per} (every line must add exactly one path and one sequence)")
            break
    ctx.check(bad is None, "R14.4", run.where(loop), "every line of the path file adds exactly one path and the sequence extracted for that same path (no line skipped or merged)", key_of(run, f"per-line:{bad[1] if bad else ''}"), **({"path": bad[0].show(), "why": bad[1]} if bad else {}))
    if bad is not None:
        return
    # ---- (a') between reading the paths and writing the records the command does not leave: a `return` there (no path could
    # be spelled, nothing to report) means that for some inputs no record is written at all
    from .c09 import guards_of as _gof14

    for r_ in walk_own(run.node):
        if isinstance(r_, ast.Return) and run.before(loop, r_) and not any(y_ is r_ for y_ in ast.walk(loop)):
            later_out = [l_ for l_ in walk_own(run.node) if isinstance(l_, ast.For) and l_ is not loop and run.before(r_, l_) and any(isinstance(c_, ast.Call) and ((isinstance(c_.func, ast.Name) and c_.func.id == "print") or (isinstance(c_.func, ast.Attribute) and c_.func.attr == "write")) for c_ in ast.walk(l_))]
            if later_out:
                gs_ = [norm(t_) for t_, _p in _gof14(run.node, r_)]
                ctx.violated("R14.4", run.where(r_), "find_path returns before its output loops" + (f" when `{gs_[0][:50]}`" if gs_ else "") + ": for those inputs no record is written — a path that is not a walk still gets its (empty) record, in its place, so that record i belongs to path i", key_of(run, f"return-before-output:{gs_[0][:40] if gs_ else ''}"))
    # ---- (b) the output loops
    plist = next((k for k, v in lists.items() if v == "path"), None)
    slist = next((k for k, v in lists.items() if v == "seq"), None)
    rlist = next((k for k, v in lists.items() if v == "pair"), None)
    outs = []
    for l in walk_own(run.node):
        if not isinstance(l, ast.For) or l is loop:
            continue
        it = l.iter
        names = None
        if rlist is None and isinstance(it, ast.Call) and norm(it.func) == "zip" and [norm(a) for a in it.args] == [plist, slist] and isinstance(l.target, ast.Tuple) and len(l.target.elts) == 2:
            names = (norm(l.target.elts[0]), norm(l.target.elts[1]))
        elif rlist is not None and norm(it) == rlist:
            if isinstance(l.target, ast.Tuple) and len(l.target.elts) == 2:
                names = (norm(l.target.elts[0]), norm(l.target.elts[1]))
            else:
                names = (f"{norm(l.target)}[0]", f"{norm(l.target)}[1]")
        elif rlist is None and norm(it) == slist and isinstance(l.target, ast.Name):
            names = (None, norm(l.target))  # the sequences alone (a plain listing needs no path names)
        if names is not None:
            outs.append((l, names))
    ctx.require_count("R14.4", len(outs), 1, run.where(), "output loops over the (path, sequence) pairs")
    fasta_param = next((p_ for p_ in run.params if "fasta" in p_), None)
    seen_modes = set()
    badp = None
    for l, (pn, sn) in outs:
        outer = {canon_test(t, pol) for t, pol in guards_of(run.node, l)}
        for p in enum_paths(l.body, rule="R14.4", where=run.where(l)):
            tests = outer | {canon_test(t, pol) for t, pol in p.tests()}
            mode = None
            if fasta_param is not None:
                if (fasta_param, True) in tests:
                    mode = True
                elif (fasta_param, False) in tests:
                    mode = False
            prints = [e.node.value.args[0] for e in p.events if e.kind == "stmt" and isinstance(e.node, ast.Expr) and isinstance(e.node.value, ast.Call) and isinstance(e.node.value.func, ast.Name) and e.node.value.func.id == "print" and e.node.value.args]
            if p.term not in ("fall", "continue"):
                badp = (p, "the output loop is left early")
                break
            shown = [norm(x) for x in prints]
            if isinstance(l.target, ast.Name):
                # a record that is a module-level namedtuple: `rec.field` reads `rec[position]`
                import re as _re
                from ..core import namedtuple_tables

                tables, _ = namedtuple_tables(ctx.repo)
                for fields in tables.get(run.module.name, {}).values():
                    if any(_re.search(rf"\b{l.target.id}\.{fld}\b", t_) for t_ in shown for fld in fields):
                        for i_, fld in enumerate(fields):
                            shown = [_re.sub(rf"\b{l.target.id}\.{fld}\b", f"{l.target.id}[{i_}]", t_) for t_ in shown]
            if mode is None:
                raise AnalysisError("R14.4", run.where(l), "cannot tell whether an output path is the FASTA or the plain one")
            seen_modes.add(mode)
            if mode and pn is None:
                badp = (p, "FASTA output is written from the sequences alone: the header cannot name the path")
                break
            want = [f"f'>seq_{{{pn}}}'", sn] if mode else [sn]
            if shown != want:
                badp = (p, f"{'--fasta' if mode else 'plain'} output prints {shown} per path, expected {want}")
                break
        if badp:
            break
    ctx.check(badp is None and seen_modes == {True, False}, "R14.4", run.where(), "one output record per path, in input order (with --fasta a header line named after the path plus the sequence)", key_of(run, f"outputs:{badp[1] if badp else sorted(seen_modes)}"), **({"path": badp[0].show(), "why": badp[1]} if badp else {}))
