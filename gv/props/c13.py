"""C13 — realign aborts with an error when a worker dies.

R13.1  no unbounded wait: every read of the result queue has a finite positive timeout; join() only
       after the collection loop
R13.2  dead-worker path exits non-zero: in the queue.Empty handler, when no worker is alive and some
       exit code is non-zero, every path reaches sys.exit(c) with c != 0 (or an uncaught raise);
       the two helper predicates are existential over is_alive / universal over exitcode == 0
R13.3  success needs every sentinel: the loop's only normal exit is the sentinel count (with R11.1 a
       sentinel cannot be counted twice)
R13.4  a worker that dies after delivering everything is still noticed: between the joins and the
       write of the results the exit codes are tested and a non-zero code exits non-zero
"""

from __future__ import annotations

import ast

from ..core import AnalysisError, const_value, norm, walk_own, walk_stmts, names_in
from ..paths import enum_paths, is_exit_stmt
from . import realign_common as rc
from . import c11
from .common import key_of

META = {
    "explanation": "Static decision of the abort-on-worker-death behaviour of gaftools realign: all control-flow paths of the queue.Empty "
    "handler of each collection loop are enumerated and classified by the liveness / exit-code predicates they evaluated (the helper "
    "predicates themselves are classified from their loop shape: existential over is_alive(), universal over exitcode == 0); on the "
    "path 'nobody alive and some exit code non-zero' every continuation must reach sys.exit(non-zero) or a raise; every blocking call "
    "before the loop's sentinel-count exit must be a get() with a finite positive timeout; exit codes must be tested again between "
    "join() and the write of the results.  Fault points and schedules are covered because the rules quantify over paths, not runs.",
    "technique": "static analysis: path enumeration of exception handlers, predicate classification of helper loops, must-reach sys.exit(non-zero), who-may-block",
}


def check(ctx):
    m = rc.build(ctx, "R13")
    pf = m.parent
    ctx.require_count("R13.1", len(m.loops), 1, pf.where(), "collection loops")
    ctx.run(check_helpers, m)
    for L in m.loops:
        r13_1(ctx, m, L)
        r13_2(ctx, m, L)
        r13_3(ctx, m, L)
        r13_4(ctx, m, L)
    ctx.run(r13_5, m, _independent=True)
    ctx.run(r13_6, m, _independent=True)
    # helpers
    ctx.not_decided += [
        "a worker dying while it holds the result queue's internal write lock (the surviving workers then block inside multiprocessing)",
        "that the operating system reports the death through Process.exitcode / is_alive (trusted)",
    ]
    # mechanisms this property rests on (see shared.py): a change there is reported here as well
    from . import shared as _sh

    ctx.run_shared(_sh.cli_layer, "gaftools.cli.realign")


def r13_1(ctx, m, L):
    pf = m.parent
    for g in L.gets:
        to = [k.value for k in g.keywords if k.arg == "timeout"]
        blockkw = [k.value for k in g.keywords if k.arg == "block"]
        v = None
        if to:
            v = const_value(to[0], "?")
        elif len(g.args) >= 2:
            v = const_value(g.args[1], "?")
        nowait = g.func.attr == "get_nowait" or (blockkw and const_value(blockkw[0]) is False) or (g.args and const_value(g.args[0]) is False)
        ok = nowait or (isinstance(v, (int, float)) and not isinstance(v, bool) and v > 0)
        ctx.check(ok, "R13.1", pf.where(g), "every read of the result queue has a finite positive timeout", key_of(pf, f"get-timeout:{norm(g)}"), call=norm(g), timeout=v)
    # no blocking call inside the loop other than the timed get: join / wait / sleep-less spin are reported
    blocking = []
    for n in ast.walk(L.node):
        if isinstance(n, ast.Call) and isinstance(n.func, ast.Attribute) and n.func.attr in ("join", "wait", "recv", "acquire") and not isinstance(n.func.value, ast.Constant):
            blocking.append(norm(n))
    ctx.check(not blocking, "R13.1", L.where(), "no other blocking call (join/wait/recv) inside the collection loop", key_of(pf, "blocking-in-loop:" + ";".join(blocking)), found=blocking)
    # joins of the group's processes come after the loop, not before it (a join before collection can dead-lock on a full pipe)
    block, idx = c11._block_of(pf.node, L.node)
    before = block[:idx]
    joins_before = [norm(n) for st in before for n in ast.walk(st) if isinstance(n, ast.Call) and isinstance(n.func, ast.Attribute) and n.func.attr == "join" and not isinstance(n.func.value, ast.Constant)]
    ctx.check(not joins_before, "R13.1", L.where(), "processes are not joined before their results have been collected", key_of(pf, "join-before-collect"), found=joins_before)


def _handler_paths(L):
    """Paths of one iteration that enter an exception handler of the timed get."""
    return [p for p in L.paths if any(e.kind == "exc" and e.node is L.get_stmt for e in p.events)]


def r13_2(ctx, m, L):
    pf = m.parent
    repo = ctx.repo
    hp = _handler_paths(L)
    if not hp:
        ctx.violated("R13.2", L.where(), "a timed-out read of the result queue is handled (queue.Empty handler present)", key_of(pf, f"no-empty-handler:{norm(L.node.test)}"))
        return
    # the handler must be for queue.Empty (or broader)
    hnames = set()
    for p in hp:
        for e in p.events:
            if e.kind == "exc":
                hnames.add(norm(e.extra.type) if e.extra.type is not None else "<bare>")
    classified = 0
    dead_nonzero = []
    dead_any = []
    for p in hp:
        facts = {}
        seen_exc = False
        for e in p.events:
            if e.kind == "exc":
                seen_exc = True
            elif e.kind == "test" and seen_exc:
                facts.update(rc.test_facts(repo, pf, e.node, e.pol))
        if facts:
            classified += 1
        if facts.get("alive_any") is False:
            dead_any.append((p, facts))
            if facts.get("exit_all_zero") is False:
                dead_nonzero.append(p)
    what_a = "after a timeout the handler asks whether any worker is still alive (existential liveness predicate)"
    ctx.check(bool(dead_any), "R13.2", L.where(), what_a, key_of(pf, f"liveness-test:{norm(L.node.test)}"), handler_paths=len(hp), handlers=sorted(hnames))
    if not dead_any:
        return
    # on every 'nobody alive' path the exit codes must have been looked at
    untested = [p for p, f in dead_any if "exit_all_zero" not in f]
    ctx.check(not untested, "R13.2", L.where(), "when no worker is alive the exit codes of all workers are tested", key_of(pf, f"exitcode-test:{norm(L.node.test)}"), **({"path": untested[0].show()} if untested else {}))
    bad = None
    for p in dead_nonzero:
        if p.term == "raise":
            continue
        if p.term == "exit" and is_exit_stmt(p.term_node):
            st = rc.exit_status(p.term_node)
            if st is None or st == 0 or st == "" or st is False:
                bad = (p, f"sys.exit with status {st!r} reports success")
            continue
        bad = (p, f"path ends in '{p.term}' instead of a non-zero process exit")
    what = "no worker alive and some exit code non-zero => every path reaches sys.exit(non-zero) or an uncaught raise"
    if not dead_nonzero:
        ctx.violated("R13.2", L.where(), what + " (no such path exists: the dead-worker case is never distinguished)", key_of(pf, f"dead-nonzero-missing:{norm(L.node.test)}"))
    else:
        ctx.check(bad is None, "R13.2", L.where(), what, key_of(pf, f"dead-nonzero-exit:{norm(L.node.test)}:{bad[1] if bad else ''}"), paths=len(dead_nonzero), **({"path": bad[0].show(), "why": bad[1]} if bad else {}))
    # (helper predicates are checked once for the whole parent in check_helpers)


def check_helpers(ctx, m):
    """Every program function applied to the process list in a condition must be a recognised quantifier whose
    per-process condition separates the four abstract process states correctly."""
    pf = m.parent
    repo = ctx.repo
    seen = {}
    # names bound to a part / transformation of a process list (pending = processes[k:], alive = [p for p in processes if ...])
    derived = {}
    for st in walk_own(pf.node):
        if isinstance(st, ast.Assign) and isinstance(st.targets[0], ast.Name) and st.targets[0].id not in m.proc_lists and (names_in(st.value) & m.proc_lists) and not isinstance(st.value, ast.Call) or (isinstance(st, ast.Assign) and isinstance(st.targets[0], ast.Name) and isinstance(st.value, (ast.ListComp, ast.Subscript)) and (names_in(st.value) & m.proc_lists)):
            derived[st.targets[0].id] = norm(st.value)
    for n in walk_own(pf.node):
        arg0 = n.args[0] if isinstance(n, ast.Call) and len(n.args) == 1 else None
        is_subset = arg0 is not None and ((not isinstance(arg0, ast.Name) and (names_in(arg0) & m.proc_lists)) or (isinstance(arg0, ast.Name) and arg0.id in derived))
        if is_subset:
            h = repo.resolve_call(pf, n)
            if h is not None and rc.helper_shape(h) is not None:
                shown = norm(n) + (f" with {arg0.id} = {derived[arg0.id]}" if isinstance(arg0, ast.Name) and arg0.id in derived else "")
                ctx.violated("R13.2", pf.where(n), f"`{shown}` inspects only part of the group's processes: a worker outside that part can die unnoticed (or be the only one still alive)", key_of(pf, f"helper-subset:{shown}"))
                seen.setdefault(h.qualname, True)
                continue
        if isinstance(n, ast.Call) and len(n.args) == 1 and norm(n.args[0]) in m.proc_lists:
            h = repo.resolve_call(pf, n)
            if h is None or h.qualname in seen:
                continue
            seen[h.qualname] = True
            ctx.analysed_func(h)
            hk = rc.helper_kind(repo, pf, n)
            if hk is None:
                verdict = classify_wrong_helper(h)
                if verdict:
                    ctx.violated("R13.2", h.where(), verdict, key_of(h, "helper-shape"))
                    continue
                raise AnalysisError("R13.2", h.where(), "process predicate is not of a recognised quantifier shape (for/if/return or any()/all())")
            if hk["problem"]:
                ctx.violated("R13.2", h.where(), f"process predicate {h.qualname}: " + hk["problem"], key_of(h, "helper-table"), table=hk["table"])
            else:
                ctx.holds("R13.2", h.where(), f"process predicate {h.qualname} evaluated on the abstract process states (alive, exit 0, exit 1, killed by signal): it is `{hk['kind']} == {hk['polarity']}` over the whole list", table=hk["table"])
    ctx.require_count("R13.2", len(seen), 2, pf.where(), "process-list predicates (liveness and exit codes)")


def classify_wrong_helper(h):
    """A helper over the process list whose loop returns in its first iteration on both branches
    (so it looks only at the first process) is a definite violation."""
    body = [st for st in h.node.body if not (isinstance(st, ast.Expr) and isinstance(st.value, ast.Constant))]
    if body and isinstance(body[0], ast.For):
        loop = body[0]
        if len(loop.body) == 1 and isinstance(loop.body[0], ast.If):
            iff = loop.body[0]
            if iff.orelse and all(isinstance(s, ast.Return) for s in iff.body[-1:]) and all(isinstance(s, ast.Return) for s in iff.orelse[-1:]):
                return f"helper {h.qualname} returns during the first iteration on both branches: it inspects only the first process"
        if loop.body and isinstance(loop.body[-1], ast.Return):
            return f"helper {h.qualname} returns unconditionally inside its loop: it inspects only the first process"
    return None


def r13_3(ctx, m, L):
    pf = m.parent
    breaks = [st for st in walk_stmts(L.node.body) if isinstance(st, ast.Break) and not c11._in_inner_loop(L.node, st)]
    rets = [st for st in walk_stmts(L.node.body) if isinstance(st, ast.Return)]
    exits0 = []
    for st in walk_stmts(L.node.body):
        if is_exit_stmt(st):
            s = rc.exit_status(st)
            if s is None or s == 0:
                exits0.append(st)
    ctx.check(not breaks and not rets and not exits0, "R13.3", L.where(), "the collection loop can end successfully only by having counted one sentinel per worker (no break/return/exit(0))", key_of(pf, f"success-exit:{norm(L.node.test)}:{len(breaks)}b{len(rets)}r{len(exits0)}e"), breaks=len(breaks), returns=len(rets), exit0=len(exits0))
    test = L.node.test
    ok = rc.sentinel_guard(m, L) is not None
    ctx.check(ok, "R13.3", L.where(), "loop guard compares the sentinel count with the number of processes", key_of(pf, f"guard:{norm(test)}"), guard=norm(test))


def r13_4(ctx, m, L):
    """Between the joins and the first write of results: `if <some exit code non-zero>: ... sys.exit(non-zero)`."""
    pf = m.parent
    repo = ctx.repo
    block, idx = c11._block_of(pf.node, L.node)
    after = block[idx + 1 :]
    # region: statements after the loop up to (excluding) the first statement that writes output / drains the pq
    region = []
    for st in after:
        src = norm(st)
        if any(f"{pq}.get()" in src for pq in m.pqueues) or ".write(" in src:
            break
        if isinstance(st, ast.Expr) and isinstance(st.value, ast.Call) and any(norm(a) in m.pqueues for a in st.value.args) and repo.resolve_call(pf, st.value) is not None:
            break  # the ordered write through a helper
        region.append(st)
    paths = enum_paths(region, rule="R13.4", where=L.where())
    bad = None
    tested = False
    for p in paths:
        facts = {}
        for e in p.events:
            if e.kind == "test":
                facts.update(rc.test_facts(repo, pf, e.node, e.pol))
        if "exit_all_zero" in facts:
            tested = True
        if facts.get("exit_all_zero") is False:
            if p.term == "raise":
                continue
            if p.term == "exit":
                s = rc.exit_status(p.term_node)
                if s is None or s == 0:
                    bad = (p, f"sys.exit status {s!r}")
                continue
            bad = (p, f"continues to write the results ('{p.term}')")
    # the workers are joined without a time limit before their exit codes are read: after a timed join a worker that is still
    # shutting down has exit code None, which the exit-code predicate takes for a failure (or, read the other way, for success)
    for c_ in walk_own(pf.node):
        if isinstance(c_, ast.Call) and isinstance(c_.func, ast.Attribute) and c_.func.attr == "join" and (c_.args or c_.keywords) and not isinstance(c_.func.value, ast.Constant) and not any(isinstance(a_, ast.Name) and a_.id in m.pqueues for a_ in c_.args):
            recv_ = norm(c_.func.value)
            is_proc = any(isinstance(l_, ast.For) and norm(l_.target) == recv_ and norm(l_.iter) in m.proc_lists for l_ in walk_own(pf.node))
            if is_proc:
                ctx.violated("R13.4", pf.where(c_), f"`{norm(c_)[:40]}` waits for a worker only for a limited time and the exit codes are read right after it: a worker that has delivered everything but needs longer to terminate still has exit code None there, so a healthy run is aborted (or a dead worker is taken for healthy, depending on how None is read)", key_of(pf, f"timed-join:{norm(c_)[:30]}"))
    # the list whose exit codes are tested must still hold the processes: emptying it while joining makes the test vacuous
    for i_, st in enumerate(region):
        if not isinstance(st, ast.If):
            continue
        lists = {a.id for c_ in ast.walk(st.test) if isinstance(c_, ast.Call) for a in c_.args if isinstance(a, ast.Name)}
        for prev in region[:i_]:
            for x in ast.walk(prev):
                hit = None
                if isinstance(x, ast.Call) and isinstance(x.func, ast.Attribute) and x.func.attr in ("pop", "clear", "remove") and isinstance(x.func.value, ast.Name) and x.func.value.id in lists:
                    hit = norm(x)
                elif isinstance(x, ast.Assign) and any(isinstance(t, ast.Name) and t.id in lists for t in x.targets):
                    hit = norm(x)
                elif isinstance(x, ast.Delete) and any(isinstance(t, (ast.Subscript, ast.Name)) and norm(t).split("[")[0] in lists for t in x.targets):
                    hit = norm(x)
                if hit and rc.test_facts(repo, pf, st.test, True).keys() & {"exit_all_zero"}:
                    ctx.violated("R13.4", pf.where(x), f"`{hit[:60]}` takes the processes out of the list before `{norm(st.test)[:50]}` looks at their exit codes: the test runs over an empty list and passes, so a worker that died after delivering its results goes unnoticed and the command reports success", key_of(pf, f"exitcode-list-emptied:{hit[:40]}"))
    what = "after joining, a non-zero worker exit code is detected and the command exits non-zero before the results are written"
    if not tested:
        ctx.violated("R13.4", L.where(), what + " (exit codes are not tested after the loop)", key_of(pf, f"post-join-exitcodes:{norm(L.node.test)}"))
    else:
        ctx.check(bad is None, "R13.4", L.where(), what, key_of(pf, f"post-join-exit:{norm(L.node.test)}:{bad[1] if bad else ''}"), **({"path": bad[0].show(), "why": bad[1]} if bad else {}))


def r13_6(ctx, m):
    """A worker that is killed must look killed: no signal handler in the worker (or installed by the module) that hands over
    the end marker and / or leaves with status 0 — the parent would take the batch for finished."""
    wf = m.worker
    mod = wf.module
    n = 0
    for f in mod.funcs.values():
        for c in walk_own(f.node):
            if isinstance(c, ast.Call) and norm(c.func) in ("signal.signal", "signal") and len(c.args) == 2:
                n += 1
                h = c.args[1]
                hf = None
                if isinstance(h, ast.Name):
                    hf = next((g for g in mod.funcs.values() if g.name == h.id), None)
                body = ast.walk(hf.node) if hf is not None else ast.walk(h)
                masks = [x for x in body if isinstance(x, ast.Call) and ((isinstance(x.func, ast.Attribute) and x.func.attr == "put") or (norm(x.func) in ("sys.exit", "exit", "os._exit") and (not x.args or const_value(x.args[0], 1) in (0, None))))]
                if masks or norm(h).endswith("SIG_IGN"):
                    ctx.violated("R13.6", f.where(c), f"`{norm(c)[:60]}` installs a handler that " + ("ignores the signal" if not masks else f"does `{norm(masks[0])[:30]}`") + ": a worker that is terminated from outside (out-of-memory killer, kill) hands over its end marker and / or exits with status 0, so the parent takes its batch for finished and the command succeeds with records missing", key_of(f, f"signal-handler-masks-death:{norm(c.args[0])[:30]}"))
    if n == 0:
        ctx.holds("R13.6", wf.where(), "no signal handler is installed in the realign module: a killed worker is seen as killed (negative exit code, no end marker)", nontrivial=False)


def r13_5(ctx, m):
    """A worker that fails must not look like one that finished: in the function a worker process runs (and what it calls in its
    module) no handler for Exception / BaseException / everything carries on without re-raising or exiting non-zero, and the
    sentinel is not put in a `finally` (it would be delivered for a batch that was not completed, the process then exits 0, and
    the parent sees one sentinel per worker and exit code 0 everywhere)."""
    repo = ctx.repo
    wf = m.worker
    mod = wf.module
    todo, seen = [mod.funcs.get(wf.qualname, wf)], set()
    funcs = []
    while todo:
        f = todo.pop()
        if f.qualname in seen:
            continue
        seen.add(f.qualname)
        funcs.append(f)
        for c in walk_own(f.node):
            if isinstance(c, ast.Call):
                h = repo.resolve_call(f, c)
                if h is not None and h.module is mod and h.qualname not in seen and len(seen) < 8:
                    todo.append(h)
    n = 0
    for f in funcs:
        for t in walk_own(f.node):
            if not isinstance(t, ast.Try):
                continue
            for h in t.handlers:
                broad = h.type is None or norm(h.type) in ("Exception", "BaseException") or (isinstance(h.type, ast.Tuple) and any(norm(x) in ("Exception", "BaseException") for x in h.type.elts))
                leaves = any(isinstance(x, ast.Raise) for x in ast.walk(h)) or any(isinstance(x, ast.Call) and norm(x.func) in ("sys.exit", "exit", "os._exit") and x.args and const_value(x.args[0], 1) != 0 for x in ast.walk(h))
                if broad and not leaves:
                    n += 1
                    ctx.violated("R13.5", f.where(t), f"the worker catches `{norm(h.type) if h.type is not None else 'everything'}` and carries on: a batch that failed half-way (MemoryError, a bug in a record) ends with exit code 0, so the parent takes the run for complete although records are missing", key_of(f, f"worker-swallows:{norm(h.type) if h.type is not None else 'bare'}"))
            for st in t.finalbody:
                for c in ast.walk(st):
                    if isinstance(c, ast.Call) and isinstance(c.func, ast.Attribute) and c.func.attr == "put" and c.args and isinstance(c.args[0], ast.Constant) and c.args[0].value is None:
                        n += 1
                        ctx.violated("R13.5", f.where(c), "the sentinel is put in a `finally`: it is delivered also when the batch was not completed, so the parent counts the worker as finished", key_of(f, "sentinel-in-finally"))
    if n == 0:
        ctx.holds("R13.5", wf.where(), f"no broad exception handler that carries on and no sentinel in a `finally` in the worker and its helpers ({len(funcs)} function(s))", nontrivial=False)
