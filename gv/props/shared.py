"""Rules about mechanisms that several properties rest on, grouped into bundles.

A property is broken just as well by a change in a shared mechanism (the GAF reader, the optional-field parser, the graph
loader, the contig-path helper, the index builder, the command-line layer) as by a change in the command's own function.
Each bundle evaluates the rules of one mechanism; every property that depends on the mechanism runs the bundle, so the change
is reported by the check of the property it breaks and not only by the property that "owns" the mechanism.

R17.6  reader contract: GAF.read_file hands every line of the file to the parser (no filter), GAF.read_line always seeks to
       the offset it is given and reads one whole line
R16.9  the parser stores each mandatory column as read (a column's local is bound once)
R07.12 the graph loader stores a segment's sequence and tag names verbatim, and every link whose two segments exist
R00.1  no log handler writes to standard output (the commands write their records there)
R00.2  the command-line layer does not rewrite an option whose order matters
R00.3  no ordering comparison between two pieces of text that denote numbers
R00.4  the directory of a file name is not tested without a fallback for bare names
"""

from __future__ import annotations

import ast

from ..core import AnalysisError, const_value, norm, walk_own, walk_stmts, names_in, same_func
from ..paths import enum_paths, canon_test
from .common import key_of, gaf_schema


def _once(ctx, name):
    done = ctx.__dict__.setdefault("_bundles", set())
    if name in done:
        return False
    done.add(name)
    return True


# ---------------------------------------------------------------------------------------------
# the GAF reader
# ---------------------------------------------------------------------------------------------


def reader_consumed_once(ctx):
    """The records of one reader object are drawn by one iteration: `read_file()` is a generator over the reader's single file
    handle, so a second `read_file()` on the same object (a `next(g.read_file(), None)` to peek at the first record, a count
    before the real loop) takes records away from the other iteration."""
    repo = ctx.repo
    n = 0
    for f in repo.all_funcs():
        calls = {}
        for c in walk_own(f.node):
            if isinstance(c, ast.Call) and isinstance(c.func, ast.Attribute) and c.func.attr == "read_file" and isinstance(c.func.value, ast.Name):
                calls.setdefault(c.func.value.id, []).append(c)
        for recv, cs in calls.items():
            stores = sum(1 for x in walk_own(f.node) if isinstance(x, ast.Name) and x.id == recv and isinstance(x.ctx, ast.Store))
            if len(cs) > 1 and stores <= 1:
                n += 1
                ctx.violated("R17.6", f.where(cs[0]), f"`{recv}.read_file()` is called {len(cs)} times on the same reader object: both generators read from its one file handle, so the records taken by the first (a peek with next(), a pre-scan) are missing from the second", key_of(f, f"reader-consumed-twice:{recv}"))
    if n == 0:
        ctx.holds("R17.6", "gaftools/", "no reader object has read_file() called on it twice in one function", nontrivial=False)


def r16_10(ctx):
    """The parsed record carries what the line said: (a) the record constructor stores each value it is handed unchanged
    in its field; (b) the parser's value for `no CIGAR field` is the empty string — the record's __str__ writes the CIGAR
    back into the tag mapping whenever it is truthy, so any other default invents a field."""
    repo = ctx.repo
    schema, extras = gaf_schema(repo, "R16.10")
    ctor = repo.find_func("gaftools.gaf", f"{extras['class']}.__init__")
    if ctor is None:
        raise AnalysisError("R16.10", "gaftools/gaf.py", "cannot find the record constructor")
    ctx.analysed_func(ctor)
    params = set(ctor.params[1:])
    n_store = 0
    for st in walk_own(ctor.node):
        if isinstance(st, ast.Assign) and len(st.targets) == 1 and isinstance(st.targets[0], ast.Attribute) and norm(st.targets[0].value) == "self":
            used = {x.id for x in ast.walk(st.value) if isinstance(x, ast.Name)} & params
            if not used:
                continue
            n_store += 1
            if isinstance(st.value, ast.Name):
                continue
            ctx.violated("R16.10", ctor.where(st), f"the record constructor stores `{norm(st.value)[:70]}` in the field `{st.targets[0].attr}`, not the value parsed from the line: every consumer of the record (view, realign, stat, the converters) then works on an edited value", key_of(ctor, f"ctor-edits:{st.targets[0].attr}:{norm(st.value)[:40]}"))
    ctx.require_count("R16.10", n_store, 12, ctor.where(), "fields stored by the record constructor from its parameters")
    ctx.holds("R16.10", ctor.where(), f"the record constructor stores each of its {n_store} parameters unchanged")
    # (b) the parser's CIGAR local: the argument handed over as the constructor's cigar parameter
    pf = extras["parser_nf"]
    ret = None
    for n in walk_own(pf.node):
        if isinstance(n, ast.Return) and isinstance(n.value, ast.Call):
            c = repo.resolve_call(pf, n.value)
            if c is not None and c.name == "__init__":
                ret = n.value
    if ret is None:
        raise AnalysisError("R16.10", pf.where(), "parser does not return a constructed record")
    cparams = ctor.params[1:]
    amap = {p_: a for p_, a in zip(cparams, ret.args)}
    amap.update({k.arg: k.value for k in ret.keywords if k.arg})
    cparam = next((p_ for p_ in cparams if p_ == extras["cigar_attr"] or p_ == "cigar"), None)
    carg = amap.get(cparam)
    if not isinstance(carg, ast.Name):
        raise AnalysisError("R16.10", pf.where(ret), "cannot find the local that carries the CIGAR to the record constructor")
    consts = [st for st in walk_own(pf.node) if isinstance(st, ast.Assign) and len(st.targets) == 1 and norm(st.targets[0]) == carg.id and isinstance(st.value, ast.Constant)]
    if not consts:
        raise AnalysisError("R16.10", pf.where(ret), f"`{carg.id}` has no constant default in the parser: what a record without a cg:Z field carries is not read")
    for st in consts:
        ctx.check(st.value.value == "" or st.value.value is None, "R16.10", pf.where(st), "a record without a cg:Z field carries an empty CIGAR (the serialiser writes a truthy CIGAR back as a cg:Z field)", key_of(pf, f"cigar-default:{st.value.value!r}"), default=repr(st.value.value))


def r16_11(ctx):
    """Every constant key with which a parsed record's tag mapping is consulted has the form the parser stores
    (`TAG:TYPE:`, e.g. "tp:A:"): a look-up with "tp:A" or "cg:Z" can never find anything and silently takes its default."""
    import re as _re

    from .common import record_params

    repo = ctx.repo
    schema, extras = gaf_schema(repo, "R16.11")
    tags_attr = extras["tags_attr"]
    form = _re.compile(r"^[A-Za-z][A-Za-z0-9]:[AifZHB]:$")
    n = bad = 0
    for f in repo.all_funcs():
        if f.module.name in ("gaftools.gfa", "gaftools.cli.order_gfa"):
            continue
        recs = set(record_params(f, schema)) | ({"self"} if f.cls == extras["class"] else set())
        for x in walk_own(f.node):
            if isinstance(x, ast.For) and isinstance(x.iter, ast.Call) and isinstance(x.iter.func, ast.Attribute) and x.iter.func.attr == "read_file" and isinstance(x.target, ast.Name):
                recs.add(x.target.id)
            if isinstance(x, ast.Assign) and isinstance(x.value, ast.Call) and isinstance(x.value.func, ast.Attribute) and x.value.func.attr in ("read_line", "parse_gaf_line") and isinstance(x.targets[0], ast.Name):
                recs.add(x.targets[0].id)
        if not recs:
            continue
        bases = {f"{r}.{tags_attr}" for r in recs}
        for x in walk_own(f.node):
            key = None
            if isinstance(x, ast.Subscript) and norm(x.value) in bases:
                key = x.slice
            elif isinstance(x, ast.Call) and isinstance(x.func, ast.Attribute) and x.func.attr in ("get", "pop", "setdefault") and norm(x.func.value) in bases and x.args:
                key = x.args[0]
            elif isinstance(x, ast.Compare) and len(x.ops) == 1 and isinstance(x.ops[0], (ast.In, ast.NotIn)) and norm(x.comparators[0]) in bases | {b + ".keys()" for b in bases}:
                key = x.left
            if key is None or not (isinstance(key, ast.Constant) and isinstance(key.value, str)):
                continue
            n += 1
            if not form.match(key.value):
                bad += 1
                ctx.violated("R16.11", f.where(x), f"`{norm(x)[:70]}` consults the record's optional fields with the key {key.value!r}: the parser stores them under `TAG:TYPE:` (e.g. 'tp:A:'), so this key is never present and the look-up silently takes its default / its absent branch for every record", key_of(f, f"tag-key-form:{key.value}"))
    if not bad:
        ctx.holds("R16.11", "gaftools/", f"all {n} constant keys used on a parsed record's tag mapping have the stored form TAG:TYPE:", nontrivial=n > 0)


def gaf_reader(ctx):
    """openers (R17.1), whole-line reads (R17.5), reader contract (R17.6)"""
    if not _once(ctx, "gaf_reader"):
        return
    from . import c17

    ctx.run(c17.r17_1)
    ctx.run(c17.r17_5)
    ctx.run(c17.r17_8)
    ctx.run(r17_6)
    ctx.run(reader_consumed_once)
    ctx.run(r16_9)
    ctx.run(r16_10)
    ctx.run(r16_11)


def _reader_class(repo, rule):
    pf = repo.func("gaftools.gaf", "GAF.parse_gaf_line", rule)
    methods = [f for f in pf.module.funcs.values() if f.cls == pf.cls and f.parent is None] if hasattr(pf, "parent") else []
    if not methods:
        methods = [f for f in repo.all_funcs() if f.module is pf.module and f.cls == pf.cls]
    from ..core import inline_object_aliases

    # `handle = self.file; handle.seek(o)` is an operation on self.file
    methods = [inline_object_aliases(f) if not same_func(f, pf) else f for f in methods]
    return pf, methods


def _yields(node):
    return [n for n in ast.walk(node) if isinstance(n, (ast.Yield, ast.YieldFrom))]


def r17_6(ctx):
    repo = ctx.repo
    pf, methods = _reader_class(repo, "R17.6")
    handle_attrs = set()
    for f in methods:
        if f.name == "__init__":
            for st in walk_own(f.node):
                if isinstance(st, ast.Assign) and isinstance(st.targets[0], ast.Attribute) and isinstance(st.value, ast.Call) and norm(st.value.func).split(".")[-1] in ("open", "BGZFile"):
                    handle_attrs.add(norm(st.targets[0]))
    if not handle_attrs:
        raise AnalysisError("R17.6", pf.where(), "cannot find the attribute holding the reader's file handle")

    def is_parse_call(f, c):
        return isinstance(c, ast.Call) and same_func(repo.resolve_call(f, c), pf)

    # ---- read_file: a generator of the reader class
    gens = [f for f in methods if _yields(f.node) and not same_func(f, pf)]
    n_gen = 0
    for f in gens:
        loops = [n for n in walk_own(f.node) if isinstance(n, ast.For) and _yields(n)]
        for lp in loops:
            if norm(lp.iter) not in handle_attrs:
                continue  # raw / chunked reads are R17.5's
            n_gen += 1
            ctx.analysed_func(f)
            lv = norm(lp.target)
            paths = enum_paths(lp.body, rule="R17.6", where=f.where(lp))
            bad = None
            for p in paths:
                if p.term in ("raise", "exit"):
                    continue
                ys = [e for e in p.events if e.kind == "stmt" and _yields(e.node)]
                if len(ys) == 1:
                    y = _yields(ys[0].node)[0]
                    if not (isinstance(y, ast.Yield) and is_parse_call(f, y.value)):
                        raise AnalysisError("R17.6", f.where(ys[0].node), "the reader yields something else than the parser's result for the line")
                    continue
                if len(ys) > 1:
                    bad = ("twice", p, None)
                    break
                # a line that is not handed on: what decides it?
                tests = [canon_test(t, pol) for t, pol in p.tests()]
                txt = " and ".join(t if pol else f"not ({t})" for t, pol in tests)
                blank = all(t in (f"{lv}.strip()", f"{lv}.rstrip()", lv, f"{lv}.strip() == ''", f"{lv} == '\\n'") for t, _ in tests) and tests
                if blank:
                    continue  # blank lines are not records
                content = any(f"{lv}.startswith(" in t or f"{lv}[0]" in t or f"{lv}[:1]" in t for t, _ in tests)
                if content:
                    bad = ("filter", p, txt)
                    break
                raise AnalysisError("R17.6", f.where(lp), f"a line of the file is not handed to the parser under `{txt[:100]}`: cannot decide which records that drops")
            if bad and bad[0] == "filter":
                ctx.violated("R17.6", f.where(lp), f"the reader skips every line for which `{bad[2][:120]}`: a record whose first column (the read name) begins that way is silently dropped", key_of(f, f"reader-filter:{bad[2][:80]}"), path=bad[1].show())
            elif bad:
                ctx.violated("R17.6", f.where(lp), "a line is yielded more than once on one path", key_of(f, "reader-yields-twice"), path=bad[1].show())
            else:
                ctx.holds("R17.6", f.where(lp), f"every line of the file is handed to the parser and yielded once ({len(paths)} paths through the reader loop)")
        # generator-expression spelling: yield from (parse(l) for l in handle)
        for y in _yields(f.node):
            if isinstance(y, ast.YieldFrom) and isinstance(y.value, ast.GeneratorExp) and len(y.value.generators) == 1 and norm(y.value.generators[0].iter) in handle_attrs:
                n_gen += 1
                g = y.value.generators[0]
                if g.ifs:
                    t = norm(g.ifs[0])
                    if "startswith(" in t or "[0]" in t:
                        ctx.violated("R17.6", f.where(y), f"the reader keeps only lines for which `{t}`: records are silently dropped", key_of(f, f"reader-filter:{t[:80]}"))
                    elif t not in (f"{norm(g.target)}.strip()", norm(g.target)):
                        raise AnalysisError("R17.6", f.where(y), f"filtered reader `{t}`")
                else:
                    ctx.holds("R17.6", f.where(y), "every line of the file is handed to the parser and yielded once")
            elif isinstance(y, ast.YieldFrom) and isinstance(y.value, ast.Call) and norm(y.value.func) == "map" and len(y.value.args) == 2 and norm(y.value.args[1]) in handle_attrs:
                n_gen += 1
                ctx.holds("R17.6", f.where(y), "every line of the file is handed to the parser and yielded once")
    ctx.require_count("R17.6", n_gen, 1, pf.where(), "streaming reader of the GAF class (generator over the file handle)")

    # ---- read_line: seek to the offset, read one whole line
    n_rl = 0
    for f in methods:
        seeks = [c for c in walk_own(f.node) if isinstance(c, ast.Call) and isinstance(c.func, ast.Attribute) and c.func.attr == "seek" and norm(c.func.value) in handle_attrs]
        reads = [c for c in walk_own(f.node) if isinstance(c, ast.Call) and isinstance(c.func, ast.Attribute) and c.func.attr == "readline" and norm(c.func.value) in handle_attrs]
        if not reads or not [p_ for p_ in f.params if p_ != "self"]:
            continue
        if not seeks and not any("offset" in p_ or "pos" in p_ for p_ in f.params):
            continue
        n_rl += 1
        ctx.analysed_func(f)
        off = [p_ for p_ in f.params if p_ != "self"][0]
        for c in reads:
            if c.args or c.keywords:
                ctx.violated("R17.6", f.where(c), f"`{norm(c)}` reads at most {norm(c.args[0]) if c.args else '?'} characters: a longer record is cut and its remaining fields are lost", key_of(f, f"bounded-readline:{norm(c)}"))
            else:
                ctx.holds("R17.6", f.where(c), "the record at an offset is read as one whole line")
        paths = enum_paths(f.node.body, rule="R17.6", where=f.where())
        verdict = None
        for p in paths:
            seen_seek = False
            for e in p.events:
                if e.kind != "stmt":
                    continue
                if any(x is s for s in seeks for x in ast.walk(e.node)):
                    seen_seek = True
                if any(x is r for r in reads for x in ast.walk(e.node)) and not seen_seek:
                    tests = [canon_test(t, pol) for t, pol in p.tests()]
                    if any(t == off for t, pol in tests):
                        verdict = ("zero", p)
                    elif all(t in (f"{off} is None", f"{off} is not None") for t, pol in tests) and tests:
                        continue  # an explicit "no offset": read on from the current position
                    else:
                        verdict = verdict or ("unknown", p)
        if verdict and verdict[0] == "zero":
            ctx.violated("R17.6", f.where(), f"the handle is not positioned when `{off}` is 0 (truthiness test): the record at offset 0 cannot be fetched after another read", key_of(f, f"seek-skipped-for-zero:{off}"), path=verdict[1].show())
        elif verdict:
            raise AnalysisError("R17.6", f.where(), "a path reads a line without seeking to the given offset first")
        else:
            ok = all(s.args and norm(s.args[0]) == off for s in seeks)
            ctx.check(ok and bool(seeks), "R17.6", f.where(), "the indexed reader seeks to exactly the offset it is given before it reads the line", key_of(f, f"seek-arg:{[norm(s) for s in seeks]}"))
    ctx.require_count("R17.6", n_rl, 1, pf.where(), "offset reader of the GAF class (seek + readline)")


def r16_9(ctx):
    """Each mandatory column reaches the record as it was read: the local that carries it is not bound again to anything
    that is not that column."""
    repo = ctx.repo
    schema, extras = gaf_schema(repo, "R16.9")
    pf = extras["parser_nf"]
    for var, vals in sorted(extras["rebound"].items()):
        ctx.violated("R16.9", pf.where(), f"column variable `{var}` is bound again to `{vals[0][:60]}` after it was read from the line: the record no longer carries the value of the file", key_of(pf, f"column-rebound:{var}:{vals[0][:40]}"))
    if not extras["rebound"]:
        ctx.holds("R16.9", pf.where(), f"each of the {extras['n_col_vars']} column variables handed to the record is bound only from its column")


# ---------------------------------------------------------------------------------------------
# the optional-field parser
# ---------------------------------------------------------------------------------------------


def tag_parser(ctx):
    """grammar inclusion (R16.1), optional columns only (R16.2), every new well-formed field stored, loop not left early
    (R16.6; repeated fields are C16's own finding), record-owned mapping (R16.8)"""
    if not _once(ctx, "tag_parser"):
        return
    from . import c16
    from .c19 import tag_loop, tag_regex_info

    schema, extras = gaf_schema(ctx.repo, "R16.1")
    pf, loop = tag_loop(ctx, "R16.1")
    info = tag_regex_info(pf, loop, "R16.1")
    ctx.run(c16.r16_1, pf, loop, info)
    ctx.run(c16.r16_2, pf, loop)
    ctx.run(c16.r16_3_6, pf, loop, info, report_repeats=False)
    ctx.run(c16.r16_8, extras)


# ---------------------------------------------------------------------------------------------
# the graph loader
# ---------------------------------------------------------------------------------------------


def graph_loader(ctx):
    """links after segments (R06.6), bounded tag split (R07.4), S line -> add_node (R07.10), tag-less links (R07.11),
    verbatim storage and unfiltered links (R07.12)"""
    if not _once(ctx, "graph_loader"):
        return
    from . import c06, c07
    from . import gfa_common as gc

    g = gc.build(ctx, "R07.4")
    ctx.run(c06.r06_6)
    ctx.run(c07.r07_4, g)
    ctx.run(c07.r07_10, g)
    ctx.run(c07.r07_11, g)
    ctx.run(r07_12, g)


def r07_12(ctx, g):
    repo = ctx.repo
    an = g.add_node  # normal form: private helpers inlined, aliases of the node's tag mapping written out
    ctx.analysed_func(an)
    from ..core import make_resolver

    res_ = make_resolver(an.node.body)
    params = [p for p in an.params if p != "self"]
    if len(params) < 3:
        raise AnalysisError("R07.12", an.where(), "add_node does not take (id, sequence, tags)")
    seqp = params[1]
    n = 0
    for st in walk_own(an.node):
        if isinstance(st, ast.Assign) and isinstance(st.targets[0], ast.Attribute) and st.targets[0].attr == "seq":
            n += 1
            v = st.value
            if isinstance(v, ast.Name) and v.id == seqp:
                ctx.holds("R07.12", an.where(st), "the segment's sequence is stored as given")
            elif isinstance(v, ast.Call) and isinstance(v.func, ast.Attribute) and isinstance(v.func.value, ast.Name) and v.func.value.id == seqp and v.func.attr in ("upper", "lower", "strip", "rstrip", "lstrip", "replace", "casefold", "title", "capitalize", "swapcase", "translate"):
                ctx.violated("R07.12", an.where(st), f"the segment's sequence is stored as `{norm(v)}`, not as given: the graph written back differs from the one read (e.g. soft-masked lower-case bases)", key_of(an, f"seq-stored:{norm(v)}"))
            else:
                raise AnalysisError("R07.12", an.where(st), f"the sequence is stored as `{norm(v)[:60]}`")
    ctx.require_count("R07.12", n, 1, an.where(), "store of the segment sequence in add_node")
    # tag names: the key under which a tag is stored is the first piece of the split, unchanged
    nt = 0
    for st in walk_own(an.node):
        if isinstance(st, ast.Assign) and isinstance(st.targets[0], ast.Subscript) and isinstance(st.targets[0].value, ast.Attribute) and st.targets[0].value.attr == "tags":
            nt += 1
            k = res_(st.targets[0].slice)
            if isinstance(k, ast.Subscript) and const_value(k.slice, None) == 0:
                ctx.holds("R07.12", an.where(st), "a tag is stored under its name as written in the file")
            elif isinstance(k, ast.Name):
                ctx.holds("R07.12", an.where(st), "a tag is stored under its name as written in the file", nontrivial=False)
            elif isinstance(k, ast.Call) and isinstance(k.func, ast.Attribute) and k.func.attr in ("upper", "lower", "strip", "casefold", "title", "capitalize", "swapcase"):
                ctx.violated("R07.12", an.where(st), f"a tag is stored under `{norm(k)}`: two tags of one segment that differ only in what `{k.func.attr}()` removes collapse into one (a user tag `no:i:7` overwrites NO)", key_of(an, f"tag-key:{norm(k)}"))
            else:
                raise AnalysisError("R07.12", an.where(st), f"a tag is stored under `{norm(k)[:60]}`")
    ctx.require_count("R07.12", nt, 1, an.where(), "store of a segment tag in add_node")
    # links: in the loop that adds the buffered links the only way past a link is the missing-segment guard
    rg = repo.func("gaftools.gfa", "GFA.read_graph", "R07.12")
    from ..core import tail_inlined

    rgn = tail_inlined(repo, rg, keep=lambda callee: callee.name in ("add_edge", "add_node"))
    nl = 0
    for lp in walk_own(rgn.node):
        if not isinstance(lp, ast.For):
            continue
        adds = [c for c in ast.walk(lp) if isinstance(c, ast.Call) and isinstance(c.func, ast.Attribute) and c.func.attr == "add_edge"]
        if not adds:
            continue
        if any(isinstance(x, ast.For) and x is not lp and any(a is y for a in adds for y in ast.walk(x)) for x in ast.walk(lp)):
            continue  # an outer loop (over the lines of the file) that contains the link loop
        nl += 1
        paths = enum_paths(lp.body, rule="R07.12", where=rgn.where(lp))
        for p in paths:
            if p.term in ("raise", "exit"):
                continue
            if any(e.kind == "stmt" and any(a is x for a in adds for x in ast.walk(e.node)) for e in p.events):
                continue
            tests = [canon_test(t, pol) for t, pol in p.tests()]
            why = [t for t, pol in tests if not ("in self" in t or "in self.nodes" in t or ".startswith(" in t or "len(" in t)]
            if why:
                # a "link already present" test that looks at the neighbour's id only conflates links that differ in the
                # side at which they enter the neighbour
                proj = None
                for t, pol in p.tests():
                    for c in ast.walk(t):
                        if isinstance(c, ast.Call) and isinstance(c.func, ast.Attribute):
                            cal = repo.resolve_call(rgn, c)
                            if cal is not None and cal.cls is not None and cal.cls != rg.cls:
                                ents = [x for x in ast.walk(cal.node) if isinstance(x, ast.Subscript) and isinstance(x.value, ast.Name) and isinstance(const_value(x.slice, None), int)]
                                idx = {const_value(x.slice) for x in ents}
                                if ents and idx == {0} and any(isinstance(x, ast.Attribute) and x.attr in ("start", "end") for x in ast.walk(cal.node)):
                                    proj = cal
                if proj is not None:
                    ctx.violated("R07.12", rgn.where(lp), f"a link of the file is skipped when `{why[0][:90]}`: {proj.qualname} compares the neighbour's id only, not the side at which the link enters it, so a different link between the same two segments (a+ b+ after a+ b-) is dropped", key_of(rgn, f"link-filter-by-id:{proj.qualname}"))
                    continue
                raise AnalysisError("R07.12", rgn.where(lp), f"a link of the file is not added under `{why[0][:100]}`: cannot decide which links that drops")
        ctx.holds("R07.12", rgn.where(lp), f"every link whose two segments exist is added to the graph ({len(paths)} paths through the link loop)")
    ctx.require_count("R07.12", nl, 1, rg.where(), "loop adding the links of the file")


# ---------------------------------------------------------------------------------------------
# contig paths, index
# ---------------------------------------------------------------------------------------------


def contig_paths(ctx):
    if not _once(ctx, "contig_paths"):
        return
    from . import c03

    ctx.run(c03.r03_7)


def index_build(ctx):
    if not _once(ctx, "index_build"):
        return
    from . import c03

    run = c03.index_run(ctx, "R03")
    ctx.analysed_func(run)
    info = c03.r03_1(ctx, run)
    ctx.run(c03.r03_2, run, info)
    ctx.run(c03.r03_3, run, info)
    ctx.run(c03.r03_4, run)
    ctx.run(c03.r03_5, run, info)
    ctx.run(c03.r03_6, run, info)
    from . import c17

    ctx.run(c17.r17_7)


# ---------------------------------------------------------------------------------------------
# the command-line layer
# ---------------------------------------------------------------------------------------------

ORDER_OPTIONS = {"chromosome_order", "nodes", "regions"}


def cli_layer(ctx, command, stdout_records=True):
    """command: module name of the subcommand, e.g. 'gaftools.cli.view'"""
    if not _once(ctx, "cli:" + command):
        return
    repo = ctx.repo
    main_mod = repo.modules.get("gaftools.__main__")
    if main_mod is None:
        raise AnalysisError("R00.1", "gaftools/__main__.py", "entry module vanished")
    # R00.1: log handlers
    if stdout_records:
        n = 0
        for mod in repo.modules.values():
            for f in list(mod.funcs.values()):
                for c in walk_own(f.node):
                    if not isinstance(c, ast.Call):
                        continue
                    fn = norm(c.func)
                    if fn.endswith("StreamHandler") or fn.endswith("basicConfig"):
                        n += 1
                        streams = [norm(a) for a in c.args] + [norm(k.value) for k in c.keywords if k.arg == "stream"]
                        if any(s in ("sys.stdout", "stdout", "sys.__stdout__") for s in streams):
                            ctx.violated("R00.1", f.where(c), f"`{norm(c)}` sends log messages to standard output, where the command writes its records when no output file is given: the output is no longer the records alone", key_of(f, f"log-to-stdout:{norm(c)}"))
                        else:
                            ctx.holds("R00.1", f.where(c), "log messages go to standard error (the default stream), not into the records on standard output")
        ctx.require_count("R00.1", n, 1, "gaftools/__main__.py", "log handler set-up")
    mod = repo.modules.get(command)
    if mod is None:
        raise AnalysisError("R00.2", command, "command module vanished")
    cli_funcs = [f for f in mod.funcs.values() if f.name in ("validate", "main") and f.cls is None]
    # R00.2: options rewritten in the command-line layer
    for f in cli_funcs:
        ctx.analysed_func(f)
        argsp = f.params[0] if f.params else None
        for st in walk_own(f.node):
            if isinstance(st, (ast.Assign, ast.AugAssign)):
                tg = st.targets[0] if isinstance(st, ast.Assign) else st.target
                if isinstance(tg, ast.Attribute) and isinstance(tg.value, ast.Name) and tg.value.id == argsp:
                    v = norm(st.value)
                    if tg.attr in ORDER_OPTIONS and ("sorted(" in v or "set(" in v or ".sort(" in v or "{" in v):
                        ctx.violated("R00.2", f.where(st), f"`{norm(st)[:80]}` rewrites --{tg.attr} through a set / sorted(): the order the user asked for is lost before the command runs", key_of(f, f"option-rewritten:{tg.attr}"))
                    else:
                        raise AnalysisError("R00.2", f.where(st), f"the command-line layer rewrites the option `{tg.attr}`: cannot decide whether the command still does what was asked")
    ctx.holds("R00.2", mod.relpath, f"the command-line layer ({', '.join(f.name for f in cli_funcs) or 'main'}) hands the options on as given", nontrivial=False)
    # R00.5: `main(args)` hands all parsed options to the command's run function
    mains = [f for f in cli_funcs if f.name == "main"]
    for f in mains:
        argsp = f.params[0] if f.params else None
        fwd = []
        for c in walk_own(f.node):
            if isinstance(c, ast.Call) and any(k.arg is None and isinstance(k.value, ast.Call) and norm(k.value.func) == "vars" and k.value.args and norm(k.value.args[0]) == argsp for k in c.keywords):
                cal = repo.resolve_call(f, c)
                if cal is not None and cal.module is mod:
                    fwd.append((c, cal))
        stmts = [st for st in f.node.body if not (isinstance(st, ast.Expr) and isinstance(st.value, ast.Constant))]
        uncond = [c for c, _ in fwd if any(isinstance(st, (ast.Expr, ast.Return)) and st.value is c for st in stmts)]
        if not fwd:
            others = [c for c in walk_own(f.node) if isinstance(c, ast.Call) and repo.resolve_call(f, c) is not None]
            if others:
                raise AnalysisError("R00.5", f.where(), "main() does not forward the options with **vars(args): the binding of options to parameters is not traced")
            ctx.violated("R00.5", f.where(), "main() does not call the command's run function: the subcommand parses its options and does nothing", key_of(f, "main-does-not-run"))
        else:
            ctx.check(bool(uncond), "R00.5", f.where(fwd[0][0]), f"main() unconditionally calls {fwd[0][1].qualname}(**vars(args)): every option reaches the parameter of its name", key_of(f, f"main-forwards:{fwd[0][1].qualname}"))
            # every dest of add_arguments is a parameter of the run function (else the call raises TypeError at once)
    if not mains:
        raise AnalysisError("R00.5", mod.relpath, "the command module has no main(args)")
    # R00.6: results are written to a fresh file: no output is opened for appending in the command's module
    for f in mod.funcs.values():
        for c in walk_own(f.node):
            if isinstance(c, ast.Call) and norm(c.func) in ("open", "io.open", "gzip.open", "libcbgzf.BGZFile", "BGZFile") and len(c.args) >= 2 and isinstance(c.args[1], ast.Constant) and isinstance(c.args[1].value, str) and c.args[1].value.startswith("a"):
                ctx.violated("R00.6", f.where(c), f"`{norm(c)[:60]}` opens an output for appending: a file left by an earlier run is kept and the new records are added after it, so the output is not what this run produced", key_of(f, f"append-mode:{norm(c.args[0])[:30]}"))
    ctx.holds("R00.6", mod.relpath, "no output of the command is opened in append mode", nontrivial=False)
    # R00.3 / R00.4 over the command's own module (all functions)
    if mod.name not in ctx.__dict__.get("_prelinted", set()):
        text_lint(ctx, [mod])
    # R00.7: identity comparison of values, a list changed while it is iterated (command module and the library modules)
    libs = [repo.modules[m_] for m_ in ("gaftools.conversion", "gaftools.gfa", "gaftools.gaf", "gaftools.utils") if m_ in repo.modules]
    done_ = ctx.__dict__.get("_prelinted", set())
    if _once(ctx, "lib-text-lint"):
        text_lint(ctx, libs)
    n_p = pitfall_lints(ctx, [f for m_ in [mod] + libs if m_.name not in done_ for f in m_.funcs.values()], "R00.7")
    if n_p == 0:
        ctx.holds("R00.7", mod.relpath, "no identity comparison of values and no list changed inside the loop that iterates it (command module and library modules)", nontrivial=False)


def _texty(f, e, defs, depth=0):
    """is `e` a piece of text cut out of a line / a regex match (not converted to a number)?"""
    if isinstance(e, ast.Call):
        if isinstance(e.func, ast.Attribute) and e.func.attr in ("group",):
            return True
        if isinstance(e.func, ast.Attribute) and e.func.attr in ("strip", "rstrip", "lstrip") and depth < 3:
            return _texty(f, e.func.value, defs, depth + 1)
        return False
    if isinstance(e, ast.Subscript) and not isinstance(e.slice, ast.Slice):
        b = e.value
        if isinstance(b, ast.Call) and isinstance(b.func, ast.Attribute) and b.func.attr in ("split", "rsplit", "groups", "partition", "rpartition"):
            return True
        if isinstance(b, ast.Name) and depth < 3 and b.id in defs and len(defs[b.id]) == 1 and defs[b.id][0] is not None:
            d = defs[b.id][0]
            return isinstance(d, ast.Call) and isinstance(d.func, ast.Attribute) and d.func.attr in ("split", "rsplit", "groups")
        return False
    if isinstance(e, ast.Name) and depth < 3 and e.id in defs and len(defs[e.id]) == 1 and defs[e.id][0] is not None:
        return _texty(f, defs[e.id][0], defs, depth + 1)
    if isinstance(e, ast.Name) and depth < 3 and len(defs.get(e.id, [])) > 1:
        # bound on several branches: text on one of them is enough for the comparison to see text there
        return any(d is not None and _texty(f, d, defs, depth + 1) for d in defs[e.id])
    return False


def text_lint(ctx, mods):
    from ..core import local_defs

    n_cmp = n_dir = 0
    for mod in mods:
        for f in mod.funcs.values():
            defs = None
            for c in walk_own(f.node):
                if isinstance(c, ast.Compare) and len(c.ops) == 1 and isinstance(c.ops[0], (ast.Lt, ast.LtE, ast.Gt, ast.GtE)):
                    n_cmp += 1
                    if defs is None:
                        defs = _defs_with_unpack(f)
                    if _texty(f, c.left, defs) and _texty(f, c.comparators[0], defs):
                        ctx.violated("R00.3", f.where(c), f"`{norm(c)}` orders two pieces of text cut out of the input: numbers compare as strings ('900' > '1000'), so valid input is misjudged", key_of(f, f"text-order:{norm(c)}"))
                if isinstance(c, ast.Call) and norm(c.func) in ("os.path.isdir", "os.path.exists", "os.listdir", "os.makedirs", "os.access", "isdir", "exists") and c.args:
                    a = c.args[0]
                    if isinstance(a, ast.Call) and norm(a.func) in ("os.path.dirname", "dirname"):
                        n_dir += 1
                        ctx.violated("R00.4", f.where(c), f"`{norm(c)}`: the directory part of a bare file name is the empty string, which is not an existing directory, so a file in the current directory is rejected", key_of(f, f"dirname-bare:{norm(c)}"))
    ctx.holds("R00.3", ", ".join(m.relpath for m in mods), f"no ordering comparison between two uncoverted pieces of input text ({n_cmp} ordering comparisons inspected)", nontrivial=False)


def _defs_with_unpack(f):
    """local_defs plus tuple-unpacked names: `a, b = m.group(2), m.group(3)` binds a and b to the elements"""
    from ..core import local_defs

    defs = dict(local_defs(f.node))
    for st in walk_own(f.node):
        if isinstance(st, ast.Assign) and isinstance(st.targets[0], ast.Tuple) and isinstance(st.value, ast.Tuple) and len(st.targets[0].elts) == len(st.value.elts):
            for t, v in zip(st.targets[0].elts, st.value.elts):
                if isinstance(t, ast.Name):
                    defs[t.id] = [v] if t.id not in defs or defs[t.id] == [None] else defs[t.id]
        # (a, b) = text.split("-"): each name is one piece of the split
        if isinstance(st, ast.Assign) and isinstance(st.targets[0], ast.Tuple) and isinstance(st.value, ast.Call) and isinstance(st.value.func, ast.Attribute) and st.value.func.attr in ("split", "rsplit", "partition", "rpartition", "groups"):
            for k_, t in enumerate(st.targets[0].elts):
                if isinstance(t, ast.Name):
                    piece = ast.Subscript(value=st.value, slice=ast.Constant(value=k_), ctx=ast.Load())
                    defs[t.id] = [x for x in defs.get(t.id, []) if x is not None] + [piece]
    return defs


# ---------------------------------------------------------------------------------------------
# path tokenisation
# ---------------------------------------------------------------------------------------------

_PRINTABLE = [chr(c) for c in range(33, 127)]


def _class_chars(items):
    """set of printable characters accepted by a parsed character class / single-character item list"""
    import re._constants as sc  # noqa: PLC0415
    import re

    acc = set()
    neg = False
    for op, av in items:
        op = str(op)
        if op == "NEGATE":
            neg = True
        elif op == "LITERAL":
            acc.add(chr(av))
        elif op == "RANGE":
            acc |= {chr(c) for c in range(av[0], av[1] + 1)}
        elif op == "CATEGORY":
            cat = str(av)
            probe = {"CATEGORY_WORD": r"\w", "CATEGORY_NOT_WORD": r"\W", "CATEGORY_DIGIT": r"\d", "CATEGORY_NOT_DIGIT": r"\D", "CATEGORY_SPACE": r"\s", "CATEGORY_NOT_SPACE": r"\S"}.get(cat)
            if probe is None:
                return None
            acc |= {c for c in _PRINTABLE if re.fullmatch(probe, c)}  # the meaning of a category, looked up character by character
        else:
            return None
    return (set(_PRINTABLE) - acc) if neg else acc


def _single_char_set(node):
    """printable characters matched by a one-character regex node, or None"""
    op, av = node
    op = str(op)
    if op == "LITERAL":
        return {chr(av)}
    if op == "NOT_LITERAL":
        return set(_PRINTABLE) - {chr(av)}
    if op == "IN":
        return _class_chars(av)
    if op == "ANY":
        return set(_PRINTABLE)
    if op == "CATEGORY":
        return _class_chars([node])
    if op == "SUBPATTERN":
        sub = list(av[-1])
        if len(sub) == 1:
            return _single_char_set(sub[0])
    if op == "BRANCH":
        out = set()
        for alt in av[1]:
            alt = list(alt)
            if len(alt) != 1:
                return None
            s = _single_char_set(alt[0])
            if s is None:
                return None
            out |= s
        return out
    return None


def path_tokenisers(ctx):
    """R14.5: wherever a path (`>a<b>c` / `>contig:1-5`) is cut into steps, a step's name is a maximal run of characters
    other than the two orientation signs: the separator set of a split is exactly {<, >}; the name class of a findall
    accepts every character but those two.  Decided on the parsed regular expression, not on its text."""
    if not _once(ctx, "path_tokenisers"):
        return
    import re._parser as sp

    from ..core import regex_call

    repo = ctx.repo
    n = 0
    for f in repo.all_funcs():
        for c in walk_own(f.node):
            rcall = regex_call(f.module, c)
            if rcall is None:
                continue
            meth, pat, _ = rcall
            if meth not in ("split", "findall", "finditer") or "<" not in pat or ">" not in pat:
                continue
            n += 1
            try:
                tree = list(sp.parse(pat))
            except Exception as ex:  # noqa: BLE001
                raise AnalysisError("R14.5", f.where(c), f"pattern {pat!r} does not parse: {ex}")
            signs = {"<", ">"}
            if meth == "split":
                s = _single_char_set(tree[0]) if len(tree) == 1 else None
                if s is None:
                    raise AnalysisError("R14.5", f.where(c), f"split pattern {pat!r} is not a set of single separator characters")
                extra = sorted(s - signs)
                if s >= signs and not extra:
                    ctx.holds("R14.5", f.where(c), f"the path is split at the orientation signs only ({pat!r}): a step name keeps every other character")
                elif extra:
                    ctx.violated("R14.5", f.where(c), f"the path is also split at {extra[:6]} ({pat!r}): node or contig names containing such a character are cut into pieces", key_of(f, f"path-split:{''.join(extra)[:20]}"))
                else:
                    ctx.violated("R14.5", f.where(c), f"the path is not split at both orientation signs ({pat!r})", key_of(f, f"path-split-missing:{pat}"))
                continue
            # findall / finditer: [sign] name+   or   sign | name+
            name_set = None
            if len(tree) == 2 and _single_char_set(tree[0]) == signs and str(tree[1][0]) in ("MAX_REPEAT", "MIN_REPEAT"):
                lo, hi, sub = tree[1][1]
                sub = list(sub)
                if len(sub) == 1 and lo >= 1:
                    name_set = _single_char_set(sub[0])
            elif len(tree) == 1 and str(tree[0][0]) == "BRANCH":
                alts = [list(a) for a in tree[0][1][1]]
                if len(alts) == 2:
                    for a, b in (alts, alts[::-1]):
                        if len(a) == 1 and _single_char_set(a[0]) == signs and len(b) == 1 and str(b[0][0]) in ("MAX_REPEAT", "MIN_REPEAT"):
                            sub = list(b[0][1][2])
                            if len(sub) == 1:
                                name_set = _single_char_set(sub[0])
            if name_set is None:
                raise AnalysisError("R14.5", f.where(c), f"tokeniser {pat!r} is not of the form sign + name-characters")
            missing = sorted(set(_PRINTABLE) - signs - name_set)
            if name_set & signs:
                ctx.violated("R14.5", f.where(c), f"the name part of {pat!r} also matches an orientation sign: consecutive steps run together", key_of(f, f"path-token-signs:{pat}"))
            elif missing:
                ctx.violated("R14.5", f.where(c), f"the name part of {pat!r} does not accept {missing[:8]}: a node or contig name containing such a character (utg4.1, tig-7, h1#c4, chr6:1-5) is cut at it", key_of(f, f"path-token:{''.join(missing)[:20]}"))
            else:
                ctx.holds("R14.5", f.where(c), f"a step is an orientation sign followed by every character up to the next sign ({pat!r})")
    ctx.require_count("R14.5", n, 5, "gaftools/", "places where a path is cut into steps (regular expressions over < and >)")


# ---------------------------------------------------------------------------------------------
# itertools.groupby groups *runs*: a table keyed by the group key, filled from a sequence in input order, keeps only the
# last run of every key
# ---------------------------------------------------------------------------------------------


def groupby_tables(ctx, funcs, rule):
    """For every loop / comprehension over itertools.groupby(X, ...) in `funcs` that stores one entry per group under the
    group key (`D[key] = ...`, `{key: ... for key, grp in groupby(X)}`): X is sorted by that key (`sorted(...)`, or a
    list `.sort()`ed before).  groupby starts a new group whenever the key changes, so over a sequence in file / input
    order a key that comes back opens a second group and the store overwrites the first."""
    from ..core import AnalysisError, norm, walk_own, walk_stmts

    n = 0
    for f in funcs:
        for node in walk_own(f.node):
            gb = None
            tgt = None
            stores = False
            if isinstance(node, ast.For) and isinstance(node.iter, ast.Call) and norm(node.iter.func) in ("itertools.groupby", "groupby"):
                gb, tgt = node.iter, node.target
                if isinstance(tgt, ast.Tuple) and len(tgt.elts) == 2:
                    knames = {x.id for x in ast.walk(tgt.elts[0]) if isinstance(x, ast.Name)}
                    for st in walk_stmts(node.body):
                        if isinstance(st, ast.Assign) and any(isinstance(t, ast.Subscript) and {x.id for x in ast.walk(t.slice) if isinstance(x, ast.Name)} & knames for t in st.targets):
                            stores = True
            elif isinstance(node, ast.DictComp) and len(node.generators) == 1 and isinstance(node.generators[0].iter, ast.Call) and norm(node.generators[0].iter.func) in ("itertools.groupby", "groupby"):
                gb, tgt = node.generators[0].iter, node.generators[0].target
                if isinstance(tgt, ast.Tuple) and len(tgt.elts) == 2:
                    knames = {x.id for x in ast.walk(tgt.elts[0]) if isinstance(x, ast.Name)}
                    stores = bool({x.id for x in ast.walk(node.key) if isinstance(x, ast.Name)} & knames)
            if gb is None or not stores or not gb.args:
                continue
            n += 1
            src = gb.args[0]
            key = next((k.value for k in gb.keywords if k.arg == "key"), gb.args[1] if len(gb.args) > 1 else None)

            def is_sorted(e, depth=0):
                if isinstance(e, ast.Call) and isinstance(e.func, ast.Name) and e.func.id == "sorted":
                    k2 = next((k.value for k in e.keywords if k.arg == "key"), None)
                    return key is None or k2 is None or norm(k2) == norm(key) or None
                if isinstance(e, ast.Name) and depth < 3:
                    defs = [st.value for st in walk_stmts(f.node.body) if isinstance(st, ast.Assign) and len(st.targets) == 1 and norm(st.targets[0]) == e.id]
                    sorts = [c for c in walk_own(f.node) if isinstance(c, ast.Call) and isinstance(c.func, ast.Attribute) and c.func.attr == "sort" and norm(c.func.value) == e.id and f.before(c, gb)]
                    if sorts:
                        k2 = next((k.value for k in sorts[-1].keywords if k.arg == "key"), None)
                        return key is None or k2 is None or norm(k2) == norm(key) or None
                    if len(defs) == 1:
                        return is_sorted(defs[0], depth + 1)
                return False

            v = is_sorted(src)
            if v is None:
                raise AnalysisError(rule, f.where(gb), f"`{norm(gb)[:70]}` groups a sequence sorted by another key expression: whether equal group keys are adjacent is not decided")
            ctx.check(v, rule, f.where(gb), "a table with one entry per group key is built with itertools.groupby only over a sequence sorted by that key (groupby groups runs: over a sequence in input order a key that comes back overwrites its earlier entry)", key_of(f, f"groupby-unsorted:{norm(src)[:50]}"), **({} if v else {"grouped": norm(src)[:80], "why": "the grouped sequence is in file / input order: the entries of one key need not be adjacent, and each later run replaces the entry of the earlier one"}))
    return n


def none_slice_bounds(ctx, f, rule):
    """A slice bound that can be None — the default of `next(<generator>, None)` / `D.get(k)` bound to a name and used as
    `xs[:i]` / `xs[i:]` without an `is None` test on the way — makes the slice the whole sequence: "cut at the first match"
    silently becomes "everything" when nothing matches.  Returns the number of such slices reported."""
    from ..core import norm, walk_own, walk_stmts
    from .c09 import guards_of

    n = 0
    maybe_none = {}
    for st in walk_stmts(f.node.body):
        if isinstance(st, ast.Assign) and len(st.targets) == 1 and isinstance(st.targets[0], ast.Name):
            v = st.value
            if isinstance(v, ast.Call) and isinstance(v.func, ast.Name) and v.func.id == "next" and len(v.args) == 2 and isinstance(v.args[1], ast.Constant) and v.args[1].value is None:
                maybe_none[st.targets[0].id] = st
            elif isinstance(v, ast.Call) and isinstance(v.func, ast.Attribute) and v.func.attr == "get" and len(v.args) == 1 and not v.keywords:
                maybe_none[st.targets[0].id] = st
    if not maybe_none:
        return 0
    for st in walk_stmts(f.node.body):
        if isinstance(st, (ast.If, ast.For, ast.While, ast.With, ast.Try)):
            continue
        for sub in ast.walk(st):
            if isinstance(sub, ast.Subscript) and isinstance(sub.slice, ast.Slice):
                for b in (sub.slice.lower, sub.slice.upper):
                    if isinstance(b, ast.Name) and b.id in maybe_none:
                        tests = " ; ".join(norm(t) for t, _ in guards_of(f.node, st))
                        if f"{b.id} is None" in tests or f"{b.id} is not None" in tests:
                            continue
                        n += 1
                        ctx.violated(rule, f.where(st), f"`{norm(sub)[:60]}` is cut at `{b.id}` = `{norm(maybe_none[b.id].value)[:70]}`, which is None when nothing matches: a slice with a None bound is the whole sequence, so for a file without a match (a chromosome that is a single segment has no L line) both `[:{b.id}]` and `[{b.id}:]` are all of its lines — they are written twice, once among the S lines and once after the links", key_of(f, f"none-slice-bound:{norm(sub)[:40]}"))
    return n


def zip_drops_item(ctx, funcs, rule):
    """`zip(it, range(n))` evaluated repeatedly on one iterator `it` (inside a loop, `it` not rebound there): zip asks its
    first argument for an item before it finds the bounded argument exhausted, so the item fetched last is thrown away at
    the end of every chunk.  (`zip(range(n), it)` and itertools.islice do not have that problem.)"""
    from ..core import norm, walk_own

    n = 0
    for f in funcs:
        for lp in walk_own(f.node):
            if not isinstance(lp, (ast.While, ast.For)):
                continue
            rebound = {x.id for x in ast.walk(lp) if isinstance(x, ast.Name) and isinstance(x.ctx, ast.Store)}
            for c in ast.walk(lp):
                if isinstance(c, ast.Call) and isinstance(c.func, ast.Name) and c.func.id == "zip" and len(c.args) >= 2:
                    for i, a in enumerate(c.args[:-1]):
                        later_bounded = [b for b in c.args[i + 1 :] if isinstance(b, ast.Call) and isinstance(b.func, ast.Name) and b.func.id == "range"]
                        if isinstance(a, ast.Name) and a.id not in rebound and later_bounded and (a.id in f.params or any(isinstance(st, ast.Assign) and norm(st.targets[0]) == a.id and isinstance(st.value, ast.Call) and norm(st.value.func) in ("iter", "enumerate", "map", "filter", "zip") for st in walk_own(f.node))):
                            n += 1
                            ctx.violated(rule, f.where(c), f"`{norm(c)[:60]}` is evaluated once per chunk on the same iterator `{a.id}`: zip takes the next item from `{a.id}` before it finds `{norm(later_bounded[0])}` exhausted and drops it, so one record is lost at the end of every full chunk (records 1000, 2001, ... of the input never reach a worker)", key_of(f, f"zip-drops-item:{norm(c)[:40]}"))
    return n


def pitfall_lints(ctx, funcs, rule):
    """Two constructs that are wrong whatever the surrounding code means: (a) `is` / `is not` between two values of which
    neither is None / True / False (nor a stream object of `sys`): identity of equal integers above 256 or of equal
    strings built at run time is an accident of the interpreter; (b) a list that is changed (`remove`, `insert`, `pop`,
    `append`, `del xs[i]`) inside the `for` loop that iterates it: the iterator skips the element after each removal."""
    from ..core import norm, walk_own

    n = 0
    _VALUE_CALLS = ("int", "str", "float", "len", "abs", "min", "max", "sum", "round", "ord", "chr", "repr", "bytes")

    def value_evidence(f, o, used_as_value):
        """positive evidence that the operand is a number / text (not an object whose identity means something)"""
        if isinstance(o, ast.Constant) and isinstance(o.value, (int, float, str, bytes)) and not isinstance(o.value, bool):
            return True
        if isinstance(o, (ast.BinOp, ast.JoinedStr, ast.Tuple)):
            return True
        if isinstance(o, ast.Call) and isinstance(o.func, ast.Name) and o.func.id in _VALUE_CALLS:
            return True
        if isinstance(o, ast.Call) and isinstance(o.func, ast.Attribute) and o.func.attr in ("strip", "rstrip", "lstrip", "lower", "upper", "join", "format", "decode", "encode", "count", "index", "find"):
            return True
        t = norm(o)
        if t in used_as_value:
            return True
        if isinstance(o, ast.Attribute) and any(u.endswith("." + o.attr) for u in used_as_value):
            return True  # the same field of a sibling object is ordered / added elsewhere in the function
        return False

    for f in funcs:
        # expressions the function itself treats as numbers or text: operands of <, <=, >, >= and of arithmetic
        used_as_value = set()
        for c in walk_own(f.node):
            if isinstance(c, ast.Compare) and any(isinstance(o, (ast.Lt, ast.LtE, ast.Gt, ast.GtE)) for o in c.ops):
                used_as_value |= {norm(o) for o in [c.left] + list(c.comparators) if isinstance(o, (ast.Name, ast.Attribute, ast.Subscript))}
            if isinstance(c, ast.BinOp) and isinstance(c.op, (ast.Add, ast.Sub, ast.Mult, ast.Mod, ast.FloorDiv, ast.Div)):
                used_as_value |= {norm(o) for o in (c.left, c.right) if isinstance(o, (ast.Name, ast.Attribute, ast.Subscript))}
        singles = {k for k, v in f.module.consts.items() if isinstance(v, ast.Call) and norm(v.func) == "object"}
        singles |= {st.targets[0].id for st in walk_own(f.node) if isinstance(st, ast.Assign) and len(st.targets) == 1 and isinstance(st.targets[0], ast.Name) and isinstance(st.value, ast.Call) and norm(st.value.func) == "object"}
        for c in walk_own(f.node):
            if isinstance(c, ast.Compare) and any(isinstance(o, (ast.Is, ast.IsNot)) for o in c.ops):
                operands = [c.left] + list(c.comparators)
                if any(isinstance(o, ast.Constant) and (o.value is None or isinstance(o.value, bool) or o.value is Ellipsis) for o in operands):
                    continue
                if any(norm(o).startswith("sys.") for o in operands):
                    continue
                if any(isinstance(o, ast.Name) and o.id in singles for o in operands):
                    continue  # a private sentinel (`_MISSING = object()`): identity is the point
                if not any(value_evidence(f, o, used_as_value) for o in operands):
                    continue  # nothing says these are numbers or text: identity of objects may be meant
                n += 1
                ctx.violated(rule, f.where(c), f"`{norm(c)[:70]}` compares object identity, not value: two equal integers above 256 (or two equal strings read from a file) are different objects, so equal values are treated as different", key_of(f, f"identity-of-values:{norm(c)[:50]}"))
            if isinstance(c, ast.For) and isinstance(c.iter, ast.Name):
                xs = c.iter.id
                for m_ in ast.walk(c):
                    hit = None
                    if isinstance(m_, ast.Call) and isinstance(m_.func, ast.Attribute) and isinstance(m_.func.value, ast.Name) and m_.func.value.id == xs and m_.func.attr in ("remove", "insert", "pop", "append", "extend", "clear", "sort", "reverse"):
                        hit = norm(m_)
                    if isinstance(m_, ast.Delete) and any(isinstance(t, ast.Subscript) and isinstance(t.value, ast.Name) and t.value.id == xs for t in m_.targets):
                        hit = norm(m_)
                    if hit:
                        n += 1
                        ctx.violated(rule, f.where(m_), f"`{hit[:60]}` changes the list `{xs}` inside the loop that iterates it: after a removal the iterator skips the next element (after an insertion it sees one twice), so some elements are never processed", key_of(f, f"mutated-while-iterated:{hit[:40]}"))
                        break
    return n


def tag_pop_reinsert(ctx, rule):
    """A key taken out of a record's tag mapping (`tags.pop(k)`, `del tags[k]`) and stored again moves to the end of the
    insertion-ordered dict: the record is written with its optional fields in another order."""
    from ..core import norm, walk_own
    from . import emit

    schema, extras, ems = emit.find_emitters(ctx, rule)
    tags_attr = extras["tags_attr"]
    n = 0
    seen = set()
    for f, rec, _n in ems:
        if f.qualname in seen:
            continue
        seen.add(f.qualname)
        base = f"{rec}.{tags_attr}"
        for c in walk_own(f.node):
            key = None
            if isinstance(c, ast.Call) and isinstance(c.func, ast.Attribute) and c.func.attr == "pop" and norm(c.func.value) == base and c.args:
                key = norm(c.args[0])
            if isinstance(c, ast.Delete) and any(isinstance(t, ast.Subscript) and norm(t.value) == base for t in c.targets):
                key = norm(next(t for t in c.targets if isinstance(t, ast.Subscript)).slice)
            if key is None:
                continue
            stores = [st for st in walk_own(f.node) if isinstance(st, ast.Assign) and any(isinstance(t, ast.Subscript) and norm(t.value) == base and norm(t.slice) == key for t in st.targets)]
            if stores:
                n += 1
                ctx.violated(rule, f.where(c), f"`{norm(c)[:60]}` takes the field {key} out of the record's tag mapping and `{norm(stores[0])[:50]}` puts it back: in an insertion-ordered dict the field moves to the end, so a record whose {key} is followed by other optional fields is written with its fields in another order", key_of(f, f"tag-pop-reinsert:{key}"))
    if n == 0:
        ctx.holds(rule, "gaftools/", "no writer takes a field out of a record's tag mapping and stores it again (which would move it to the end)", nontrivial=False)


def pre_lints(ctx):
    """Model-free lints over the source files the property depends on, evaluated before any model of the code is built (a
    construct that is wrong whatever the surrounding code means is reported even when the rest of the check cannot read the
    changed code): ordering comparison of two pieces of text, identity comparison of values, a list changed while it is
    iterated, and a record line cut at any white space instead of at tabs."""
    from .common import FILE_PROPS

    repo = ctx.repo
    rel = {m.relpath: m for m in repo.modules.values()}
    mods = [rel[f_] for f_, props in FILE_PROPS.items() if ctx.prop in props and f_ in rel]
    if not mods:
        return
    _once(ctx, "lib-text-lint")
    ctx.__dict__["_prelinted"] = {m.name for m in mods}
    text_lint(ctx, mods)
    funcs = [f for m in mods for f in m.funcs.values()]
    n = pitfall_lints(ctx, funcs, "R00.7")
    for f in funcs:
        for c in walk_own(f.node):
            if isinstance(c, ast.Call) and isinstance(c.func, ast.Attribute) and c.func.attr == "split" and not c.keywords and (not c.args or (isinstance(c.args[0], ast.Constant) and c.args[0].value is None)):
                base = c.func.value
                while isinstance(base, ast.Call) and isinstance(base.func, ast.Attribute) and base.func.attr in ("strip", "rstrip", "lstrip", "decode"):
                    base = base.func.value
                if isinstance(base, ast.Name) and any(w in base.id.lower() for w in ("line", "mapping", "record", "row")) or (isinstance(base, ast.Name) and len(base.id) <= 2):
                    n += 1
                    ctx.violated("R00.8", f.where(c), f"`{norm(c)[:50]}` cuts a line of the file at every run of white space, not at the tabs that separate its columns: a blank inside a column (a read name `read1 ch=7`, a tag value `co:Z:two words`) shifts every later column or cuts the value short", key_of(f, f"whitespace-split:{norm(c)[:40]}"))
    # a field of a record class stored as `param or <number / text>`: a legal falsy value (mapping quality 0, offset 0, an
    # empty string) is silently replaced by the default
    for f in funcs:
        if f.cls is None or f.name != "__init__":
            continue
        for st in walk_own(f.node):
            if isinstance(st, ast.Assign) and len(st.targets) == 1 and isinstance(st.targets[0], ast.Attribute) and norm(st.targets[0].value) == "self" and isinstance(st.value, ast.BoolOp) and isinstance(st.value.op, ast.Or) and len(st.value.values) == 2:
                a_, b_ = st.value.values
                if isinstance(a_, ast.Name) and a_.id in f.params and isinstance(b_, ast.Constant) and isinstance(b_.value, (int, float, str)) and not isinstance(b_.value, bool) and b_.value not in (0, ""):
                    n += 1
                    ctx.violated("R00.10", f.where(st), f"`{norm(st)[:60]}`: `or` replaces every falsy value, so a legal {a_.id} of 0 (or an empty string) read from the file becomes {b_.value!r} in the record", key_of(f, f"falsy-default:{st.targets[0].attr}"))
    NUMERIC_TAGS = ("SO", "BO", "NO", "LN", "SR")
    for f in funcs:
        for c in walk_own(f.node):
            if not isinstance(c, ast.Call):
                continue
            is_sort = (isinstance(c.func, ast.Name) and c.func.id in ("sorted", "max", "min")) or (isinstance(c.func, ast.Attribute) and c.func.attr == "sort")
            if not is_sort:
                continue
            key = next((k.value for k in c.keywords if k.arg == "key"), None)
            if isinstance(key, ast.Lambda):
                parts = key.body.elts if isinstance(key.body, ast.Tuple) else [key.body]
                for e in parts:
                    t = norm(e)
                    if isinstance(e, ast.Subscript) and any(t.endswith(f".tags['{tg}'][1]") for tg in NUMERIC_TAGS):
                        n += 1
                        ctx.violated("R00.9", f.where(c), f"the sort key `{t[:60]}` is the text of a numeric tag (no int()): offsets are then ordered as strings ('1100' before '600'), and code that relies on the numeric order (the binary search over a contig's segments, the (BO, NO) order of the S lines) meets a misordered list", key_of(f, f"text-sort-key:{t[:40]}"))
            if key is None and isinstance(c.func, ast.Name) and c.func.id in ("max", "min") and len(c.args) == 1 and isinstance(c.args[0], ast.Call) and isinstance(c.args[0].func, ast.Attribute) and c.args[0].func.attr == "items" and not c.args[0].args:
                n += 1
                ctx.violated("R00.9", f.where(c), f"`{norm(c)[:50]}` takes the {c.func.id}imum of (key, value) pairs without a key function: pairs compare by their first element, so the entry with the {'greatest' if c.func.id == 'max' else 'smallest'} *key* is chosen, whatever the values (counts) are", key_of(f, f"minmax-of-items:{norm(c)[:40]}"))
    if n == 0:
        ctx.holds("R00.7", ", ".join(m.relpath for m in mods), "model-free lints (identity comparison of values, list changed while iterated, white-space split of a record line): nothing found", nontrivial=False)
