"""Rules about mechanisms that several properties rest on, grouped into bundles.

A property is broken just as well by a change in a shared mechanism (the GAF reader, the optional-field parser, the graph
loader, the contig-path helper, the index builder, the command-line layer) as by a change in the command's own function.
Each bundle evaluates the rules of one mechanism; every property that depends on the mechanism runs the bundle, so the change
is reported by the check of the property it breaks and not only by the property that "owns" the mechanism.

R17.6  reader contract: GAF.read_file hands every line of the file to the parser (no filter), GAF.read_line always seeks to
       the offset it is given and reads one whole line
R16.9  the parser stores each mandatory column as read (a column's local is bound once)
R07.12 the graph loader stores a segment's sequence and tag names verbatim, and every link whose two segments exist
R00.1  no log handler writes to standard output (the commands write their records there)
R00.2  the command-line layer does not rewrite an option whose order matters
R00.3  no ordering comparison between two pieces of text that denote numbers
R00.4  the directory of a file name is not tested without a fallback for bare names
"""

from __future__ import annotations

import ast

from ..core import AnalysisError, const_value, norm, walk_own, walk_stmts, names_in, same_func, local_defs
from ..paths import enum_paths, canon_test
from .common import key_of, gaf_schema


def _once(ctx, name):
    done = ctx.__dict__.setdefault("_bundles", set())
    if name in done:
        return False
    done.add(name)
    return True


# ---------------------------------------------------------------------------------------------
# the GAF reader
# ---------------------------------------------------------------------------------------------


def reader_consumed_once(ctx):
    """The records of one reader object are drawn by one iteration: `read_file()` is a generator over the reader's single file
    handle, so a second `read_file()` on the same object (a `next(g.read_file(), None)` to peek at the first record, a count
    before the real loop) takes records away from the other iteration."""
    repo = ctx.repo
    n = 0
    for f in repo.all_funcs():
        calls = {}
        for c in walk_own(f.node):
            if isinstance(c, ast.Call) and isinstance(c.func, ast.Attribute) and c.func.attr == "read_file" and isinstance(c.func.value, ast.Name):
                calls.setdefault(c.func.value.id, []).append(c)
        for recv, cs in calls.items():
            stores = sum(1 for x in walk_own(f.node) if isinstance(x, ast.Name) and x.id == recv and isinstance(x.ctx, ast.Store))
            if len(cs) > 1 and stores <= 1:
                n += 1
                ctx.violated("R17.6", f.where(cs[0]), f"`{recv}.read_file()` is called {len(cs)} times on the same reader object: both generators read from its one file handle, so the records taken by the first (a peek with next(), a pre-scan) are missing from the second", key_of(f, f"reader-consumed-twice:{recv}"))
    if n == 0:
        ctx.holds("R17.6", "gaftools/", "no reader object has read_file() called on it twice in one function", nontrivial=False)


def r16_10(ctx):
    """The parsed record carries what the line said: (a) the record constructor stores each value it is handed unchanged
    in its field; (b) the parser's value for `no CIGAR field` is the empty string — the record's __str__ writes the CIGAR
    back into the tag mapping whenever it is truthy, so any other default invents a field."""
    repo = ctx.repo
    schema, extras = gaf_schema(repo, "R16.10")
    ctor = repo.find_func("gaftools.gaf", f"{extras['class']}.__init__")
    if ctor is None:
        raise AnalysisError("R16.10", "gaftools/gaf.py", "cannot find the record constructor")
    ctx.analysed_func(ctor)
    params = set(ctor.params[1:])
    n_store = 0
    for st in walk_own(ctor.node):
        if isinstance(st, ast.Assign) and len(st.targets) == 1 and isinstance(st.targets[0], ast.Attribute) and norm(st.targets[0].value) == "self":
            used = {x.id for x in ast.walk(st.value) if isinstance(x, ast.Name)} & params
            if not used:
                continue
            n_store += 1
            if isinstance(st.value, ast.Name):
                continue
            ctx.violated("R16.10", ctor.where(st), f"the record constructor stores `{norm(st.value)[:70]}` in the field `{st.targets[0].attr}`, not the value parsed from the line: every consumer of the record (view, realign, stat, the converters) then works on an edited value", key_of(ctor, f"ctor-edits:{st.targets[0].attr}:{norm(st.value)[:40]}"))
    ctx.require_count("R16.10", n_store, 12, ctor.where(), "fields stored by the record constructor from its parameters")
    ctx.holds("R16.10", ctor.where(), f"the record constructor stores each of its {n_store} parameters unchanged")
    # (b) the parser's CIGAR local: the argument handed over as the constructor's cigar parameter
    pf = extras["parser_nf"]
    ret = None
    for n in walk_own(pf.node):
        if isinstance(n, ast.Return) and isinstance(n.value, ast.Call):
            c = repo.resolve_call(pf, n.value)
            if c is not None and c.name == "__init__":
                ret = n.value
    if ret is None:
        raise AnalysisError("R16.10", pf.where(), "parser does not return a constructed record")
    cparams = ctor.params[1:]
    amap = {p_: a for p_, a in zip(cparams, ret.args)}
    amap.update({k.arg: k.value for k in ret.keywords if k.arg})
    cparam = next((p_ for p_ in cparams if p_ == extras["cigar_attr"] or p_ == "cigar"), None)
    carg = amap.get(cparam)
    if not isinstance(carg, ast.Name):
        raise AnalysisError("R16.10", pf.where(ret), "cannot find the local that carries the CIGAR to the record constructor")
    consts = [st for st in walk_own(pf.node) if isinstance(st, ast.Assign) and len(st.targets) == 1 and norm(st.targets[0]) == carg.id and isinstance(st.value, ast.Constant)]
    if not consts:
        raise AnalysisError("R16.10", pf.where(ret), f"`{carg.id}` has no constant default in the parser: what a record without a cg:Z field carries is not read")
    for st in consts:
        ctx.check(st.value.value == "" or st.value.value is None, "R16.10", pf.where(st), "a record without a cg:Z field carries an empty CIGAR (the serialiser writes a truthy CIGAR back as a cg:Z field)", key_of(pf, f"cigar-default:{st.value.value!r}"), default=repr(st.value.value))


def r16_11(ctx):
    """Every constant key with which a parsed record's tag mapping is consulted has the form the parser stores
    (`TAG:TYPE:`, e.g. "tp:A:"): a look-up with "tp:A" or "cg:Z" can never find anything and silently takes its default."""
    import re as _re

    from .common import record_params

    repo = ctx.repo
    schema, extras = gaf_schema(repo, "R16.11")
    tags_attr = extras["tags_attr"]
    form = _re.compile(r"^[A-Za-z][A-Za-z0-9]:[AifZHB]:$")
    n = bad = 0
    for f in repo.all_funcs():
        if f.module.name in ("gaftools.gfa", "gaftools.cli.order_gfa"):
            continue
        recs = set(record_params(f, schema)) | ({"self"} if f.cls == extras["class"] else set())
        for x in walk_own(f.node):
            if isinstance(x, ast.For) and isinstance(x.iter, ast.Call) and isinstance(x.iter.func, ast.Attribute) and x.iter.func.attr == "read_file" and isinstance(x.target, ast.Name):
                recs.add(x.target.id)
            if isinstance(x, ast.Assign) and isinstance(x.value, ast.Call) and isinstance(x.value.func, ast.Attribute) and x.value.func.attr in ("read_line", "parse_gaf_line") and isinstance(x.targets[0], ast.Name):
                recs.add(x.targets[0].id)
        if not recs:
            continue
        bases = {f"{r}.{tags_attr}" for r in recs}
        for x in walk_own(f.node):
            key = None
            if isinstance(x, ast.Subscript) and norm(x.value) in bases:
                key = x.slice
            elif isinstance(x, ast.Call) and isinstance(x.func, ast.Attribute) and x.func.attr in ("get", "pop", "setdefault") and norm(x.func.value) in bases and x.args:
                key = x.args[0]
            elif isinstance(x, ast.Compare) and len(x.ops) == 1 and isinstance(x.ops[0], (ast.In, ast.NotIn)) and norm(x.comparators[0]) in bases | {b + ".keys()" for b in bases}:
                key = x.left
            if key is None or not (isinstance(key, ast.Constant) and isinstance(key.value, str)):
                continue
            n += 1
            if not form.match(key.value):
                bad += 1
                ctx.violated("R16.11", f.where(x), f"`{norm(x)[:70]}` consults the record's optional fields with the key {key.value!r}: the parser stores them under `TAG:TYPE:` (e.g. 'tp:A:'), so this key is never present and the look-up silently takes its default / its absent branch for every record", key_of(f, f"tag-key-form:{key.value}"))
    if not bad:
        ctx.holds("R16.11", "gaftools/", f"all {n} constant keys used on a parsed record's tag mapping have the stored form TAG:TYPE:", nontrivial=n > 0)


def gaf_reader(ctx):
    """openers (R17.1), whole-line reads (R17.5), reader contract (R17.6)"""
    if not _once(ctx, "gaf_reader"):
        return
    from . import c17

    ctx.run(c17.r17_1)
    ctx.run(c17.r17_5)
    ctx.run(c17.r17_8)
    ctx.run(r17_6)
    ctx.run(reader_consumed_once)
    ctx.run(r16_9)
    ctx.run(r16_10)
    ctx.run(r16_11)


def _reader_class(repo, rule):
    pf = repo.func("gaftools.gaf", "GAF.parse_gaf_line", rule)
    methods = [f for f in pf.module.funcs.values() if f.cls == pf.cls and f.parent is None] if hasattr(pf, "parent") else []
    if not methods:
        methods = [f for f in repo.all_funcs() if f.module is pf.module and f.cls == pf.cls]
    from ..core import inline_object_aliases

    # `handle = self.file; handle.seek(o)` is an operation on self.file
    methods = [inline_object_aliases(f) if not same_func(f, pf) else f for f in methods]
    return pf, methods


def _yields(node):
    return [n for n in ast.walk(node) if isinstance(n, (ast.Yield, ast.YieldFrom))]


def r17_6(ctx):
    repo = ctx.repo
    pf, methods = _reader_class(repo, "R17.6")
    handle_attrs = set()
    for f in methods:
        if f.name == "__init__":
            for st in walk_own(f.node):
                if isinstance(st, ast.Assign) and isinstance(st.targets[0], ast.Attribute) and isinstance(st.value, ast.Call) and norm(st.value.func).split(".")[-1] in ("open", "BGZFile"):
                    handle_attrs.add(norm(st.targets[0]))
    if not handle_attrs:
        raise AnalysisError("R17.6", pf.where(), "cannot find the attribute holding the reader's file handle")

    def is_parse_call(f, c):
        return isinstance(c, ast.Call) and same_func(repo.resolve_call(f, c), pf)

    # ---- the parser turns no line away for the number of its columns unless mandatory columns are missing: a record with
    # exactly the 12 mandatory columns and no optional field is a valid record
    from .c09 import guards_of as _go6

    for r_ in walk_own(pf.node):
        if isinstance(r_, (ast.Return, ast.Raise)) and (isinstance(r_, ast.Raise) or r_.value is None or (isinstance(r_.value, ast.Constant) and r_.value.value is None)):
            for t_, pol_ in _go6(pf.node, r_):
                for c_ in ast.walk(t_):
                    if isinstance(c_, ast.Compare) and len(c_.ops) == 1 and isinstance(c_.left, ast.Call) and norm(c_.left.func) == "len" and isinstance(const_value(c_.comparators[0]), int):
                        import operator as _op

                        fn_ = {ast.Eq: _op.eq, ast.NotEq: _op.ne, ast.Lt: _op.lt, ast.LtE: _op.le, ast.Gt: _op.gt, ast.GtE: _op.ge}.get(type(c_.ops[0]))
                        if fn_ is None or norm(t_) != norm(c_) and not (isinstance(t_, ast.UnaryOp) and norm(t_.operand) == norm(c_)):
                            continue
                        val_ = fn_(12, const_value(c_.comparators[0]))
                        if isinstance(t_, ast.UnaryOp):
                            val_ = not val_
                        if val_ == pol_ and "split" in " ".join(norm(d_) for d_ in (local_defs(pf.node).get(norm(c_.left.args[0]), []) or []) if d_ is not None):
                            ctx.violated("R17.6", pf.where(r_), f"the parser turns a line away when `{norm(t_)[:50]}`, which holds for a line of exactly 12 columns: a record with the mandatory columns and no optional field is valid and is lost (every consumer of the reader misses it)", key_of(pf, f"parser-refuses-12-columns:{norm(c_)[:40]}"))
    # ---- read_file: a generator of the reader class
    gens = [f for f in methods if _yields(f.node) and not same_func(f, pf)]
    n_gen = 0
    for f in gens:
        loops = [n for n in walk_own(f.node) if isinstance(n, ast.For) and _yields(n)]
        for lp in loops:
            if norm(lp.iter) not in handle_attrs:
                continue  # raw / chunked reads are R17.5's
            n_gen += 1
            ctx.analysed_func(f)
            lv = norm(lp.target)
            paths = enum_paths(lp.body, rule="R17.6", where=f.where(lp))
            bad = None
            for p in paths:
                if p.term in ("raise", "exit"):
                    continue
                ys = [e for e in p.events if e.kind == "stmt" and _yields(e.node)]
                if len(ys) == 1:
                    y = _yields(ys[0].node)[0]
                    if not (isinstance(y, ast.Yield) and is_parse_call(f, y.value)):
                        raise AnalysisError("R17.6", f.where(ys[0].node), "the reader yields something else than the parser's result for the line")
                    continue
                if len(ys) > 1:
                    bad = ("twice", p, None)
                    break
                # a line that is not handed on: what decides it?
                tests = [canon_test(t, pol) for t, pol in p.tests()]
                txt = " and ".join(t if pol else f"not ({t})" for t, pol in tests)
                blank = all(t in (f"{lv}.strip()", f"{lv}.rstrip()", lv, f"{lv}.strip() == ''", f"{lv} == '\\n'") for t, _ in tests) and tests
                if blank:
                    continue  # blank lines are not records
                content = any(f"{lv}.startswith(" in t or f"{lv}[0]" in t or f"{lv}[:1]" in t for t, _ in tests)
                if content:
                    bad = ("filter", p, txt)
                    break
                raise AnalysisError("R17.6", f.where(lp), f"a line of the file is not handed to the parser under `{txt[:100]}`: cannot decide which records that drops")
            if bad and bad[0] == "filter":
                ctx.violated("R17.6", f.where(lp), f"the reader skips every line for which `{bad[2][:120]}`: a record whose first column (the read name) begins that way is silently dropped", key_of(f, f"reader-filter:{bad[2][:80]}"), path=bad[1].show())
            elif bad:
                ctx.violated("R17.6", f.where(lp), "a line is yielded more than once on one path", key_of(f, "reader-yields-twice"), path=bad[1].show())
            else:
                ctx.holds("R17.6", f.where(lp), f"every line of the file is handed to the parser and yielded once ({len(paths)} paths through the reader loop)")
        # generator-expression spelling: yield from (parse(l) for l in handle)
        for y in _yields(f.node):
            if isinstance(y, ast.YieldFrom) and isinstance(y.value, ast.GeneratorExp) and len(y.value.generators) == 1 and norm(y.value.generators[0].iter) in handle_attrs:
                n_gen += 1
                g = y.value.generators[0]
                if g.ifs:
                    t = norm(g.ifs[0])
                    if "startswith(" in t or "[0]" in t:
                        ctx.violated("R17.6", f.where(y), f"the reader keeps only lines for which `{t}`: records are silently dropped", key_of(f, f"reader-filter:{t[:80]}"))
                    elif t not in (f"{norm(g.target)}.strip()", norm(g.target)):
                        raise AnalysisError("R17.6", f.where(y), f"filtered reader `{t}`")
                else:
                    ctx.holds("R17.6", f.where(y), "every line of the file is handed to the parser and yielded once")
            elif isinstance(y, ast.YieldFrom) and isinstance(y.value, ast.Call) and norm(y.value.func) == "map" and len(y.value.args) == 2 and norm(y.value.args[1]) in handle_attrs:
                n_gen += 1
                ctx.holds("R17.6", f.where(y), "every line of the file is handed to the parser and yielded once")
    ctx.require_count("R17.6", n_gen, 1, pf.where(), "streaming reader of the GAF class (generator over the file handle)")

    # ---- read_line: seek to the offset, read one whole line
    n_rl = 0
    for f in methods:
        seeks = [c for c in walk_own(f.node) if isinstance(c, ast.Call) and isinstance(c.func, ast.Attribute) and c.func.attr == "seek" and norm(c.func.value) in handle_attrs]
        reads = [c for c in walk_own(f.node) if isinstance(c, ast.Call) and isinstance(c.func, ast.Attribute) and c.func.attr == "readline" and norm(c.func.value) in handle_attrs]
        if not reads or not [p_ for p_ in f.params if p_ != "self"]:
            continue
        if not seeks and not any("offset" in p_ or "pos" in p_ for p_ in f.params):
            continue
        n_rl += 1
        ctx.analysed_func(f)
        off = [p_ for p_ in f.params if p_ != "self"][0]
        for c in reads:
            if c.args or c.keywords:
                ctx.violated("R17.6", f.where(c), f"`{norm(c)}` reads at most {norm(c.args[0]) if c.args else '?'} characters: a longer record is cut and its remaining fields are lost", key_of(f, f"bounded-readline:{norm(c)}"))
            else:
                ctx.holds("R17.6", f.where(c), "the record at an offset is read as one whole line")
        # the reader hands back whatever line is at the offset: it does not turn lines away by their content (a valid last
        # record without a line end, a record that fills a BGZF block to the byte)
        for r_ in walk_own(f.node):
            if isinstance(r_, ast.Raise) or (isinstance(r_, ast.Return) and (r_.value is None or (isinstance(r_.value, ast.Constant) and r_.value.value is None))):
                from .c09 import guards_of as _go

                read_names = {norm(st_.targets[0]) for st_ in walk_own(f.node) if isinstance(st_, ast.Assign) and len(st_.targets) == 1 and any(x_ is c_ for c_ in reads for x_ in ast.walk(st_.value))}
                gs_ = [norm(t_) for t_, _p in _go(f.node, r_) if read_names & {x_.id for x_ in ast.walk(t_) if isinstance(x_, ast.Name)}]
                if gs_:
                    ctx.violated("R17.6", f.where(r_), f"the reader of the record at an offset gives up ({'raise' if isinstance(r_, ast.Raise) else 'return None'}) depending on the text of the line it read (`{gs_[0][:60]}`): a correctly indexed record that does not look as expected there — the last record of a file without a final line end, a record read from a BGZF block boundary — cannot be fetched", key_of(f, f"reader-refuses-line:{gs_[0][:40]}"))
        paths = enum_paths(f.node.body, rule="R17.6", where=f.where())
        verdict = None
        for p in paths:
            seen_seek = False
            for e in p.events:
                if e.kind != "stmt":
                    continue
                if any(x is s for s in seeks for x in ast.walk(e.node)):
                    seen_seek = True
                if any(x is r for r in reads for x in ast.walk(e.node)) and not seen_seek:
                    tests = [canon_test(t, pol) for t, pol in p.tests()]
                    if any(t == off for t, pol in tests):
                        verdict = ("zero", p)
                    elif all(t in (f"{off} is None", f"{off} is not None") for t, pol in tests) and tests:
                        continue  # an explicit "no offset": read on from the current position
                    else:
                        verdict = verdict or ("unknown", p)
        if verdict and verdict[0] == "zero":
            ctx.violated("R17.6", f.where(), f"the handle is not positioned when `{off}` is 0 (truthiness test): the record at offset 0 cannot be fetched after another read", key_of(f, f"seek-skipped-for-zero:{off}"), path=verdict[1].show())
        elif verdict:
            raise AnalysisError("R17.6", f.where(), "a path reads a line without seeking to the given offset first")
        else:
            ok = all(s.args and norm(s.args[0]) == off for s in seeks)
            ctx.check(ok and bool(seeks), "R17.6", f.where(), "the indexed reader seeks to exactly the offset it is given before it reads the line", key_of(f, f"seek-arg:{[norm(s) for s in seeks]}"))
    ctx.require_count("R17.6", n_rl, 1, pf.where(), "offset reader of the GAF class (seek + readline)")


def r16_9(ctx):
    """Each mandatory column reaches the record as it was read: the local that carries it is not bound again to anything
    that is not that column."""
    repo = ctx.repo
    schema, extras = gaf_schema(repo, "R16.9")
    pf = extras["parser_nf"]
    for var, vals in sorted(extras["rebound"].items()):
        ctx.violated("R16.9", pf.where(), f"column variable `{var}` is bound again to `{vals[0][:60]}` after it was read from the line: the record no longer carries the value of the file", key_of(pf, f"column-rebound:{var}:{vals[0][:40]}"))
    if not extras["rebound"]:
        ctx.holds("R16.9", pf.where(), f"each of the {extras['n_col_vars']} column variables handed to the record is bound only from its column")


# ---------------------------------------------------------------------------------------------
# the optional-field parser
# ---------------------------------------------------------------------------------------------


def tag_parser(ctx):
    """grammar inclusion (R16.1), optional columns only (R16.2), every new well-formed field stored, loop not left early
    (R16.6; repeated fields are C16's own finding), record-owned mapping (R16.8)"""
    if not _once(ctx, "tag_parser"):
        return
    from . import c16
    from .c19 import tag_loop, tag_regex_info

    schema, extras = gaf_schema(ctx.repo, "R16.1")
    pf, loop = tag_loop(ctx, "R16.1")
    info = tag_regex_info(pf, loop, "R16.1")
    ctx.run(c16.r16_1, pf, loop, info)
    ctx.run(c16.r16_2, pf, loop)
    ctx.run(c16.r16_3_6, pf, loop, info, report_repeats=False)
    ctx.run(c16.r16_8, extras)


# ---------------------------------------------------------------------------------------------
# the graph loader
# ---------------------------------------------------------------------------------------------


def r07_14(ctx):
    """GFA.write_gfa truncates its output unless it is asked to append: `open(path, "a")` is reached only where the `append`
    parameter has been tested true (a mode chosen by whether the file already exists adds to what an earlier run left)."""
    repo = ctx.repo
    wf = repo.func("gaftools.gfa", "GFA.write_gfa", "R07.14")
    ap = next((p_ for p_ in wf.params if "append" in p_), None)
    if ap is None:
        raise AnalysisError("R07.14", wf.where(), "the writer has no append parameter")
    from .c09 import guards_of

    n = 0
    for c in walk_own(wf.node):
        if not (isinstance(c, ast.Call) and norm(c.func) in ("open", "io.open", "gzip.open") and len(c.args) >= 2):
            continue
        n += 1
        me = c.args[1]
        cands = []  # (mode text, node whose guards decide it)
        if isinstance(me, ast.Constant):
            cands.append((me.value, c))
        elif isinstance(me, ast.IfExp):
            stmt_ = next((s2 for s2 in walk_stmts(wf.node.body) if not isinstance(s2, (ast.If, ast.For, ast.While, ast.With, ast.Try)) and any(x is c for x in ast.walk(s2))), None)
            for arm, pol in ((me.body, True), (me.orelse, False)):
                if isinstance(arm, ast.Constant) and stmt_ is not None:
                    cands.append((arm.value, (stmt_, me.test, pol)))
        elif isinstance(me, ast.Name):
            for st in walk_own(wf.node):
                if isinstance(st, ast.Assign) and len(st.targets) == 1 and norm(st.targets[0]) == me.id:
                    v = st.value
                    if isinstance(v, ast.Constant):
                        cands.append((v.value, st))
                    elif isinstance(v, ast.IfExp):
                        for arm, pol in ((v.body, True), (v.orelse, False)):
                            if isinstance(arm, ast.Constant):
                                cands.append((arm.value, (st, v.test, pol)))
                    else:
                        raise AnalysisError("R07.14", wf.where(st), f"cannot read the open mode `{norm(v)[:40]}`")
        else:
            raise AnalysisError("R07.14", wf.where(c), f"cannot read the open mode `{norm(me)[:40]}`")
        for mode, site in cands:
            if not (isinstance(mode, str) and mode.startswith("a")):
                continue
            tests = []
            if isinstance(site, tuple):
                st, t_, pol_ = site
                tests = [canon_test(t_, pol_)] + [canon_test(t, p) for t, p in guards_of(wf.node, st)]
                where = st
            else:
                stmt = next((s2 for s2 in walk_stmts(wf.node.body) if not isinstance(s2, (ast.If, ast.For, ast.While, ast.With, ast.Try)) and any(x is site for x in ast.walk(s2))), site)
                tests = [canon_test(t, p) for t, p in guards_of(wf.node, stmt)]
                where = stmt
            def _dead(t_, pol_):
                # a test between literals (the parameter was replaced by the constant every caller passes): the arm it rules out is dead
                import re as _re

                m_ = _re.fullmatch(r"(True|False|None) (is|==) (True|False|None)", t_)
                return bool(m_) and ((m_.group(1) == m_.group(3)) != pol_)

            if any(_dead(t, pol) for t, pol in tests) or any(t in ("False", "None") and pol is True or t == "True" and pol is False for t, pol in tests):
                continue
            asked = any((t == ap and pol is True) or (t in (f"{ap} is False", f"{ap} == False") and pol is False) or (ap in t and "and" in t and pol is True) for t, pol in tests)
            if not asked:
                ctx.violated("R07.14", wf.where(where), f"the writer opens its output for appending (mode {mode!r}) on a path where `{ap}` has not been tested true ({[t for t, _ in tests][:2]}): with {ap}=False — what order_gfa passes — a file left by an earlier run is extended, so every segment and link is written twice and L lines come before S lines", key_of(wf, f"append-without-being-asked:{mode}"))
    ctx.require_count("R07.14", n, 1, wf.where(), "open calls of the GFA writer")
    ctx.holds("R07.14", wf.where(), "the GFA writer appends only when asked to (append tested true); otherwise it truncates", nontrivial=True)


def graph_loader(ctx):
    """links after segments (R06.6), bounded tag split (R07.4), S line -> add_node (R07.10), tag-less links (R07.11),
    verbatim storage and unfiltered links (R07.12)"""
    if not _once(ctx, "graph_loader"):
        return
    from . import c06, c07
    from . import gfa_common as gc

    g = gc.build(ctx, "R07.4")
    ctx.run(c06.r06_6)
    ctx.run(c07.r07_4, g)
    ctx.run(c07.r07_10, g)
    ctx.run(c07.r07_11, g)
    ctx.run(r07_12, g)
    ctx.run(r07_14)


def r07_12(ctx, g):
    repo = ctx.repo
    an = g.add_node  # normal form: private helpers inlined, aliases of the node's tag mapping written out
    ctx.analysed_func(an)
    from ..core import make_resolver

    res_ = make_resolver(an.node.body)
    params = [p for p in an.params if p != "self"]
    if len(params) < 3:
        raise AnalysisError("R07.12", an.where(), "add_node does not take (id, sequence, tags)")
    seqp = params[1]
    n = 0
    for st in walk_own(an.node):
        if isinstance(st, ast.Assign) and isinstance(st.targets[0], ast.Attribute) and st.targets[0].attr == "seq":
            n += 1
            v = st.value
            if isinstance(v, ast.Name) and v.id == seqp:
                ctx.holds("R07.12", an.where(st), "the segment's sequence is stored as given")
            elif isinstance(v, ast.Call) and isinstance(v.func, ast.Attribute) and isinstance(v.func.value, ast.Name) and v.func.value.id == seqp and v.func.attr in ("upper", "lower", "strip", "rstrip", "lstrip", "replace", "casefold", "title", "capitalize", "swapcase", "translate"):
                ctx.violated("R07.12", an.where(st), f"the segment's sequence is stored as `{norm(v)}`, not as given: the graph written back differs from the one read (e.g. soft-masked lower-case bases)", key_of(an, f"seq-stored:{norm(v)}"))
            else:
                raise AnalysisError("R07.12", an.where(st), f"the sequence is stored as `{norm(v)[:60]}`")
    ctx.require_count("R07.12", n, 1, an.where(), "store of the segment sequence in add_node")
    # tag names: the key under which a tag is stored is the first piece of the split, unchanged
    nt = 0
    for st in walk_own(an.node):
        if isinstance(st, ast.Assign) and isinstance(st.targets[0], ast.Subscript) and isinstance(st.targets[0].value, ast.Attribute) and st.targets[0].value.attr == "tags":
            nt += 1
            k = res_(st.targets[0].slice)
            if isinstance(k, ast.Subscript) and const_value(k.slice, None) == 0:
                ctx.holds("R07.12", an.where(st), "a tag is stored under its name as written in the file")
            elif isinstance(k, ast.Name):
                ctx.holds("R07.12", an.where(st), "a tag is stored under its name as written in the file", nontrivial=False)
            elif isinstance(k, ast.Call) and isinstance(k.func, ast.Attribute) and k.func.attr in ("upper", "lower", "strip", "casefold", "title", "capitalize", "swapcase"):
                ctx.violated("R07.12", an.where(st), f"a tag is stored under `{norm(k)}`: two tags of one segment that differ only in what `{k.func.attr}()` removes collapse into one (a user tag `no:i:7` overwrites NO)", key_of(an, f"tag-key:{norm(k)}"))
            else:
                raise AnalysisError("R07.12", an.where(st), f"a tag is stored under `{norm(k)[:60]}`")
    # ... nor is the name changed on the way to the store (`tag[0] = tag[0].upper()` for "known" names)
    for st in walk_own(an.node):
        if isinstance(st, ast.Assign) and isinstance(st.value, ast.Call) and isinstance(st.value.func, ast.Attribute) and st.value.func.attr in ("upper", "lower", "casefold", "title", "capitalize", "swapcase") and isinstance(st.targets[0], (ast.Subscript, ast.Name)) and norm(st.targets[0]) == norm(st.value.func.value):
            ctx.violated("R07.12", an.where(st), f"`{norm(st)[:60]}` rewrites a tag name before it is stored: a segment that carries both spellings (a user tag `no:i:7` next to `NO:i:0`, `sr:i:` read support next to `SR:i:`) ends up with one of them, the later overwriting the earlier", key_of(an, f"tag-name-rewritten:{norm(st.value)[:30]}"))
    ctx.require_count("R07.12", nt, 1, an.where(), "store of a segment tag in add_node")
    # links: in the loop that adds the buffered links the only way past a link is the missing-segment guard
    rg = repo.func("gaftools.gfa", "GFA.read_graph", "R07.12")
    from ..core import tail_inlined

    rgn = tail_inlined(repo, rg, keep=lambda callee: callee.name in ("add_edge", "add_node"))
    nl = 0
    for lp in walk_own(rgn.node):
        if not isinstance(lp, ast.For):
            continue
        adds = [c for c in ast.walk(lp) if isinstance(c, ast.Call) and isinstance(c.func, ast.Attribute) and c.func.attr == "add_edge"]
        if not adds:
            continue
        if any(isinstance(x, ast.For) and x is not lp and any(a is y for a in adds for y in ast.walk(x)) for x in ast.walk(lp)):
            continue  # an outer loop (over the lines of the file) that contains the link loop
        nl += 1
        paths = enum_paths(lp.body, rule="R07.12", where=rgn.where(lp))
        for p in paths:
            if p.term in ("raise", "exit"):
                continue
            if any(e.kind == "stmt" and any(a is x for a in adds for x in ast.walk(e.node)) for e in p.events):
                continue
            tests = [canon_test(t, pol) for t, pol in p.tests()]
            why = [t for t, pol in tests if not ("in self" in t or "in self.nodes" in t or ".startswith(" in t or "len(" in t)]
            if why:
                # a "link already present" test that looks at the neighbour's id only conflates links that differ in the
                # side at which they enter the neighbour
                proj = None
                for t, pol in p.tests():
                    for c in ast.walk(t):
                        if isinstance(c, ast.Call) and isinstance(c.func, ast.Attribute):
                            cal = repo.resolve_call(rgn, c)
                            if cal is not None and cal.cls is not None and cal.cls != rg.cls:
                                ents = [x for x in ast.walk(cal.node) if isinstance(x, ast.Subscript) and isinstance(x.value, ast.Name) and isinstance(const_value(x.slice, None), int)]
                                idx = {const_value(x.slice) for x in ents}
                                if ents and idx == {0} and any(isinstance(x, ast.Attribute) and x.attr in ("start", "end") for x in ast.walk(cal.node)):
                                    proj = cal
                if proj is not None:
                    ctx.violated("R07.12", rgn.where(lp), f"a link of the file is skipped when `{why[0][:90]}`: {proj.qualname} compares the neighbour's id only, not the side at which the link enters it, so a different link between the same two segments (a+ b+ after a+ b-) is dropped", key_of(rgn, f"link-filter-by-id:{proj.qualname}"))
                    continue
                # a condition on the link's own columns (its overlap, an orientation, a length): a link of the file that satisfies
                # it is left out of the graph, and of everything written from it
                link_cols = any(isinstance(x_, ast.Subscript) and isinstance(const_value(x_.slice, None), int) for t_, _pl in p.tests() for x_ in ast.walk(t_))
                if link_cols and not any(isinstance(x_, ast.Call) and repo.resolve_call(rgn, x_) is not None for t_, _pl in p.tests() for x_ in ast.walk(t_)):
                    ctx.violated("R07.12", rgn.where(lp), f"a link of the file is not added to the graph when `{why[0][:90]}`: links are left out by a property of their own (every link whose segments exist belongs to the graph that is written back)", key_of(rgn, f"link-filter:{why[0][:50]}"))
                    continue
                raise AnalysisError("R07.12", rgn.where(lp), f"a link of the file is not added under `{why[0][:100]}`: cannot decide which links that drops")
        ctx.holds("R07.12", rgn.where(lp), f"every link whose two segments exist is added to the graph ({len(paths)} paths through the link loop)")
    ctx.require_count("R07.12", nl, 1, rg.where(), "loop adding the links of the file")
    # segments: an S line is not left out of the graph because of what its sequence column holds (IUPAC codes, lower case, `*`)
    for iff in walk_own(rgn.node):
        if isinstance(iff, ast.If) and "startswith('S')" in norm(iff.test).replace('"', "'"):
            addn = [c for c in ast.walk(iff) if isinstance(c, ast.Call) and isinstance(c.func, ast.Attribute) and c.func.attr == "add_node"]
            if not addn:
                continue
            for st in walk_stmts(iff.body):
                if isinstance(st, (ast.Continue, ast.Break)) or (isinstance(st, ast.Return)):
                    from .c09 import guards_of as _go7

                    for t_, pol_ in _go7(rgn.node, st):
                        if any(x is t_ for x in ast.walk(iff.test)) or not any(x is t_ for x in ast.walk(iff)):
                            continue
                        col2 = any(isinstance(x, ast.Subscript) and const_value(x.slice, None) == 2 for x in ast.walk(t_))
                        if col2 and any(isinstance(x, ast.Call) for x in ast.walk(t_)) or (col2 and any(isinstance(x, ast.Compare) and isinstance(x.ops[0], (ast.In, ast.NotIn)) for x in ast.walk(t_))):
                            ctx.violated("R07.12", rgn.where(st), f"an S line is skipped when `{norm(t_)[:70]}`: the test looks at the sequence column, and a segment whose sequence it does not accept (IUPAC ambiguity codes such as R / Y / M occur in GRCh38) is left out of the graph together with its links — every numbering, order and output derived from the graph changes", key_of(rgn, f"segment-filter:{norm(t_)[:40]}"))
    # the overlap of a link is stored as given: add_edge does not bind its overlap parameter again (a clamp to the segment lengths
    # rewrites every overlap to 0 when the graph was loaded without sequences, as order_gfa and sort do)
    ae = repo.func("gaftools.gfa", "GFA.add_edge", "R07.12")
    ovp = [p_ for p_ in ae.params if "overlap" in p_.lower() or p_.lower() in ("ovl", "ov")]
    if not ovp:
        raise AnalysisError("R07.12", ae.where(), "add_edge has no overlap parameter")
    for st in walk_own(ae.node):
        tg = st.targets if isinstance(st, ast.Assign) else ([st.target] if isinstance(st, ast.AugAssign) else [])
        if any(isinstance(x, ast.Name) and x.id == ovp[0] for t in tg for x in ast.walk(t)):
            v = st.value
            if isinstance(st, ast.Assign) and isinstance(v, ast.Call) and norm(v.func) == "int" and len(v.args) == 1 and norm(v.args[0]) == ovp[0]:
                continue  # a conversion of the same number
            ctx.violated("R07.12", ae.where(st), f"`{norm(st)[:60]}` changes the overlap of the link before it is stored: the link written back (and every later load of it) carries another overlap than the file — with segment lengths of 0 (graphs loaded without sequences) every overlap becomes 0M", key_of(ae, f"overlap-rebound:{norm(st.value)[:40]}"))


# ---------------------------------------------------------------------------------------------
# contig paths, index
# ---------------------------------------------------------------------------------------------


def contig_paths(ctx):
    if not _once(ctx, "contig_paths"):
        return
    from . import c03

    ctx.run(c03.r03_7)


def index_build(ctx):
    if not _once(ctx, "index_build"):
        return
    from . import c03

    run = c03.index_run(ctx, "R03")
    ctx.analysed_func(run)
    info = c03.r03_1(ctx, run)
    ctx.run(c03.r03_2, run, info)
    ctx.run(c03.r03_3, run, info)
    ctx.run(c03.r03_4, run)
    ctx.run(c03.r03_5, run, info)
    ctx.run(c03.r03_6, run, info)
    from . import c17

    ctx.run(c17.r17_7)


# ---------------------------------------------------------------------------------------------
# the command-line layer
# ---------------------------------------------------------------------------------------------

ORDER_OPTIONS = {"chromosome_order", "nodes", "regions"}


def cli_layer(ctx, command, stdout_records=True):
    """command: module name of the subcommand, e.g. 'gaftools.cli.view'"""
    if not _once(ctx, "cli:" + command):
        return
    repo = ctx.repo
    main_mod = repo.modules.get("gaftools.__main__")
    if main_mod is None:
        raise AnalysisError("R00.1", "gaftools/__main__.py", "entry module vanished")
    # R00.1: log handlers
    if stdout_records:
        n = 0
        for mod in repo.modules.values():
            for f in list(mod.funcs.values()):
                for c in walk_own(f.node):
                    if not isinstance(c, ast.Call):
                        continue
                    fn = norm(c.func)
                    if fn.endswith("StreamHandler") or fn.endswith("basicConfig"):
                        n += 1
                        streams = [norm(a) for a in c.args] + [norm(k.value) for k in c.keywords if k.arg == "stream"]
                        if any(s in ("sys.stdout", "stdout", "sys.__stdout__") for s in streams):
                            ctx.violated("R00.1", f.where(c), f"`{norm(c)}` sends log messages to standard output, where the command writes its records when no output file is given: the output is no longer the records alone", key_of(f, f"log-to-stdout:{norm(c)}"))
                        else:
                            ctx.holds("R00.1", f.where(c), "log messages go to standard error (the default stream), not into the records on standard output")
        ctx.require_count("R00.1", n, 1, "gaftools/__main__.py", "log handler set-up")
    mod = repo.modules.get(command)
    if mod is None:
        raise AnalysisError("R00.2", command, "command module vanished")
    cli_funcs = [f for f in mod.funcs.values() if f.name in ("validate", "main") and f.cls is None]
    # R00.2: options rewritten in the command-line layer
    for f in cli_funcs:
        ctx.analysed_func(f)
        argsp = f.params[0] if f.params else None
        for st in walk_own(f.node):
            if isinstance(st, (ast.Assign, ast.AugAssign)):
                tg = st.targets[0] if isinstance(st, ast.Assign) else st.target
                if isinstance(tg, ast.Attribute) and isinstance(tg.value, ast.Name) and tg.value.id == argsp:
                    v = norm(st.value)
                    if tg.attr in ORDER_OPTIONS and ("sorted(" in v or "set(" in v or ".sort(" in v or "{" in v):
                        ctx.violated("R00.2", f.where(st), f"`{norm(st)[:80]}` rewrites --{tg.attr} through a set / sorted(): the order the user asked for is lost before the command runs", key_of(f, f"option-rewritten:{tg.attr}"))
                    else:
                        raise AnalysisError("R00.2", f.where(st), f"the command-line layer rewrites the option `{tg.attr}`: cannot decide whether the command still does what was asked")
    ctx.holds("R00.2", mod.relpath, f"the command-line layer ({', '.join(f.name for f in cli_funcs) or 'main'}) hands the options on as given", nontrivial=False)
    # R00.5: `main(args)` hands all parsed options to the command's run function
    mains = [f for f in cli_funcs if f.name == "main"]
    for f in mains:
        argsp = f.params[0] if f.params else None
        fwd = []
        for c in walk_own(f.node):
            if isinstance(c, ast.Call) and any(k.arg is None and isinstance(k.value, ast.Call) and norm(k.value.func) == "vars" and k.value.args and norm(k.value.args[0]) == argsp for k in c.keywords):
                cal = repo.resolve_call(f, c)
                if cal is not None and cal.module is mod:
                    fwd.append((c, cal))
        stmts = [st for st in f.node.body if not (isinstance(st, ast.Expr) and isinstance(st.value, ast.Constant))]
        uncond = [c for c, _ in fwd if any(isinstance(st, (ast.Expr, ast.Return)) and st.value is c for st in stmts)]
        if not fwd:
            others = [c for c in walk_own(f.node) if isinstance(c, ast.Call) and repo.resolve_call(f, c) is not None]
            if others:
                raise AnalysisError("R00.5", f.where(), "main() does not forward the options with **vars(args): the binding of options to parameters is not traced")
            ctx.violated("R00.5", f.where(), "main() does not call the command's run function: the subcommand parses its options and does nothing", key_of(f, "main-does-not-run"))
        else:
            ctx.check(bool(uncond), "R00.5", f.where(fwd[0][0]), f"main() unconditionally calls {fwd[0][1].qualname}(**vars(args)): every option reaches the parameter of its name", key_of(f, f"main-forwards:{fwd[0][1].qualname}"))
            # every dest of add_arguments is a parameter of the run function (else the call raises TypeError at once)
    if not mains:
        raise AnalysisError("R00.5", mod.relpath, "the command module has no main(args)")
    # R00.6: results are written to a fresh file: no output is opened for appending in the command's module
    for f in mod.funcs.values():
        for c in walk_own(f.node):
            if isinstance(c, ast.Call) and norm(c.func) in ("open", "io.open", "gzip.open", "libcbgzf.BGZFile", "BGZFile") and len(c.args) >= 2 and isinstance(c.args[1], ast.Constant) and isinstance(c.args[1].value, str) and c.args[1].value.startswith("a"):
                ctx.violated("R00.6", f.where(c), f"`{norm(c)[:60]}` opens an output for appending: a file left by an earlier run is kept and the new records are added after it, so the output is not what this run produced", key_of(f, f"append-mode:{norm(c.args[0])[:30]}"))
    ctx.holds("R00.6", mod.relpath, "no output of the command is opened in append mode", nontrivial=False)
    # R00.6 (b): what the command produces does not depend on files left by an earlier run: no early `return` of a command
    # function under a test of the file system state of its output (exists / is newer than the inputs)
    def _fs_probe(fn_, e_, depth=0):
        for x_ in ast.walk(e_):
            if isinstance(x_, ast.Call):
                t_ = norm(x_.func)
                if t_.startswith(("os.path.getmtime", "os.path.exists", "os.path.isfile", "os.path.getsize", "os.stat", "os.path.getctime")) or t_.endswith((".exists", ".is_file", ".stat")):
                    return norm(x_)[:50]
                cal_ = repo.resolve_call(fn_, x_)
                if cal_ is not None and depth < 2:
                    for y_ in walk_own(cal_.node):
                        if isinstance(y_, ast.Call):
                            r_ = _fs_probe(cal_, y_, depth + 1) if norm(y_.func).startswith("os.") or repo.resolve_call(cal_, y_) is not None else None
                            if r_:
                                return r_
        return None

    for f in mod.funcs.values():
        if f.cls is not None or not f.name.startswith("run"):
            continue
        for st in f.node.body:
            if isinstance(st, ast.If) and any(isinstance(x_, ast.Return) and (x_.value is None or isinstance(x_.value, ast.Constant)) for x_ in ast.walk(st)):
                pr = _fs_probe(f, st.test)
                if pr:
                    ctx.violated("R00.6", f.where(st), f"the command returns without doing its work when `{norm(st.test)[:70]}` (it looks at the file system: `{pr}`): what is found at the output path after the run is then whatever an earlier run left there — built from other inputs, other options, or without a file this run was asked for", key_of(f, f"skip-on-existing-output:{norm(st.test)[:40]}"))
    # R00.3 / R00.4 over the command's own module (all functions)
    if mod.name not in ctx.__dict__.get("_prelinted", set()):
        text_lint(ctx, [mod])
    # R00.7: identity comparison of values, a list changed while it is iterated (command module and the library modules)
    libs = [repo.modules[m_] for m_ in ("gaftools.conversion", "gaftools.gfa", "gaftools.gaf", "gaftools.utils") if m_ in repo.modules]
    done_ = ctx.__dict__.get("_prelinted", set())
    if _once(ctx, "lib-text-lint"):
        text_lint(ctx, libs)
    n_p = pitfall_lints(ctx, [f for m_ in [mod] + libs if m_.name not in done_ for f in m_.funcs.values()], "R00.7")
    n_p += lifecycle_lints(ctx, [f for m_ in [mod] + libs if m_.name not in done_ for f in m_.funcs.values()], "R00.11")
    if n_p == 0:
        ctx.holds("R00.7", mod.relpath, "no identity comparison of values and no list changed inside the loop that iterates it (command module and library modules)", nontrivial=False)


def _texty(f, e, defs, depth=0):
    """is `e` a piece of text cut out of a line / a regex match (not converted to a number)?"""
    if isinstance(e, ast.Call):
        if isinstance(e.func, ast.Attribute) and e.func.attr in ("group",):
            return True
        if isinstance(e.func, ast.Attribute) and e.func.attr in ("strip", "rstrip", "lstrip") and depth < 3:
            return _texty(f, e.func.value, defs, depth + 1)
        return False
    if isinstance(e, ast.Subscript) and not isinstance(e.slice, ast.Slice):
        b = e.value
        if isinstance(b, ast.Call) and isinstance(b.func, ast.Attribute) and b.func.attr in ("split", "rsplit", "groups", "partition", "rpartition"):
            return True
        if isinstance(b, ast.Name) and depth < 3 and b.id in defs and len(defs[b.id]) == 1 and defs[b.id][0] is not None:
            d = defs[b.id][0]
            return isinstance(d, ast.Call) and isinstance(d.func, ast.Attribute) and d.func.attr in ("split", "rsplit", "groups")
        return False
    if isinstance(e, ast.Name) and depth < 3 and e.id in defs and len(defs[e.id]) == 1 and defs[e.id][0] is not None:
        return _texty(f, defs[e.id][0], defs, depth + 1)
    if isinstance(e, ast.Name) and depth < 3 and len(defs.get(e.id, [])) > 1:
        # bound on several branches: text on one of them is enough for the comparison to see text there
        return any(d is not None and _texty(f, d, defs, depth + 1) for d in defs[e.id])
    return False


def text_lint(ctx, mods):
    from ..core import local_defs

    n_cmp = n_dir = 0
    for mod in mods:
        for f in mod.funcs.values():
            defs = None
            for c in walk_own(f.node):
                if isinstance(c, ast.Compare) and len(c.ops) == 1 and isinstance(c.ops[0], (ast.Lt, ast.LtE, ast.Gt, ast.GtE)):
                    n_cmp += 1
                    if defs is None:
                        defs = _defs_with_unpack(f)
                    if _texty(f, c.left, defs) and _texty(f, c.comparators[0], defs):
                        ctx.violated("R00.3", f.where(c), f"`{norm(c)}` orders two pieces of text cut out of the input: numbers compare as strings ('900' > '1000'), so valid input is misjudged", key_of(f, f"text-order:{norm(c)}"))
                if isinstance(c, ast.Call) and norm(c.func) in ("os.path.isdir", "os.path.exists", "os.listdir", "os.makedirs", "os.access", "isdir", "exists") and c.args:
                    a = c.args[0]
                    if isinstance(a, ast.Call) and norm(a.func) in ("os.path.dirname", "dirname"):
                        n_dir += 1
                        ctx.violated("R00.4", f.where(c), f"`{norm(c)}`: the directory part of a bare file name is the empty string, which is not an existing directory, so a file in the current directory is rejected", key_of(f, f"dirname-bare:{norm(c)}"))
    ctx.holds("R00.3", ", ".join(m.relpath for m in mods), f"no ordering comparison between two uncoverted pieces of input text ({n_cmp} ordering comparisons inspected)", nontrivial=False)


def _defs_with_unpack(f):
    """local_defs plus tuple-unpacked names: `a, b = m.group(2), m.group(3)` binds a and b to the elements"""
    from ..core import local_defs

    defs = dict(local_defs(f.node))
    for st in walk_own(f.node):
        if isinstance(st, ast.Assign) and isinstance(st.targets[0], ast.Tuple) and isinstance(st.value, ast.Tuple) and len(st.targets[0].elts) == len(st.value.elts):
            for t, v in zip(st.targets[0].elts, st.value.elts):
                if isinstance(t, ast.Name):
                    defs[t.id] = [v] if t.id not in defs or defs[t.id] == [None] else defs[t.id]
        # (a, b) = text.split("-"): each name is one piece of the split
        if isinstance(st, ast.Assign) and isinstance(st.targets[0], ast.Tuple) and isinstance(st.value, ast.Call) and isinstance(st.value.func, ast.Attribute) and st.value.func.attr in ("split", "rsplit", "partition", "rpartition", "groups"):
            for k_, t in enumerate(st.targets[0].elts):
                if isinstance(t, ast.Name):
                    piece = ast.Subscript(value=st.value, slice=ast.Constant(value=k_), ctx=ast.Load())
                    defs[t.id] = [x for x in defs.get(t.id, []) if x is not None] + [piece]
    return defs


# ---------------------------------------------------------------------------------------------
# path tokenisation
# ---------------------------------------------------------------------------------------------

_PRINTABLE = [chr(c) for c in range(33, 127)]


def _class_chars(items):
    """set of printable characters accepted by a parsed character class / single-character item list"""
    import re._constants as sc  # noqa: PLC0415
    import re

    acc = set()
    neg = False
    for op, av in items:
        op = str(op)
        if op == "NEGATE":
            neg = True
        elif op == "LITERAL":
            acc.add(chr(av))
        elif op == "RANGE":
            acc |= {chr(c) for c in range(av[0], av[1] + 1)}
        elif op == "CATEGORY":
            cat = str(av)
            probe = {"CATEGORY_WORD": r"\w", "CATEGORY_NOT_WORD": r"\W", "CATEGORY_DIGIT": r"\d", "CATEGORY_NOT_DIGIT": r"\D", "CATEGORY_SPACE": r"\s", "CATEGORY_NOT_SPACE": r"\S"}.get(cat)
            if probe is None:
                return None
            acc |= {c for c in _PRINTABLE if re.fullmatch(probe, c)}  # the meaning of a category, looked up character by character
        else:
            return None
    return (set(_PRINTABLE) - acc) if neg else acc


def _single_char_set(node):
    """printable characters matched by a one-character regex node, or None"""
    op, av = node
    op = str(op)
    if op == "LITERAL":
        return {chr(av)}
    if op == "NOT_LITERAL":
        return set(_PRINTABLE) - {chr(av)}
    if op == "IN":
        return _class_chars(av)
    if op == "ANY":
        return set(_PRINTABLE)
    if op == "CATEGORY":
        return _class_chars([node])
    if op == "SUBPATTERN":
        sub = list(av[-1])
        if len(sub) == 1:
            return _single_char_set(sub[0])
    if op == "BRANCH":
        out = set()
        for alt in av[1]:
            alt = list(alt)
            if len(alt) != 1:
                return None
            s = _single_char_set(alt[0])
            if s is None:
                return None
            out |= s
        return out
    return None


def path_tokenisers(ctx):
    """R14.5: wherever a path (`>a<b>c` / `>contig:1-5`) is cut into steps, a step's name is a maximal run of characters
    other than the two orientation signs: the separator set of a split is exactly {<, >}; the name class of a findall
    accepts every character but those two.  Decided on the parsed regular expression, not on its text."""
    if not _once(ctx, "path_tokenisers"):
        return
    import re._parser as sp

    from ..core import regex_call

    repo = ctx.repo
    n = 0
    for f in repo.all_funcs():
        for c in walk_own(f.node):
            rcall = regex_call(f.module, c)
            if rcall is None:
                continue
            meth, pat, _ = rcall
            if meth not in ("split", "findall", "finditer") or "<" not in pat or ">" not in pat:
                continue
            n += 1
            # the steps found are the steps used: the list is not thinned out afterwards (a step equal to its predecessor is a
            # second visit — a self-loop `>rep>rep` — not a duplicate)
            for a_ in walk_own(f.node):
                if isinstance(a_, ast.Assign) and len(a_.targets) == 1 and isinstance(a_.targets[0], ast.Name) and a_.value is c:
                    tv_ = a_.targets[0].id
                    for b_ in walk_own(f.node):
                        if isinstance(b_, ast.Assign) and b_ is not a_ and len(b_.targets) == 1 and norm(b_.targets[0]) == tv_ and f.before(a_, b_):
                            v_ = b_.value
                            thinned = (isinstance(v_, ast.ListComp) and any(g_.ifs for g_ in v_.generators) and tv_ in {x_.id for g_ in v_.generators for x_ in ast.walk(g_.iter) if isinstance(x_, ast.Name)} and isinstance(v_.elt, ast.Name)) or (isinstance(v_, ast.Call) and norm(v_.func) in ("list",) and v_.args and isinstance(v_.args[0], ast.Call) and norm(v_.args[0].func) in ("filter", "dict.fromkeys", "set") and tv_ in {x_.id for x_ in ast.walk(v_.args[0]) if isinstance(x_, ast.Name)}) or (isinstance(v_, ast.ListComp) and isinstance(v_.elt, ast.Subscript) and any("groupby" in norm(g_.iter) for g_ in v_.generators))
                            if thinned and not (isinstance(v_, ast.ListComp) and all(norm(i_) in (v_.generators[0].target.id if isinstance(v_.generators[0].target, ast.Name) else "", f"{norm(v_.generators[0].target)} != ''") for g_ in v_.generators for i_ in g_.ifs)):
                                ctx.violated("R14.5", f.where(b_), f"`{norm(b_)[:70]}` removes steps from the path after it was cut into steps: a walk that visits the same oriented segment twice in a row (a self-loop `>a>rep>rep>b`) is spelled / checked / anchored with one visit missing while its coordinates still count both", key_of(f, f"steps-thinned:{tv_}"))
            try:
                tree = list(sp.parse(pat))
            except Exception as ex:  # noqa: BLE001
                raise AnalysisError("R14.5", f.where(c), f"pattern {pat!r} does not parse: {ex}")
            signs = {"<", ">"}
            if meth == "split":
                s = _single_char_set(tree[0]) if len(tree) == 1 else None
                if s is None:
                    raise AnalysisError("R14.5", f.where(c), f"split pattern {pat!r} is not a set of single separator characters")
                extra = sorted(s - signs)
                if s >= signs and not extra:
                    ctx.holds("R14.5", f.where(c), f"the path is split at the orientation signs only ({pat!r}): a step name keeps every other character")
                elif extra:
                    ctx.violated("R14.5", f.where(c), f"the path is also split at {extra[:6]} ({pat!r}): node or contig names containing such a character are cut into pieces", key_of(f, f"path-split:{''.join(extra)[:20]}"))
                else:
                    ctx.violated("R14.5", f.where(c), f"the path is not split at both orientation signs ({pat!r})", key_of(f, f"path-split-missing:{pat}"))
                continue
            # findall / finditer: [sign] name+   or   sign | name+
            name_set = None
            if len(tree) == 2 and _single_char_set(tree[0]) == signs and str(tree[1][0]) in ("MAX_REPEAT", "MIN_REPEAT"):
                lo, hi, sub = tree[1][1]
                sub = list(sub)
                if len(sub) == 1 and lo >= 1:
                    name_set = _single_char_set(sub[0])
            elif len(tree) == 1 and str(tree[0][0]) == "BRANCH":
                alts = [list(a) for a in tree[0][1][1]]
                if len(alts) == 2:
                    for a, b in (alts, alts[::-1]):
                        if len(a) == 1 and _single_char_set(a[0]) == signs and len(b) == 1 and str(b[0][0]) in ("MAX_REPEAT", "MIN_REPEAT"):
                            sub = list(b[0][1][2])
                            if len(sub) == 1:
                                name_set = _single_char_set(sub[0])
            if name_set is None:
                raise AnalysisError("R14.5", f.where(c), f"tokeniser {pat!r} is not of the form sign + name-characters")
            missing = sorted(set(_PRINTABLE) - signs - name_set)
            if name_set & signs:
                ctx.violated("R14.5", f.where(c), f"the name part of {pat!r} also matches an orientation sign: consecutive steps run together", key_of(f, f"path-token-signs:{pat}"))
            elif missing:
                ctx.violated("R14.5", f.where(c), f"the name part of {pat!r} does not accept {missing[:8]}: a node or contig name containing such a character (utg4.1, tig-7, h1#c4, chr6:1-5) is cut at it", key_of(f, f"path-token:{''.join(missing)[:20]}"))
            else:
                ctx.holds("R14.5", f.where(c), f"a step is an orientation sign followed by every character up to the next sign ({pat!r})")
    ctx.require_count("R14.5", n, 5, "gaftools/", "places where a path is cut into steps (regular expressions over < and >)")


# ---------------------------------------------------------------------------------------------
# itertools.groupby groups *runs*: a table keyed by the group key, filled from a sequence in input order, keeps only the
# last run of every key
# ---------------------------------------------------------------------------------------------


def groupby_tables(ctx, funcs, rule):
    """For every loop / comprehension over itertools.groupby(X, ...) in `funcs` that stores one entry per group under the
    group key (`D[key] = ...`, `{key: ... for key, grp in groupby(X)}`): X is sorted by that key (`sorted(...)`, or a
    list `.sort()`ed before).  groupby starts a new group whenever the key changes, so over a sequence in file / input
    order a key that comes back opens a second group and the store overwrites the first."""
    from ..core import AnalysisError, norm, walk_own, walk_stmts

    n = 0
    for f in funcs:
        for node in walk_own(f.node):
            gb = None
            tgt = None
            stores = False
            if isinstance(node, ast.For) and isinstance(node.iter, ast.Call) and norm(node.iter.func) in ("itertools.groupby", "groupby"):
                gb, tgt = node.iter, node.target
                if isinstance(tgt, ast.Tuple) and len(tgt.elts) == 2:
                    knames = {x.id for x in ast.walk(tgt.elts[0]) if isinstance(x, ast.Name)}
                    for st in walk_stmts(node.body):
                        if isinstance(st, ast.Assign) and any(isinstance(t, ast.Subscript) and {x.id for x in ast.walk(t.slice) if isinstance(x, ast.Name)} & knames for t in st.targets):
                            stores = True
            elif isinstance(node, ast.DictComp) and len(node.generators) == 1 and isinstance(node.generators[0].iter, ast.Call) and norm(node.generators[0].iter.func) in ("itertools.groupby", "groupby"):
                gb, tgt = node.generators[0].iter, node.generators[0].target
                if isinstance(tgt, ast.Tuple) and len(tgt.elts) == 2:
                    knames = {x.id for x in ast.walk(tgt.elts[0]) if isinstance(x, ast.Name)}
                    stores = bool({x.id for x in ast.walk(node.key) if isinstance(x, ast.Name)} & knames)
            if gb is None or not stores or not gb.args:
                continue
            n += 1
            src = gb.args[0]
            key = next((k.value for k in gb.keywords if k.arg == "key"), gb.args[1] if len(gb.args) > 1 else None)

            def is_sorted(e, depth=0):
                if isinstance(e, ast.Call) and isinstance(e.func, ast.Name) and e.func.id == "sorted":
                    k2 = next((k.value for k in e.keywords if k.arg == "key"), None)
                    return key is None or k2 is None or norm(k2) == norm(key) or None
                if isinstance(e, ast.Name) and depth < 3:
                    defs = [st.value for st in walk_stmts(f.node.body) if isinstance(st, ast.Assign) and len(st.targets) == 1 and norm(st.targets[0]) == e.id]
                    sorts = [c for c in walk_own(f.node) if isinstance(c, ast.Call) and isinstance(c.func, ast.Attribute) and c.func.attr == "sort" and norm(c.func.value) == e.id and f.before(c, gb)]
                    if sorts:
                        k2 = next((k.value for k in sorts[-1].keywords if k.arg == "key"), None)
                        return key is None or k2 is None or norm(k2) == norm(key) or None
                    if len(defs) == 1:
                        return is_sorted(defs[0], depth + 1)
                return False

            v = is_sorted(src)
            if v is None:
                raise AnalysisError(rule, f.where(gb), f"`{norm(gb)[:70]}` groups a sequence sorted by another key expression: whether equal group keys are adjacent is not decided")
            ctx.check(v, rule, f.where(gb), "a table with one entry per group key is built with itertools.groupby only over a sequence sorted by that key (groupby groups runs: over a sequence in input order a key that comes back overwrites its earlier entry)", key_of(f, f"groupby-unsorted:{norm(src)[:50]}"), **({} if v else {"grouped": norm(src)[:80], "why": "the grouped sequence is in file / input order: the entries of one key need not be adjacent, and each later run replaces the entry of the earlier one"}))
    return n


def none_slice_bounds(ctx, f, rule):
    """A slice bound that can be None — the default of `next(<generator>, None)` / `D.get(k)` bound to a name and used as
    `xs[:i]` / `xs[i:]` without an `is None` test on the way — makes the slice the whole sequence: "cut at the first match"
    silently becomes "everything" when nothing matches.  Returns the number of such slices reported."""
    from ..core import norm, walk_own, walk_stmts
    from .c09 import guards_of

    n = 0
    maybe_none = {}
    for st in walk_stmts(f.node.body):
        if isinstance(st, ast.Assign) and len(st.targets) == 1 and isinstance(st.targets[0], ast.Name):
            v = st.value
            if isinstance(v, ast.Call) and isinstance(v.func, ast.Name) and v.func.id == "next" and len(v.args) == 2 and isinstance(v.args[1], ast.Constant) and v.args[1].value is None:
                maybe_none[st.targets[0].id] = st
            elif isinstance(v, ast.Call) and isinstance(v.func, ast.Attribute) and v.func.attr == "get" and len(v.args) == 1 and not v.keywords:
                maybe_none[st.targets[0].id] = st
    if not maybe_none:
        return 0
    for st in walk_stmts(f.node.body):
        if isinstance(st, (ast.If, ast.For, ast.While, ast.With, ast.Try)):
            continue
        for sub in ast.walk(st):
            if isinstance(sub, ast.Subscript) and isinstance(sub.slice, ast.Slice):
                for b in (sub.slice.lower, sub.slice.upper):
                    if isinstance(b, ast.Name) and b.id in maybe_none:
                        tests = " ; ".join(norm(t) for t, _ in guards_of(f.node, st))
                        if f"{b.id} is None" in tests or f"{b.id} is not None" in tests:
                            continue
                        n += 1
                        ctx.violated(rule, f.where(st), f"`{norm(sub)[:60]}` is cut at `{b.id}` = `{norm(maybe_none[b.id].value)[:70]}`, which is None when nothing matches: a slice with a None bound is the whole sequence, so for a file without a match (a chromosome that is a single segment has no L line) both `[:{b.id}]` and `[{b.id}:]` are all of its lines — they are written twice, once among the S lines and once after the links", key_of(f, f"none-slice-bound:{norm(sub)[:40]}"))
    return n


def zip_drops_item(ctx, funcs, rule):
    """`zip(it, range(n))` evaluated repeatedly on one iterator `it` (inside a loop, `it` not rebound there): zip asks its
    first argument for an item before it finds the bounded argument exhausted, so the item fetched last is thrown away at
    the end of every chunk.  (`zip(range(n), it)` and itertools.islice do not have that problem.)"""
    from ..core import norm, walk_own

    n = 0
    for f in funcs:
        for lp in walk_own(f.node):
            if not isinstance(lp, (ast.While, ast.For)):
                continue
            rebound = {x.id for x in ast.walk(lp) if isinstance(x, ast.Name) and isinstance(x.ctx, ast.Store)}
            for c in ast.walk(lp):
                if isinstance(c, ast.Call) and isinstance(c.func, ast.Name) and c.func.id == "zip" and len(c.args) >= 2:
                    for i, a in enumerate(c.args[:-1]):
                        later_bounded = [b for b in c.args[i + 1 :] if isinstance(b, ast.Call) and isinstance(b.func, ast.Name) and b.func.id == "range"]
                        if isinstance(a, ast.Name) and a.id not in rebound and later_bounded and (a.id in f.params or any(isinstance(st, ast.Assign) and norm(st.targets[0]) == a.id and isinstance(st.value, ast.Call) and norm(st.value.func) in ("iter", "enumerate", "map", "filter", "zip") for st in walk_own(f.node))):
                            n += 1
                            ctx.violated(rule, f.where(c), f"`{norm(c)[:60]}` is evaluated once per chunk on the same iterator `{a.id}`: zip takes the next item from `{a.id}` before it finds `{norm(later_bounded[0])}` exhausted and drops it, so one record is lost at the end of every full chunk (records 1000, 2001, ... of the input never reach a worker)", key_of(f, f"zip-drops-item:{norm(c)[:40]}"))
    return n


def pitfall_lints(ctx, funcs, rule):
    """Two constructs that are wrong whatever the surrounding code means: (a) `is` / `is not` between two values of which
    neither is None / True / False (nor a stream object of `sys`): identity of equal integers above 256 or of equal
    strings built at run time is an accident of the interpreter; (b) a list that is changed (`remove`, `insert`, `pop`,
    `append`, `del xs[i]`) inside the `for` loop that iterates it: the iterator skips the element after each removal."""
    from ..core import norm, walk_own

    n = 0
    _VALUE_CALLS = ("int", "str", "float", "len", "abs", "min", "max", "sum", "round", "ord", "chr", "repr", "bytes")

    def value_evidence(f, o, used_as_value):
        """positive evidence that the operand is a number / text (not an object whose identity means something)"""
        if isinstance(o, ast.Constant) and isinstance(o.value, (int, float, str, bytes)) and not isinstance(o.value, bool):
            return True
        if isinstance(o, (ast.BinOp, ast.JoinedStr, ast.Tuple)):
            return True
        if isinstance(o, ast.Call) and isinstance(o.func, ast.Name) and o.func.id in _VALUE_CALLS:
            return True
        if isinstance(o, ast.Call) and isinstance(o.func, ast.Attribute) and o.func.attr in ("strip", "rstrip", "lstrip", "lower", "upper", "join", "format", "decode", "encode", "count", "index", "find"):
            return True
        t = norm(o)
        if t in used_as_value:
            return True
        if isinstance(o, ast.Attribute) and any(u.endswith("." + o.attr) for u in used_as_value):
            return True  # the same field of a sibling object is ordered / added elsewhere in the function
        return False

    for f in funcs:
        # expressions the function itself treats as numbers or text: operands of <, <=, >, >= and of arithmetic
        used_as_value = set()
        for c in walk_own(f.node):
            if isinstance(c, ast.Compare) and any(isinstance(o, (ast.Lt, ast.LtE, ast.Gt, ast.GtE)) for o in c.ops):
                used_as_value |= {norm(o) for o in [c.left] + list(c.comparators) if isinstance(o, (ast.Name, ast.Attribute, ast.Subscript))}
            if isinstance(c, ast.BinOp) and isinstance(c.op, (ast.Add, ast.Sub, ast.Mult, ast.Mod, ast.FloorDiv, ast.Div)):
                used_as_value |= {norm(o) for o in (c.left, c.right) if isinstance(o, (ast.Name, ast.Attribute, ast.Subscript))}
        singles = {k for k, v in f.module.consts.items() if isinstance(v, ast.Call) and norm(v.func) == "object"}
        singles |= {st.targets[0].id for st in walk_own(f.node) if isinstance(st, ast.Assign) and len(st.targets) == 1 and isinstance(st.targets[0], ast.Name) and isinstance(st.value, ast.Call) and norm(st.value.func) == "object"}
        for c in walk_own(f.node):
            if isinstance(c, ast.Compare) and any(isinstance(o, (ast.Is, ast.IsNot)) for o in c.ops):
                operands = [c.left] + list(c.comparators)
                if any(isinstance(o, ast.Constant) and (o.value is None or isinstance(o.value, bool) or o.value is Ellipsis) for o in operands):
                    continue
                if any(norm(o).startswith("sys.") for o in operands):
                    continue
                if any(isinstance(o, ast.Name) and o.id in singles for o in operands):
                    continue  # a private sentinel (`_MISSING = object()`): identity is the point
                if not any(value_evidence(f, o, used_as_value) for o in operands):
                    continue  # nothing says these are numbers or text: identity of objects may be meant
                n += 1
                ctx.violated(rule, f.where(c), f"`{norm(c)[:70]}` compares object identity, not value: two equal integers above 256 (or two equal strings read from a file) are different objects, so equal values are treated as different", key_of(f, f"identity-of-values:{norm(c)[:50]}"))
            # (e) a module-level table that a function fills with something that depends on more than the key it is filed under
            # (`_last_hit[id(intervals)] = mid`, mid computed from the query): a later call with the same key and other
            # arguments is answered from it, so results depend on the calls that came before
            if isinstance(c, ast.Assign) and len(c.targets) == 1 and isinstance(c.targets[0], ast.Subscript) and isinstance(c.targets[0].value, ast.Name) and isinstance(f.module.consts.get(c.targets[0].value.id), (ast.Dict, ast.Call)) and norm(f.module.consts[c.targets[0].value.id]) in ("{}", "dict()") and c.targets[0].value.id not in f.params and not any(isinstance(a_, ast.Assign) and a_ is not c and isinstance(a_.targets[0], ast.Name) and a_.targets[0].id == c.targets[0].value.id for a_ in walk_own(f.node)):
                from ..core import local_defs as _ld2

                ld_ = _ld2(f.node)

                def _deps(e_, depth=0, seen=()):
                    out_ = set()
                    for x_ in ast.walk(e_):
                        if isinstance(x_, ast.Name) and isinstance(x_.ctx, ast.Load):
                            if x_.id in f.params:
                                out_.add(x_.id)
                            elif x_.id in ld_ and depth < 3 and x_.id not in seen:
                                for d_ in ld_[x_.id]:
                                    if d_ is not None:
                                        out_ |= _deps(d_, depth + 1, seen + (x_.id,))
                    return out_

                kd_, vd_ = _deps(c.targets[0].slice), _deps(c.value)
                extra_ = sorted(vd_ - kd_ - {"self"})
                if kd_ and extra_:
                    n += 1
                    ctx.violated(rule, f.where(c), f"`{norm(c)[:60]}` files a value that depends on {', '.join(extra_)} in the module-level table `{c.targets[0].value.id}` under a key that only says {', '.join(sorted(kd_))}: a later call with the same key and other {', '.join(extra_)} is answered from what an earlier call left there, so the result for one record depends on the records before it", key_of(f, f"module-table-key-incomplete:{c.targets[0].value.id}"))
            # (d) merging sorted intervals: the end of the interval being grown is replaced by the end of the next one instead of
            # the larger of the two (`merged[-1][2] = e` under `s <= merged[-1][2]`): an interval nested in the previous one shrinks it
            if isinstance(c, ast.Assign) and len(c.targets) == 1 and isinstance(c.targets[0], (ast.Subscript, ast.Attribute)) and isinstance(c.value, ast.Name) and "[-1]" in norm(c.targets[0]):
                tgt_ = norm(c.targets[0])
                lp_ = next((l_ for l_ in walk_own(f.node) if isinstance(l_, ast.For) and any(x_ is c for x_ in ast.walk(l_)) and c.value.id in {x_.id for x_ in ast.walk(l_.target) if isinstance(x_, ast.Name)}), None)
                if lp_ is not None:
                    from .c09 import guards_of as _go2

                    for t_, pol_ in _go2(f.node, c):
                        for q_ in ast.walk(t_):
                            if isinstance(q_, ast.Compare) and len(q_.ops) == 1 and isinstance(q_.ops[0], (ast.LtE, ast.Lt, ast.GtE, ast.Gt)) and tgt_ in norm(q_) and any(isinstance(x_, ast.Name) and x_.id in {y_.id for y_ in ast.walk(lp_.target) if isinstance(y_, ast.Name)} and x_.id != c.value.id for x_ in ast.walk(q_)):
                                n += 1
                                ctx.violated(rule, f.where(c), f"`{norm(c)[:50]}` (under `{norm(q_)[:40]}`) replaces the end of the interval being grown by the end of the next one: an interval that lies inside the previous one makes it shorter, so what the longer one covered beyond it is lost (`10-700` followed by `120-130` becomes `10-130`); the larger of the two ends is wanted", key_of(f, f"merge-end-not-max:{tgt_[:30]}"))
                                break
            # (c) a one-shot iterator that is walked with a `break` and used again afterwards: the item taken in the iteration that
            # breaks is gone unless it was saved before the break
            if isinstance(c, ast.For):
                itv = c.iter.args[0] if isinstance(c.iter, ast.Call) and norm(c.iter.func) == "enumerate" and c.iter.args else c.iter
                if isinstance(itv, ast.Name):
                    gens = [st_ for st_ in walk_own(f.node) if isinstance(st_, ast.Assign) and len(st_.targets) == 1 and norm(st_.targets[0]) == itv.id and isinstance(st_.value, ast.Call) and (norm(st_.value.func).split(".")[-1] in ("read_file", "iter", "finditer", "map", "filter", "zip") or (ctx.repo.resolve_call(f, st_.value) is not None and any(isinstance(y_, (ast.Yield, ast.YieldFrom)) for y_ in walk_own(ctx.repo.resolve_call(f, st_.value).node))))]
                    later = [x_ for x_ in walk_own(f.node) if isinstance(x_, ast.Name) and x_.id == itv.id and isinstance(x_.ctx, ast.Load) and x_ is not itv and f.before(c, x_) and not any(y_ is x_ for y_ in ast.walk(c))]
                    tnames = {x_.id for x_ in ast.walk(c.target) if isinstance(x_, ast.Name)} - ({c.target.elts[0].id} if isinstance(c.iter, ast.Call) and isinstance(c.target, ast.Tuple) and isinstance(c.target.elts[0], ast.Name) else set())
                    if gens and later and tnames:
                        for k_, st_ in enumerate(c.body):
                            if any(isinstance(b_, ast.Break) for b_ in ast.walk(st_)) and not isinstance(st_, (ast.For, ast.While)):
                                saved = any(isinstance(a_, ast.Call) and isinstance(a_.func, ast.Attribute) and a_.func.attr in ("append", "add") and a_.args and ({x_.id for x_ in ast.walk(a_.args[0]) if isinstance(x_, ast.Name)} & tnames) for p_ in c.body[:k_] for a_ in ast.walk(p_))
                                if not saved:
                                    n += 1
                                    ctx.violated(rule, f.where(st_), f"the loop over the one-shot iterator `{itv.id}` can leave through `{norm(st_)[:40]}` after an item has been taken and before it is kept anywhere, and `{itv.id}` is used again afterwards (`{norm(later[0])}` at line {getattr(later[0], 'lineno', '?')}): that item is lost (with `if i == 10: break` the 11th record never reaches the second consumer)", key_of(f, f"iterator-item-lost:{itv.id}"))
                                break
            if isinstance(c, ast.For) and isinstance(c.iter, ast.Name):
                xs = c.iter.id
                for m_ in ast.walk(c):
                    hit = None
                    if isinstance(m_, ast.Call) and isinstance(m_.func, ast.Attribute) and isinstance(m_.func.value, ast.Name) and m_.func.value.id == xs and m_.func.attr in ("remove", "insert", "pop", "append", "extend", "clear", "sort", "reverse"):
                        hit = norm(m_)
                    if isinstance(m_, ast.Delete) and any(isinstance(t, ast.Subscript) and isinstance(t.value, ast.Name) and t.value.id == xs for t in m_.targets):
                        hit = norm(m_)
                    if hit:
                        n += 1
                        ctx.violated(rule, f.where(m_), f"`{hit[:60]}` changes the list `{xs}` inside the loop that iterates it: after a removal the iterator skips the next element (after an insertion it sees one twice), so some elements are never processed", key_of(f, f"mutated-while-iterated:{hit[:40]}"))
                        break
    return n


# the one command function that closes its output handle unconditionally in the pinned tree (also when it is sys.stdout).  It is the
# deviant sibling — view, find_path, phase and stat leave standard output open — but what it breaks (a second sort in the same
# process writing to standard output) lies outside the quantifier of C08-C10 (one command, its own output), so it is neither a
# finding of those properties nor may it raise an alarm; a *new* unconditional close anywhere else is reported.
_CLOSES_STDOUT_TODAY = {("gaftools.cli.sort", "run_sort")}


def lifecycle_lints(ctx, funcs, rule):
    """Lifetime and laziness mistakes that are wrong whatever the surrounding code means:
    (a) a one-shot iterator (generator expression, zip / map / filter / iter(...), a generator function's result) bound to a
        name and consumed twice, or handed twice to one zip: the second consumer finds it empty / the pairs are taken from one stream;
    (b) a lambda / generator expression / nested function created in a loop that reads a name the loop rebinds, and is kept
        (appended, put in a tuple, passed as target=) instead of being called at once: it sees the last value;
    (c) a mutable default argument (or a default bound to a local list / dict of the enclosing function) that the function
        fills or that is rebound outside: state survives between calls / the default is the first object for ever;
    (d) a module-level list that a function appends to without emptying it: records of an earlier call are still there;
    (e) `close()` / `with` on a handle that can be sys.stdout without an `is not sys.stdout` test."""
    from ..core import norm, walk_own, walk_stmts
    from .c09 import guards_of

    n = 0
    ONE_SHOT = ("zip", "map", "filter", "iter", "reversed", "enumerate")
    CONSUMERS = ("sum", "any", "all", "list", "tuple", "set", "sorted", "min", "max", "next", "dict", "len")
    for f in funcs:
        # (a)
        gens = {}
        for st in walk_own(f.node):
            if isinstance(st, ast.Assign) and len(st.targets) == 1 and isinstance(st.targets[0], ast.Name):
                v = st.value
                one_shot = isinstance(v, ast.GeneratorExp) or (isinstance(v, ast.Call) and isinstance(v.func, ast.Name) and v.func.id in ONE_SHOT)
                if one_shot:
                    gens.setdefault(st.targets[0].id, []).append(st)
        for g_, defs in gens.items():
            stores = sum(1 for x in walk_own(f.node) if isinstance(x, ast.Name) and x.id == g_ and isinstance(x.ctx, ast.Store))
            if stores != 1:
                continue
            # truth value of an iterator object: always true, also when it will yield nothing
            for x in walk_own(f.node):
                if isinstance(x, (ast.If, ast.While, ast.IfExp, ast.Assert)):
                    t_ = x.test
                    while isinstance(t_, ast.UnaryOp) and isinstance(t_.op, ast.Not):
                        t_ = t_.operand
                    atoms = t_.values if isinstance(t_, ast.BoolOp) else [t_]
                    for a_ in atoms:
                        while isinstance(a_, ast.UnaryOp) and isinstance(a_.op, ast.Not):
                            a_ = a_.operand
                        if isinstance(a_, ast.Name) and a_.id == g_ and getattr(x, "lineno", 0) > defs[0].lineno:
                            n += 1
                            ctx.violated(rule, f.where(x), f"`{norm(x.test)[:40]}` asks for the truth value of `{g_}`, which is bound to the iterator `{norm(defs[0].value)[:40]}`: an iterator object is always true, also when it will yield nothing, so the 'nothing found' outcome this test stands for is never taken (or always, for `if {g_}`)", key_of(f, f"iterator-truth-value:{g_}"))
            uses = []
            for x in walk_own(f.node):
                if isinstance(x, ast.For) and isinstance(x.iter, ast.Name) and x.iter.id == g_:
                    uses.append(x)
                elif isinstance(x, ast.comprehension) and isinstance(x.iter, ast.Name) and x.iter.id == g_:
                    uses.append(x)
                elif isinstance(x, ast.Call) and isinstance(x.func, ast.Name) and x.func.id in CONSUMERS + ONE_SHOT:
                    k_ = sum(1 for a in x.args if isinstance(a, ast.Name) and a.id == g_)
                    if k_ >= 2:
                        n += 1
                        ctx.violated(rule, f.where(x), f"`{norm(x)[:50]}` takes the one-shot iterator `{g_}` twice: both arguments draw from the same stream, so the pairs are (1st, 2nd), (3rd, 4th), ... and every other consecutive pair is never looked at", key_of(f, f"iterator-zipped-with-itself:{g_}"))
                    elif k_ == 1 and x.func.id not in ("len", "next"):
                        uses.append(x)  # (`next(it, None)` takes one item: the primed `while` loop over an explicit iterator is not two consumers)
            # uses inside the loop that the definition is also in are re-evaluated per iteration with a fresh iterator
            def_loop = next((l_ for l_ in walk_own(f.node) if isinstance(l_, (ast.For, ast.While)) and any(y is defs[0] for y in ast.walk(l_))), None)
            uses = [u for u in uses if def_loop is None or any(y is u for y in ast.walk(def_loop)) or True]
            # two consumers on one path: both outside any branch that excludes the other (conservatively: neither is inside an If arm the other is not in)
            if len(uses) >= 2:
                def arms(u):
                    return tuple((id(i_), "b" if any(y is u for b_ in i_.body for y in ast.walk(b_)) else "o") for i_ in walk_own(f.node) if isinstance(i_, ast.If) and any(y is u for y in ast.walk(i_)) and not any(y is u for y in ast.walk(i_.test)))
                a0, a1 = arms(uses[0]), arms(uses[1])
                exclusive = any(i0 == i1 and s0 != s1 for (i0, s0) in a0 for (i1, s1) in a1)
                if not exclusive:
                    n += 1
                    ctx.violated(rule, f.where(uses[1]), f"the one-shot iterator `{g_}` (`{norm(defs[0].value)[:40]}`) is consumed twice (`{norm(uses[0])[:40]}` and `{norm(uses[1])[:40]}`): what the first consumer took is gone, the second sees the rest or nothing (a sum over it is 0, an any() is False)", key_of(f, f"iterator-consumed-twice:{g_}"))
        # (b)
        for lp in walk_own(f.node):
            if not isinstance(lp, (ast.For, ast.While)):
                continue
            rebound = {x.id for x in ast.walk(lp) if isinstance(x, ast.Name) and isinstance(x.ctx, ast.Store)}
            # names rebound after the loop body as well (the closure is evaluated later): names assigned anywhere in the function after creation
            for c in ast.walk(lp):
                late = None
                if isinstance(c, ast.Lambda):
                    free = {x.id for x in ast.walk(c.body) if isinstance(x, ast.Name) and isinstance(x.ctx, ast.Load)} - {a.arg for a in c.args.args + c.args.kwonlyargs}
                    late = c
                elif isinstance(c, ast.GeneratorExp):
                    own = {x.id for g2 in c.generators for x in ast.walk(g2.target) if isinstance(x, ast.Name)}
                    free = ({x.id for x in ast.walk(c.elt) if isinstance(x, ast.Name) and isinstance(x.ctx, ast.Load)} | {x.id for g2 in c.generators for i2 in g2.ifs for x in ast.walk(i2) if isinstance(x, ast.Name)}) - own
                    late = c
                elif isinstance(c, ast.FunctionDef) and c is not f.node:
                    own = {a.arg for a in c.args.args + c.args.kwonlyargs} | {x.id for x in ast.walk(c) if isinstance(x, ast.Name) and isinstance(x.ctx, ast.Store)}
                    free = {x.id for x in ast.walk(c) if isinstance(x, ast.Name) and isinstance(x.ctx, ast.Load)} - own
                    late = c
                if late is None:
                    continue
                captured = sorted(free & rebound)
                if not captured:
                    continue
                # kept for later?  appended / stored in a container / passed as a keyword `target=` / put in a tuple that is appended
                kept = False
                nm = c.name if isinstance(c, ast.FunctionDef) else None
                for k in ast.walk(lp):
                    if isinstance(k, ast.Call):
                        if any(kw.arg in ("target", "key", "callback") and (kw.value is c or (nm and isinstance(kw.value, ast.Name) and kw.value.id == nm)) for kw in k.keywords) and norm(k.func).split(".")[-1] in ("Process", "Thread", "submit", "apply_async"):
                            kept = True
                        if isinstance(k.func, ast.Attribute) and k.func.attr in ("append", "add", "put") and any((y is c) or (nm and isinstance(y, ast.Name) and y.id == nm and isinstance(y.ctx, ast.Load)) for a in k.args for y in ast.walk(a)):
                            kept = True
                        if isinstance(k.func, ast.Attribute) and norm(k.func) in ("itertools.chain", "chain") and any(y is c for a in k.args for y in ast.walk(a)):
                            kept = True
                    if isinstance(k, ast.Assign) and isinstance(k.value, ast.Call) and norm(k.value.func) in ("itertools.chain", "chain") and any(y is c for a in k.value.args for y in ast.walk(a)):
                        kept = True
                if kept:
                    n += 1
                    what = "lambda" if isinstance(c, ast.Lambda) else ("generator expression" if isinstance(c, ast.GeneratorExp) else f"nested function `{c.name}`")
                    ctx.violated(rule, f.where(c), f"a {what} created in a loop reads `{captured[0]}`, which the loop binds again, and is kept to be evaluated later (appended / chained / handed to a process as target): when it finally runs it sees the value of the last iteration (or of a later rebinding), not the one it was created with", key_of(f, f"late-binding-closure:{captured[0]}"))
                    break
        # (b') a list comprehension of lambdas over the comprehension variable
        for c in walk_own(f.node):
            if isinstance(c, ast.ListComp) and isinstance(c.elt, ast.Lambda):
                own = {x.id for g2 in c.generators for x in ast.walk(g2.target) if isinstance(x, ast.Name)}
                free = {x.id for x in ast.walk(c.elt.body) if isinstance(x, ast.Name) and isinstance(x.ctx, ast.Load)} - {a.arg for a in c.elt.args.args}
                dflt = {norm(d_) for d_ in c.elt.args.defaults}
                cap = sorted((free & own) - dflt)
                if cap:
                    n += 1
                    ctx.violated(rule, f.where(c), f"the lambdas built by `{norm(c)[:50]}` all read the comprehension variable `{cap[0]}` when they are called, i.e. its last value: every one of them tests / computes with the last element", key_of(f, f"late-binding-closure:{cap[0]}"))
        # (c)
        a_ = f.node.args
        pos = a_.posonlyargs + a_.args
        for p_, d_ in list(zip(pos[len(pos) - len(a_.defaults):], a_.defaults)) + [(p2, d2) for p2, d2 in zip(a_.kwonlyargs, a_.kw_defaults) if d2 is not None]:
            mutable = isinstance(d_, (ast.Dict, ast.List, ast.Set)) or (isinstance(d_, ast.Call) and norm(d_.func).split(".")[-1] in ("dict", "list", "set", "defaultdict", "OrderedDict", "Counter", "deque"))
            outer_local = isinstance(d_, ast.Name) and f.parent is not None and any(isinstance(x, ast.Assign) and norm(x.targets[0]) == d_.id for x in walk_own(f.parent.node)) and sum(1 for x in walk_own(f.parent.node) if isinstance(x, ast.Assign) and norm(x.targets[0]) == d_.id) >= 2
            if mutable:
                filled = any((isinstance(x, ast.Assign) and isinstance(x.targets[0], ast.Subscript) and norm(x.targets[0].value) == p_.arg) or (isinstance(x, ast.Call) and isinstance(x.func, ast.Attribute) and norm(x.func.value) == p_.arg and x.func.attr in ("append", "add", "update", "setdefault", "extend", "insert")) or (isinstance(x, ast.Subscript) and norm(x.value) == p_.arg and isinstance(d_, ast.Call) and "defaultdict" in norm(d_.func)) for x in walk_own(f.node))
                if filled:
                    n += 1
                    ctx.violated(rule, f.where(d_), f"parameter `{p_.arg}` has the mutable default `{norm(d_)[:40]}`, created once when the function is defined, and the function fills it: what one call puts there is still there in the next call (a second run in the same process starts with the entries of the first)", key_of(f, f"mutable-default-filled:{p_.arg}"))
            elif outer_local:
                n += 1
                ctx.violated(rule, f.where(d_), f"the default of `{p_.arg}` is bound to the object `{d_.id}` names when `{f.name}` is defined; the enclosing function binds `{d_.id}` again later (a fresh list per round), so calls that rely on the default keep looking at the first object", key_of(f, f"default-bound-early:{p_.arg}"))
        # (e)
        for st in walk_own(f.node):
            hv = None
            if isinstance(st, ast.Call) and isinstance(st.func, ast.Attribute) and st.func.attr == "close" and isinstance(st.func.value, ast.Name) and not st.args:
                hv, site = st.func.value.id, st
            elif isinstance(st, ast.With):
                for it in st.items:
                    ce = it.context_expr
                    if isinstance(ce, ast.IfExp) and "sys.stdout" in (norm(ce.body), norm(ce.orelse)):
                        n += 1
                        ctx.violated(rule, f.where(st), f"`with {norm(ce)[:60]}` closes whatever it was given when the block ends, also sys.stdout: every later write to standard output in the same process (a second call of the command, the caller's own prints) fails with `I/O operation on closed file`", key_of(f, "with-closes-stdout"))
                    elif isinstance(ce, ast.Name):
                        hv, site = ce.id, st
            if hv is None:
                continue
            if (f.module.name, f.qualname) in _CLOSES_STDOUT_TODAY:
                continue  # one named exception, with its reason, see the table
            may_be_stdout = any(isinstance(a, ast.Assign) and norm(a.targets[0]) == hv and (norm(a.value) == "sys.stdout" or (isinstance(a.value, ast.IfExp) and "sys.stdout" in (norm(a.value.body), norm(a.value.orelse)))) for a in walk_own(f.node))
            if not may_be_stdout:
                continue
            gs = [norm(t) for t, _p in guards_of(f.node, site if not isinstance(site, ast.Call) else next((s2 for s2 in walk_stmts(f.node.body) if isinstance(s2, ast.Expr) and s2.value is site), site))]
            if not any("stdout" in g or "None" in g or "output" in g or "out" in g for g in gs):
                n += 1
                ctx.violated(rule, f.where(site), f"`{norm(site)[:40]}` closes the output handle also when it is sys.stdout (no `is not sys.stdout` / `output is not None` test around it): every later write to standard output in the same process fails with `I/O operation on closed file`", key_of(f, f"closes-stdout:{hv}"))
    n += _handle_lints(ctx, funcs, rule)
    n += _stale_in_loop_lint(ctx, funcs, rule)
    n += _use_before_check_lint(ctx, funcs, rule)
    # (d) module-level lists appended to from functions
    mods = {f.module.name: f.module for f in funcs}
    for mod in mods.values():
        lists = {k for k, v in mod.consts.items() if isinstance(v, ast.List) and not v.elts or (isinstance(v, ast.Call) and norm(v.func) == "list" and not v.args)}
        for f in mod.funcs.values():
            for c in walk_own(f.node):
                if isinstance(c, ast.Call) and isinstance(c.func, ast.Attribute) and c.func.attr in ("append", "extend") and isinstance(c.func.value, ast.Name) and c.func.value.id in lists and c.func.value.id not in f.params:
                    nm = c.func.value.id
                    local = any(isinstance(x, ast.Assign) and any(isinstance(t, ast.Name) and t.id == nm for t in x.targets) for x in walk_own(f.node))
                    cleared = any(isinstance(x, ast.Call) and isinstance(x.func, ast.Attribute) and x.func.attr == "clear" and norm(x.func.value) == nm for x in walk_own(f.node)) or any(isinstance(x, ast.Delete) and any(norm(t).startswith(nm + "[") for t in x.targets) for x in walk_own(f.node))
                    if not local and not cleared:
                        n += 1
                        ctx.violated(rule, f.where(c), f"`{norm(c)[:50]}` adds to the module-level list `{nm}`, which is created once when the module is imported and never emptied by `{f.name}`: a second call in the same process still finds the records of the first (they are sorted / written again, with offsets that belong to another file)", key_of(f, f"module-list-accumulates:{nm}"))
                        break
    return n


def _is_open_call(v, modes=None):
    """open(...) / gzip.open(...) / <lib>.BGZFile(...); `modes`: first letters of the mode argument that count (None: any)"""
    if not isinstance(v, ast.Call):
        return False
    from ..core import norm, const_value

    last = norm(v.func).split(".")[-1]
    if not (last == "open" or last.endswith("File")):
        return False
    if modes is None:
        return True
    m = v.args[1] if len(v.args) > 1 else next((k.value for k in v.keywords if k.arg == "mode"), None)
    mv = const_value(m) if m is not None else "r"
    return isinstance(mv, str) and mv[:1] in modes


def _handle_lints(ctx, funcs, rule):
    """(f) a file opened for writing inside a loop and bound to a name is closed inside that loop (or handed on): closing the
        name after the loop closes the last one only, the earlier ones are unflushed when their files are read back;
    (g) a function that opens a path it was given with mode "w" is not called again for the same path (from a loop, or twice in
        one function): each call truncates what the previous one wrote;
    (h) a function that rewinds a reader after looping over it rewinds it on every way out of that loop;
    (i) a line read from a freshly opened reader and thrown away (`h.readline()` as a statement) before the loop over the
        reader, without a rewind: the loop never sees that line;
    (j) a method that puts the object's own file handle (opened in __init__, closed by close()) in a `with`: the handle is
        closed when the block ends (for a generator: when it is exhausted or dropped), every later read of the object fails."""
    from ..core import norm, walk_own, walk_stmts

    n = 0
    repo = ctx.repo
    fset = {id(f.node) for f in funcs}
    for f in funcs:
        own = list(walk_own(f.node))
        loops = [x for x in own if isinstance(x, (ast.For, ast.While))]
        # (f)
        for lp in loops:
            inner = [y for b in lp.body for y in ast.walk(b)]
            for st in inner:
                if isinstance(st, ast.Assign) and len(st.targets) == 1 and isinstance(st.targets[0], ast.Name) and _is_open_call(st.value, "wax"):
                    h = st.targets[0].id
                    # innermost loop only
                    if any(l2 is not lp and any(y is st for y in ast.walk(l2)) for l2 in inner if isinstance(l2, (ast.For, ast.While))):
                        continue
                    closed_in = any(isinstance(c, ast.Call) and isinstance(c.func, ast.Attribute) and c.func.attr == "close" and norm(c.func.value) == h for c in inner)
                    escapes = any(isinstance(c, ast.Call) and not (isinstance(c.func, ast.Attribute) and norm(c.func.value) == h) and norm(c.func) != "print" and any(isinstance(y, ast.Name) and y.id == h for a in list(c.args) + [k.value for k in c.keywords if k.arg != "file"] for y in ast.walk(a)) for c in inner) or any(isinstance(y, (ast.Return, ast.Yield)) and y.value is not None and h in {z.id for z in ast.walk(y.value) if isinstance(z, ast.Name)} for y in inner) or any(isinstance(a2, ast.Assign) and a2 is not st and any(isinstance(z, ast.Name) and z.id == h for z in ast.walk(a2.value)) for a2 in inner)
                    closed_after = [c for c in own if isinstance(c, ast.Call) and isinstance(c.func, ast.Attribute) and c.func.attr == "close" and norm(c.func.value) == h and not any(y is c for y in inner)]
                    if not closed_in and not escapes and closed_after:
                        n += 1
                        ctx.violated(rule, f.where(closed_after[0]), f"`{h}` is opened for writing inside the loop at line {lp.lineno} (`{norm(st)[:50]}`) and closed only after the loop: the close reaches the file of the last iteration, and when it comes after the files are read back (concatenated, deleted) the last one is still unflushed", key_of(f, f"write-handle-closed-after-loop:{h}"))
        # (g)
        for st in own:
            if isinstance(st, ast.Assign) and isinstance(st.value, (ast.Call, ast.IfExp)):
                cands = [st.value] if isinstance(st.value, ast.Call) else [st.value.body, st.value.orelse]
                for v in cands:
                    if _is_open_call(v, "w") and v.args and isinstance(v.args[0], ast.Name) and v.args[0].id in f.params and not any(isinstance(x, ast.Name) and x.id == v.args[0].id and isinstance(x.ctx, ast.Store) for x in own):
                        pidx = f.params.index(v.args[0].id)
                        for g in repo.all_funcs():
                            gown = list(walk_own(g.node))
                            sites = [c for c in gown if isinstance(c, ast.Call) and repo.resolve_call(g, c) is not None and repo.resolve_call(g, c).node is f.node]
                            if not sites:
                                continue

                            def arg_of(c):
                                off = 1 if f.cls is not None and f.params and f.params[0] == "self" else 0
                                i_ = pidx - off
                                if 0 <= i_ < len(c.args):
                                    return c.args[i_]
                                return next((k.value for k in c.keywords if k.arg == f.params[pidx]), None)

                            bad = None
                            for c in sites:
                                a = arg_of(c)
                                if a is None:
                                    continue
                                for lp in [x for x in gown if isinstance(x, (ast.For, ast.While)) and any(y is c for y in ast.walk(x))]:
                                    st_in = {x.id for x in ast.walk(lp) if isinstance(x, ast.Name) and isinstance(x.ctx, ast.Store)}
                                    if not ({x.id for x in ast.walk(a) if isinstance(x, ast.Name)} & st_in) and not isinstance(a, ast.Constant):
                                        bad = (c, f"inside the loop at line {lp.lineno} with the same path `{norm(a)}` every time round")
                            if bad is None and len(sites) >= 2:
                                a0 = [norm(arg_of(c)) for c in sites if arg_of(c) is not None]
                                if len(a0) >= 2 and len(set(a0)) == 1 and a0[0] != "None":
                                    bad = (sites[1], f"{len(sites)} times with the same path `{a0[0]}`")
                            if bad is not None:
                                n += 1
                                ctx.violated(rule, g.where(bad[0]), f"`{f.name}` opens the path it is given with `{norm(v)[:40]}` (truncating) and `{g.name}` calls it {bad[1]}: each call empties the file again, only what the last call wrote survives", key_of(g, f"truncating-open-called-repeatedly:{f.name}"))
        # (h)
        for lp in loops:
            if not isinstance(lp, ast.For):
                continue
            roots = {x.id for x in ast.walk(lp.iter) if isinstance(x, ast.Name)}
            seeks = [c for c in own if isinstance(c, ast.Call) and isinstance(c.func, ast.Attribute) and c.func.attr == "seek" and c.args and isinstance(c.args[0], ast.Constant) and c.args[0].value == 0 and not any(y is c for y in ast.walk(lp)) and getattr(c, "lineno", 0) > lp.lineno]
            seeks = [c for c in seeks if {x.id for x in ast.walk(c.func.value) if isinstance(x, ast.Name)} & roots and ({x.id for x in ast.walk(c.func.value) if isinstance(x, ast.Name)} & roots) <= set(f.params)]
            if not seeks:
                continue
            for r in [y for b in lp.body for y in ast.walk(b) if isinstance(y, ast.Return)]:
                n += 1
                ctx.violated(rule, f.where(r), f"`{f.name}` rewinds the reader it was given (`{norm(seeks[0])}`) after the loop at line {lp.lineno}, but this `return` leaves from inside the loop without the rewind: the caller goes on reading from the middle of the file and never sees the lines before that position", key_of(f, "rewind-skipped-on-early-return"))
                break
        # (i)
        for st in walk_stmts(f.node.body):
            if isinstance(st, ast.Expr) and isinstance(st.value, ast.Call):
                c = st.value
                h = None
                if isinstance(c.func, ast.Attribute) and c.func.attr in ("readline", "read", "__next__") and isinstance(c.func.value, ast.Name):
                    h = c.func.value.id
                elif isinstance(c.func, ast.Name) and c.func.id == "next" and c.args and isinstance(c.args[0], ast.Name):
                    h = c.args[0].id
                if h is None:
                    continue
                opened = any(isinstance(a, ast.Assign) and norm(a.targets[0]) == h and _is_open_call(a.value) for a in own)
                looped = any(isinstance(l2, ast.For) and h in {x.id for x in ast.walk(l2.iter) if isinstance(x, ast.Name)} and l2.lineno > st.lineno for l2 in own)
                rewound = any(isinstance(k, ast.Call) and isinstance(k.func, ast.Attribute) and k.func.attr == "seek" and norm(k.func.value) == h for k in own)
                if opened and looped and not rewound:
                    n += 1
                    ctx.violated(rule, f.where(st), f"`{norm(st)[:40]}` reads from the freshly opened `{h}` and throws the result away, and `{h}` is not rewound before the loop over it: the loop starts at the second line, whatever the first line held is never processed", key_of(f, f"probe-read-not-rewound:{h}"))
        # (j)
        if f.cls is not None and f.name not in ("close", "__exit__", "__del__", "__init__"):
            for w in own:
                if isinstance(w, ast.With):
                    for it in w.items:
                        ce = it.context_expr
                        if isinstance(ce, ast.Attribute) and isinstance(ce.value, ast.Name) and ce.value.id == "self":
                            init = f.module.funcs.get(f"{f.cls}.__init__")
                            opened = init is not None and any(isinstance(a, ast.Assign) and norm(a.targets[0]) == norm(ce) and _is_open_call(a.value) for a in walk_own(init.node))
                            if opened:
                                n += 1
                                gen = any(isinstance(y, (ast.Yield, ast.YieldFrom)) for y in own)
                                ctx.violated(rule, f.where(w), f"`with {norm(ce)}:` in `{f.qualname}` closes the handle the object opened in __init__ when the block ends{' (for this generator: when it is exhausted, dropped or garbage-collected)' if gen else ''}: every later `read_line` / second pass over the same object fails with `I/O operation on closed file`", key_of(f, f"with-closes-own-handle:{norm(ce)}"))
    return n


def _stale_in_loop_lint(ctx, funcs, rule):
    """(k) inside a loop, a name bound only in one branch of the body and read in another branch (whose tests look at this
    iteration's values only) holds what an EARLIER iteration left there (or nothing, in the first): one record is written with
    another record's fields."""
    from ..core import norm, walk_own

    n = 0
    TERM = (ast.Return, ast.Raise, ast.Continue, ast.Break)

    def names(e, ctxt):
        out = set()
        stack = [e]
        while stack:
            x = stack.pop()
            if isinstance(x, (ast.FunctionDef, ast.Lambda, ast.ListComp, ast.SetComp, ast.DictComp, ast.GeneratorExp)) and x is not e:
                # comprehension: its iterables and free names are read now; keep it simple and read the first iterable only
                if not isinstance(x, (ast.FunctionDef, ast.Lambda)):
                    stack.append(x.generators[0].iter)
                continue
            if isinstance(x, ast.Name) and isinstance(x.ctx, ctxt):
                out.add(x.id)
            stack.extend(ast.iter_child_nodes(x))
        return out

    for f in funcs:
        own = list(walk_own(f.node))
        comp_targets = {x.id for c in own if isinstance(c, ast.comprehension) for x in ast.walk(c.target) if isinstance(x, ast.Name)}
        glob = {nm for g_ in own if isinstance(g_, (ast.Global, ast.Nonlocal)) for nm in g_.names}
        for lp in own:
            if not isinstance(lp, (ast.For, ast.While)):
                continue
            body_nodes = {id(y) for b in lp.body for y in ast.walk(b)}
            stored_in = {x.id for x in own if isinstance(x, ast.Name) and isinstance(x.ctx, ast.Store) and id(x) in body_nodes}
            stored_out = {x.id for x in own if isinstance(x, ast.Name) and isinstance(x.ctx, ast.Store) and id(x) not in body_nodes}
            for y in own:
                if isinstance(y, (ast.Import, ast.ImportFrom)):
                    stored_out |= {(a.asname or a.name).split(".")[0] for a in y.names}
                if isinstance(y, ast.ExceptHandler) and y.name:
                    stored_out.add(y.name)
                if isinstance(y, (ast.FunctionDef, ast.ClassDef)) and y is not f.node:
                    stored_out.add(y.name)
            cands = stored_in - stored_out - set(f.params) - comp_targets - glob
            if isinstance(lp, ast.For):
                cands -= {x.id for x in ast.walk(lp.target) if isinstance(x, ast.Name)}
            if not cands:
                continue
            reports = {}
            cond_defs = {}

            def conj(t, pol=True):
                while isinstance(t, ast.UnaryOp) and isinstance(t.op, ast.Not):
                    t, pol = t.operand, not pol
                if isinstance(t, ast.BoolOp) and ((isinstance(t.op, ast.And) and pol) or (isinstance(t.op, ast.Or) and not pol)):
                    out = []
                    for v in t.values:
                        out += conj(v, pol)
                    return out
                return [("" if pol else "not ") + norm(t)]

            def read(e, defd, carried, where):
                if e is None or carried:
                    return
                for nm in names(e, ast.Load):
                    if nm in cands and nm not in defd and nm not in reports:
                        reports[nm] = where

            def store(e, defd):
                if e is not None:
                    defd |= names(e, ast.Store)

            def block(stmts, defd, carried):
                """returns (defd at fall-through, terminated?)"""
                for st in stmts:
                    if isinstance(st, (ast.FunctionDef, ast.ClassDef)):
                        defd.add(st.name)
                        continue
                    if isinstance(st, ast.If):
                        read(st.test, defd, carried, st)
                        store(st.test, defd)
                        tn = names(st.test, ast.Load)
                        car2 = carried or bool({x for x in tn if x in stored_in and x not in defd})
                        d1 = set(defd)
                        for cj in conj(st.test, True):
                            d1 |= cond_defs.get(cj, set())
                        d2 = set(defd)
                        for cj in conj(st.test, False):
                            d2 |= cond_defs.get(cj, set())
                        e1, t1 = block(st.body, d1, car2)
                        e2, t2 = block(st.orelse, d2, car2)
                        if not t1:
                            for cj in conj(st.test, True):
                                if len(conj(st.test, True)) == 1:
                                    cond_defs.setdefault(cj, set()).update(e1 - defd)
                        if not t2:
                            for cj in conj(st.test, False):
                                if len(conj(st.test, False)) == 1:
                                    cond_defs.setdefault(cj, set()).update(e2 - defd)
                        if t1 and t2:
                            return defd, True
                        defd = e2 if t1 else (e1 if t2 else (e1 & e2))
                        defd = set(defd)
                    elif isinstance(st, (ast.For, ast.While)):
                        if isinstance(st, ast.For):
                            read(st.iter, defd, carried, st)
                            store(st.target, defd)
                        else:
                            read(st.test, defd, carried, st)
                        e1, _t = block(st.body, set(defd), True if isinstance(st, ast.While) else carried)
                        defd |= e1  # optimistic: what the inner loop binds counts as bound after it
                        e2, _t = block(st.orelse, set(defd), carried)
                        defd |= e2
                    elif isinstance(st, ast.Try):
                        e1, t1 = block(st.body, set(defd), carried)
                        ends = [] if t1 else [e1]
                        for h in st.handlers:
                            eh, th = block(h.body, set(defd) | ({h.name} if h.name else set()), carried)
                            if not th:
                                ends.append(eh)
                        if st.orelse:
                            eo, to = block(st.orelse, set(e1), carried)
                            if not t1:
                                ends[0:1] = [] if to else [eo]
                        if not ends:
                            ef, tf = block(st.finalbody, set(defd), carried)
                            return defd, True
                        cur = set.intersection(*ends)
                        ef, tf = block(st.finalbody, cur, carried)
                        if tf:
                            return defd, True
                        defd = ef
                    elif isinstance(st, (ast.With, ast.AsyncWith)):
                        for it in st.items:
                            read(it.context_expr, defd, carried, st)
                            store(it.optional_vars, defd)
                        defd, t = block(st.body, defd, carried)
                        if t:
                            return defd, True
                    elif isinstance(st, ast.Match):
                        return defd | cands, False  # not modelled: be silent
                    elif isinstance(st, TERM):
                        read(getattr(st, "value", None) or getattr(st, "exc", None), defd, carried, st)
                        return defd, True
                    elif isinstance(st, ast.AugAssign):
                        read(st.value, defd, carried, st)
                        if isinstance(st.target, ast.Name):
                            read(ast.Name(id=st.target.id, ctx=ast.Load()), defd, carried, st)
                        else:
                            read(st.target, defd, carried, st)
                    elif isinstance(st, ast.Delete):
                        for t_ in st.targets:
                            if isinstance(t_, ast.Name):
                                defd.discard(t_.id)
                    else:
                        for ch in ast.iter_child_nodes(st):
                            read(ch, defd, carried, st)
                        for ch in ast.iter_child_nodes(st):
                            store(ch, defd)
                return defd, False

            try:
                block(lp.body, set(), isinstance(lp, ast.While) and not (isinstance(lp.test, ast.Constant)))
            except RecursionError:
                continue
            for nm, st in sorted(reports.items()):
                n += 1
                ctx.violated(rule, f.where(st), f"`{nm}` is bound only inside the loop at line {lp.lineno}, in a branch this path does not take, and read here: on this path it still holds what an earlier iteration bound (another record's value), or nothing at all in the first iteration", key_of(f, f"stale-loop-variable:{nm}"))
    return n


def _use_before_check_lint(ctx, funcs, rule):
    """(l) `v[k]` evaluated before the later test on `len(v)` that leaves the function when `v` has no element k: the
    check that guards the access comes too late (IndexError instead of the guarded outcome)."""
    from ..core import norm, walk_own, const_value

    n = 0
    TERM = (ast.Return, ast.Raise, ast.Continue, ast.Break)

    def len_exits(t, v, k, negate):
        """can the exit condition (t, or not t when negate) be true with len(v) <= k ?"""
        while isinstance(t, ast.UnaryOp) and isinstance(t.op, ast.Not):
            t, negate = t.operand, not negate
        if isinstance(t, ast.Name) and t.id == v:
            return negate  # `if not v: exit`
        if isinstance(t, ast.BoolOp):
            disj = isinstance(t.op, ast.Or) != negate
            if disj:
                return any(len_exits(x, v, k, negate) for x in t.values)
            return False
        if isinstance(t, ast.Compare) and len(t.ops) == 1 and norm(t.left) == f"len({v})" and isinstance(const_value(t.comparators[0]), int):
            c = const_value(t.comparators[0])
            import operator as op_

            fn = {ast.Eq: op_.eq, ast.NotEq: op_.ne, ast.Lt: op_.lt, ast.LtE: op_.le, ast.Gt: op_.gt, ast.GtE: op_.ge}.get(type(t.ops[0]))
            if fn is None:
                return False
            return any(fn(m, c) != negate for m in range(0, k + 1))
        return False

    def blocks(node):
        for x in ast.walk(node):
            if isinstance(x, (ast.FunctionDef, ast.Lambda)) and x is not node:
                continue
            for fld in ("body", "orelse", "finalbody"):
                b = getattr(x, fld, None)
                if isinstance(b, list) and b and isinstance(b[0], ast.stmt):
                    yield b

    for f in funcs:
        for b in blocks(f.node):
            for i, st in enumerate(b):
                if isinstance(st, (ast.If, ast.For, ast.While, ast.Try, ast.With, ast.FunctionDef)):
                    continue
                subs = [(x.value.id, const_value(x.slice)) for x in ast.walk(st) if isinstance(x, ast.Subscript) and isinstance(x.ctx, ast.Load) and isinstance(x.value, ast.Name) and isinstance(const_value(x.slice), int)]
                for v, k in subs:
                    kk = k if k >= 0 else -k - 1
                    for later in b[i + 1 :]:
                        if any(isinstance(y, ast.Name) and y.id == v and isinstance(y.ctx, ast.Store) for y in ast.walk(later)) or any(isinstance(y, ast.Call) and isinstance(y.func, ast.Attribute) and norm(y.func.value) == v and y.func.attr in ("append", "extend", "pop", "remove", "insert", "clear") for y in ast.walk(later)):
                            break
                        guard = None
                        if isinstance(later, ast.If) and later.body and isinstance(later.body[-1], TERM) and len_exits(later.test, v, kk, False):
                            guard = later
                        elif isinstance(later, ast.Assert) and len_exits(later.test, v, kk, True):
                            guard = later
                        elif isinstance(later, ast.Try):
                            for a in later.body:
                                if isinstance(a, ast.Assert) and len_exits(a.test, v, kk, True) and any(h.type is None or "AssertionError" in norm(h.type) or norm(h.type) in ("Exception", "BaseException") for h in later.handlers):
                                    guard = a
                        if guard is not None:
                            n += 1
                            ctx.violated(rule, f.where(st), f"`{v}[{k}]` is evaluated at line {st.lineno}, before the test `{norm(guard.test)[:50]}` at line {guard.lineno} that leaves when `{v}` has no such element: for the inputs that test exists for, this line raises IndexError first and the guarded outcome (skip / report) never happens", key_of(f, f"use-before-check:{v}[{k}]"))
                            break
    return n


def tolerance_lints(ctx, funcs, rule):
    r"""'Be more tolerant / validate / skip bad records' code that changes what VALID input produces, recognisable without a model:
    (a) a line of a file is skipped, or reading stops, under a test that the line lacks its line end: the last record of a
        file without a final newline is a valid record;
    (b) a regular expression that spells a path step as `[<>]` followed by `\w+` (or another class narrower than 'anything
        but < and >'): segment names may contain any printable character (`utg1.2`, `chr1:100-200`, `h1#s3`, `s-4`);
    (c) `value or K` with a non-zero number K where `value` is a number read from the data (`int(...)`, a BO / NO / start /
        mapping quality): a legal 0 is replaced by K."""
    import re as _re

    from ..core import norm, walk_own, walk_stmts, const_value
    from .c09 import guards_of

    n = 0
    EXITS = (ast.Continue, ast.Break, ast.Return, ast.Raise)
    for f in funcs:
        own = list(walk_own(f.node))
        # (a)
        for st in walk_stmts(f.node.body):
            if not isinstance(st, EXITS):
                continue
            for t, pol in guards_of(f.node, st):
                for c in ast.walk(t):
                    lacks = None
                    if isinstance(c, ast.Call) and isinstance(c.func, ast.Attribute) and c.func.attr == "endswith" and c.args and const_value(c.args[0]) in ("\n", b"\n", "\r\n"):
                        lacks = c
                    elif isinstance(c, ast.Compare) and len(c.ops) == 1 and isinstance(c.left, ast.Subscript) and const_value(c.left.slice) == -1 and const_value(c.comparators[0]) in ("\n", b"\n"):
                        lacks = c
                    if lacks is None:
                        continue
                    # polarity: the exit is taken when the line does NOT end in a newline
                    par_not = any(isinstance(u, ast.UnaryOp) and isinstance(u.op, ast.Not) and any(y is lacks for y in ast.walk(u.operand)) for u in ast.walk(t))
                    neq = isinstance(lacks, ast.Compare) and isinstance(lacks.ops[0], ast.NotEq)
                    taken_when_missing = (par_not or neq) == pol
                    if taken_when_missing:
                        n += 1
                        ctx.violated(rule, f.where(st), f"`{norm(st)[:30]}` is taken when the line read does not end in a newline (`{norm(t)[:60]}`): only the last line of a file can lack it, and a last record without a final newline is a valid record (gaftools' own writers produce such files) — it is dropped / not indexed, for plain text input only", key_of(f, f"unterminated-last-line-skipped:{norm(lacks)[:40]}"))
                        break
        # (b)
        for c in own:
            if isinstance(c, ast.Constant) and isinstance(c.value, str) and ("<" in c.value and ">" in c.value) and ("\\w" in c.value or "[A-Za-z0-9" in c.value or "[a-zA-Z0-9" in c.value or "\\d" in c.value or "[0-9" in c.value):
                m = _re.search(r"\[(?:<>|><|\\<\\>|\\>\\<)\]\)?\(?(\\w|\\d|\[[^\]^][^\]]*\])[+*]", c.value)
                if m is None:
                    continue
                cls = m.group(1)
                try:
                    rx = _re.compile(cls)
                except _re.error:
                    continue
                missing = [ch for ch in ".:-#" if not rx.fullmatch(ch)]
                if missing:
                    n += 1
                    ctx.violated(rule, f.where(c), f"the pattern `{c.value[:50]}` spells a path step as a sign followed by `{cls}`, which does not accept {', '.join(repr(x) for x in missing)}: segment names of a valid graph may contain any printable character but the two signs (`utg1.2`, `chr1:100-200`, `h1#s3`, `s-4`), and a path through such a segment is treated as malformed", key_of(f, f"narrow-segment-name-class:{cls[:20]}"))
        # (c)
        for b in own:
            if isinstance(b, ast.BoolOp) and isinstance(b.op, ast.Or) and len(b.values) == 2:
                a_, k_ = b.values
                kv = const_value(k_)
                if isinstance(k_, ast.UnaryOp) and isinstance(k_.op, ast.USub) and isinstance(const_value(k_.operand), (int, float)):
                    kv = -const_value(k_.operand)
                if not isinstance(kv, (int, float)) or isinstance(kv, bool) or kv == 0:
                    continue
                numeric = False
                if isinstance(a_, ast.Call) and (norm(a_.func) == "int" or norm(a_.func).split(".")[-1].startswith("int")):
                    numeric = True
                elif isinstance(a_, ast.Name):
                    low = a_.id.lower()
                    defs = [d for d in own if isinstance(d, ast.Assign) and any(isinstance(x, ast.Name) and x.id == a_.id for t in d.targets for x in ast.walk(t))]
                    if any(isinstance(x, ast.Call) and norm(x.func) == "int" for d in defs for x in ast.walk(d.value)) or low in ("bo", "no", "start", "mapq", "mapping_quality", "offset", "so", "sr"):
                        numeric = True
                    if a_.id in f.params and not defs and low not in ("bo", "no", "start", "mapq", "mapping_quality", "offset"):
                        numeric = False
                if numeric:
                    n += 1
                    ctx.violated(rule, f.where(b), f"`{norm(b)[:50]}`: `or` replaces every falsy value, so a legal value 0 of `{norm(a_)[:30]}` (bubble 0, offset 0, mapping quality 0) becomes {kv}", key_of(f, f"falsy-number-default:{norm(a_)[:30]}"))
    return n


def semantic_lints(ctx, funcs, mods, rule):
    """Expressions that keep every name, call and constant of the code they replace and mean something else:
    (a) a non-empty string / non-zero number as an operand of `and` / a non-final operand of `or` (`":" and "-" in nd`);
    (b) `int(a + b)` over two tag values (text): concatenation, not addition;
    (c) an inner loop whose target rebinds a name the function binds elsewhere (not as a loop target) and reads again later;
    (d) `.pop()` / `.remove()` / `.clear()` / `.discard()` on a parameter that the function also returns (the caller's object);
    (e) `sys.exit(logger.error(...))` / `sys.exit(print(...))`: the call returns None, the status is 0;
    (f) `"..%s.." % tuple(x or ())`: raises TypeError exactly when x is empty / None;
    (g) a list sorted and then turned into a set under the same name (the order is thrown away);
    (h) the bytes arm and the str arm of an `isinstance` switch strip the line differently;
    (i) `x = x.rstrip()` before `x.decode(...)`: bytes lose ASCII white space only, text every Unicode space;
    (j) `%` applied to a format string that was extended with data (`fmt += k + tags[k]` ... `fmt % cols`);
    (k) a subclass of tuple that redefines `__eq__` / `__hash__` on a part of its items."""
    from ..core import norm, walk_own, walk_stmts, const_value

    n = 0
    for f in funcs:
        own = list(walk_own(f.node))
        # (a)
        for b in own:
            if isinstance(b, ast.BoolOp):
                vals = b.values if isinstance(b.op, ast.And) else b.values[:-1]
                for v in vals:
                    cv = const_value(v, None)
                    if isinstance(v, ast.Constant) and not isinstance(cv, bool) and isinstance(cv, (str, int, float, bytes)) and cv not in ("", 0, b""):
                        n += 1
                        ctx.violated(rule, f.where(b), f"`{norm(b)[:50]}`: the constant {cv!r} is an operand of `{'and' if isinstance(b.op, ast.And) else 'or'}` by itself (always true), so the condition is only `{norm(b.values[-1])[:30]}` (`x in s and y in s` was meant)", key_of(f, f"constant-operand:{norm(b)[:40]}"))
                        break
        # (b)
        for c in own:
            if isinstance(c, ast.Call) and norm(c.func) == "int" and len(c.args) == 1 and isinstance(c.args[0], ast.BinOp) and isinstance(c.args[0].op, ast.Add):
                l_, r_ = c.args[0].left, c.args[0].right
                if all(".tags[" in norm(x) and isinstance(x, ast.Subscript) for x in (l_, r_)):
                    n += 1
                    ctx.violated(rule, f.where(c), f"`{norm(c)[:60]}` adds two tag values before converting: tag values are text, so `+` concatenates them (SO 100, LN 50 gives 10050, not 150)", key_of(f, f"int-of-concatenation:{norm(c)[:40]}"))
        # (c)
        loops = [x for x in own if isinstance(x, ast.For)]
        for_targets = {y.id for l in loops for y in ast.walk(l.target) if isinstance(y, ast.Name)}
        comp_t = {y.id for x in own if isinstance(x, ast.comprehension) for y in ast.walk(x.target) if isinstance(y, ast.Name)}
        plain_stores = {}
        for st in walk_stmts(f.node.body):
            if isinstance(st, (ast.Assign, ast.AugAssign, ast.AnnAssign)):
                for t in (st.targets if isinstance(st, ast.Assign) else [st.target]):
                    for y in ast.walk(t):
                        if isinstance(y, ast.Name) and isinstance(y.ctx, ast.Store):
                            plain_stores.setdefault(y.id, []).append(st)
        for lp in loops:
            outer = [l2 for l2 in loops if l2 is not lp and any(y is lp for y in ast.walk(l2))]
            if not outer:
                continue
            for y in ast.walk(lp.target):
                if isinstance(y, ast.Name) and y.id in plain_stores:
                    defs_out = [d for d in plain_stores[y.id] if not any(z is d for z in ast.walk(lp))]
                    if not defs_out:
                        continue
                    # read in the enclosing loop outside the inner loop (the next iteration sees the inner loop's last value)
                    reads = [z for o in outer for z in ast.walk(o) if isinstance(z, ast.Name) and z.id == y.id and isinstance(z.ctx, ast.Load) and not any(w is z for w in ast.walk(lp))]
                    sub_reads = [z for z in reads if any(isinstance(p_, ast.Subscript) and p_.value is z for o in outer for p_ in ast.walk(o))]
                    if reads and all(not any(z is d for z in ast.walk(o)) for o in outer for d in defs_out):
                        n += 1
                        ctx.violated(rule, f.where(lp), f"the inner loop at line {lp.lineno} uses `{y.id}` as its loop variable, but `{y.id}` is bound before the enclosing loop (`{norm(defs_out[0])[:40]}`) and read there in every iteration: after the first pass through the inner loop it holds the last item instead" + (" (and is subscripted: TypeError for the next element)" if sub_reads else ""), key_of(f, f"loop-variable-overwrites:{y.id}"))
        # (d)
        rets = {z.id for r in own if isinstance(r, ast.Return) and r.value is not None for z in ast.walk(r.value) if isinstance(z, ast.Name)}
        for c in own:
            if isinstance(c, ast.Call) and isinstance(c.func, ast.Attribute) and c.func.attr in ("pop", "remove", "clear", "discard", "popitem") and isinstance(c.func.value, ast.Name) and c.func.value.id in f.params and c.func.value.id in rets and c.func.value.id != "self":
                p_ = c.func.value.id
                if not any(isinstance(a, ast.Assign) and any(norm(t) == p_ for t in a.targets) for a in own):
                    n += 1
                    ctx.violated(rule, f.where(c), f"`{norm(c)[:40]}` takes an element out of the parameter `{p_}`, the caller's own object, which the function also returns and the caller goes on using (a component emptied this way counts as 'nothing to order' and its nodes are never written)", key_of(f, f"parameter-emptied:{p_}"))
        # (e)
        for c in own:
            if isinstance(c, ast.Call) and norm(c.func) in ("sys.exit", "exit", "quit") and c.args and isinstance(c.args[0], ast.Call):
                inner = norm(c.args[0].func)
                if inner.split(".")[0] in ("logger", "logging", "log") or inner == "print":
                    n += 1
                    ctx.violated(rule, f.where(c), f"`{norm(c)[:60]}`: `{inner}` returns None, and `sys.exit(None)` is exit status 0 — the failure is reported as success", key_of(f, f"exit-none:{inner}"))
        # (f)
        for b in own:
            if isinstance(b, ast.BinOp) and isinstance(b.op, ast.Mod) and isinstance(const_value(b.left, None), str) and "%" in const_value(b.left) and isinstance(b.right, ast.Call) and norm(b.right.func) == "tuple" and b.right.args and isinstance(b.right.args[0], ast.BoolOp) and isinstance(b.right.args[0].op, ast.Or) and isinstance(b.right.args[0].values[-1], (ast.Tuple, ast.List)) and not b.right.args[0].values[-1].elts:
                n += 1
                ctx.violated(rule, f.where(b), f"`{norm(b)[:70]}` fills the placeholders from an empty tuple when `{norm(b.right.args[0].values[0])[:20]}` is empty / None: TypeError (not enough arguments), and what follows this line (the index dump) never happens", key_of(f, f"format-from-empty-tuple:{norm(b.right)[:30]}"))
        # (g)
        for st in walk_stmts(f.node.body):
            if isinstance(st, ast.Assign) and len(st.targets) == 1 and isinstance(st.targets[0], ast.Name) and isinstance(st.value, ast.Call) and norm(st.value.func) in ("set", "frozenset") and st.value.args and norm(st.value.args[0]) == st.targets[0].id:
                x = st.targets[0].id
                sorted_before = any((isinstance(c, ast.Call) and isinstance(c.func, ast.Attribute) and c.func.attr == "sort" and norm(c.func.value) == x and f.before(c, st)) or (isinstance(c, ast.Assign) and norm(c.targets[0]) == x and isinstance(c.value, ast.Call) and norm(c.value.func) == "sorted" and f.before(c, st)) for c in own)
                iterated_after = any(isinstance(l, ast.For) and norm(l.iter) == x and f.before(st, l) for l in own)
                if sorted_before and iterated_after:
                    n += 1
                    ctx.violated(rule, f.where(st), f"`{norm(st)}` turns the sorted list into a set and the set is iterated afterwards: a set has no order (integers iterate by hash, large BGZF virtual offsets in an order unrelated to their value), so the records come out in another order than in the file, and in different orders for the plain and the compressed copy", key_of(f, f"sorted-then-set:{x}"))
        # (h)
        for iff in own:
            if isinstance(iff, ast.If) and norm(iff.test).startswith("isinstance(") and "bytes" in norm(iff.test) and iff.orelse:
                def strips(stmts):
                    return [tuple(norm(a) for a in c.args) for s_ in stmts for c in ast.walk(s_) if isinstance(c, ast.Call) and isinstance(c.func, ast.Attribute) and c.func.attr in ("rstrip", "strip")]
                other = iff.orelse[0].body if len(iff.orelse) == 1 and isinstance(iff.orelse[0], ast.If) and "str" in norm(iff.orelse[0].test) else iff.orelse
                a_, b_ = strips(iff.body), strips(other)
                if len(a_) == 1 and len(b_) == 1 and a_ != b_:
                    n += 1
                    ctx.violated(rule, f.where(iff), f"the bytes arm strips the line with `{'rstrip(' + ', '.join(a_[0]) + ')'}` and the text arm with `{'rstrip(' + ', '.join(b_[0]) + ')'}`: a record that ends in a blank is written differently for the compressed and the plain copy of the same file", key_of(f, "sibling-arms-strip-differently"))
        # (i)
        for st in walk_stmts(f.node.body):
            if isinstance(st, ast.Assign) and len(st.targets) == 1 and isinstance(st.targets[0], ast.Name) and isinstance(st.value, ast.Call) and isinstance(st.value.func, ast.Attribute) and st.value.func.attr in ("rstrip", "strip") and not st.value.args and norm(st.value.func.value) == st.targets[0].id:
                x = st.targets[0].id
                # (the decode must come after the strip on the same path: in a later statement of the block the strip is in)
                blk = next((l_ for p_ in ast.walk(f.node) for fld_ in ("body", "orelse", "finalbody") for l_ in [getattr(p_, fld_, None)] if isinstance(l_, list) and any(y_ is st for y_ in l_)), None)
                later = blk[next(i_ for i_, y_ in enumerate(blk) if y_ is st) + 1 :] if blk else []
                if any(isinstance(c, ast.Call) and isinstance(c.func, ast.Attribute) and c.func.attr == "decode" and norm(c.func.value) == x for l_ in later for c in ast.walk(l_)):
                    n += 1
                    ctx.violated(rule, f.where(st), f"`{norm(st)}` strips `{x}` before it is decoded: on bytes only ASCII white space goes, on text every Unicode space (NBSP, U+0085, 0x1c-0x1f) — the same line is cut differently depending on whether the file was compressed", key_of(f, f"strip-before-decode:{x}"))
        # (j)
        for b in own:
            if isinstance(b, ast.BinOp) and isinstance(b.op, ast.Mod) and isinstance(b.left, ast.Name):
                x = b.left.id
                grown = [a for a in own if isinstance(a, ast.AugAssign) and norm(a.target) == x and isinstance(a.op, ast.Add) and any(isinstance(y, (ast.Subscript, ast.Attribute)) for y in ast.walk(a.value))]
                fmt = [a for a in own if isinstance(a, (ast.Assign, ast.AugAssign)) and x in {norm(t) for t in (a.targets if isinstance(a, ast.Assign) else [a.target])} and isinstance(const_value(a.value, None), str) and "%" in const_value(a.value)]
                if grown and fmt:
                    n += 1
                    ctx.violated(rule, f.where(b), f"`{norm(b)[:40]}` applies `%` to a string that was extended with data (`{norm(grown[0])[:50]}`): a `%` inside a value (`co:Z:cov=50%`) is read as a placeholder — TypeError, or `%%` silently becomes `%`", key_of(f, f"format-string-from-data:{x}"))
    # (l) a bitwise operator between two counts used as a truth value (`if fwd & rev:` is false for 2 and 1)
    for f in funcs:
        for t in [x.test for x in walk_own(f.node) if isinstance(x, (ast.If, ast.While, ast.IfExp))]:
            if isinstance(t, ast.BinOp) and isinstance(t.op, (ast.BitAnd, ast.BitXor)) and all(isinstance(x, (ast.Name, ast.Call, ast.Subscript, ast.Attribute)) for x in (t.left, t.right)) and not any(isinstance(x, ast.Constant) for x in ast.walk(t)):
                n += 1
                ctx.violated(rule, f.where(t), f"`{norm(t)[:40]}` is a bitwise operation used as a truth value: for two counts it is zero whenever they share no set bit (2 & 1 == 0), not only when one of them is zero (`and` was meant)", key_of(f, f"bitwise-truth:{norm(t)[:30]}"))
        # (m) the and-or idiom `(c and x) or y` with a number x: a legal 0 falls through to y
        for b in walk_own(f.node):
            if isinstance(b, ast.BoolOp) and isinstance(b.op, ast.Or) and len(b.values) == 2 and isinstance(b.values[0], ast.BoolOp) and isinstance(b.values[0].op, ast.And):
                x = b.values[0].values[-1]
                numeric = isinstance(x, ast.BinOp) and isinstance(x.op, (ast.Sub, ast.Add, ast.Mult)) or (isinstance(x, ast.Call) and norm(x.func) in ("int", "len"))
                if numeric and not isinstance(b.values[1], ast.Constant):
                    n += 1
                    ctx.violated(rule, f.where(b), f"`{norm(b)[:70]}` is the and-or idiom with a number in the middle: when `{norm(x)[:30]}` is 0 (a legal offset) the expression falls through to `{norm(b.values[1])[:30]}`", key_of(f, f"and-or-idiom:{norm(x)[:30]}"))
        # (n) a command-line check that one option alone triggers, whatever else is given (`not a and b or c`: precedence)
        if f.name == "validate":
            from .c09 import guards_of as _gofv
            import itertools as _it

            for st in walk_stmts(f.node.body):
                if isinstance(st, ast.Expr) and isinstance(st.value, ast.Call) and norm(st.value.func).endswith(".error"):
                    gs = _gofv(f.node, st)
                    if len(gs) != 1 or not gs[0][1]:
                        continue
                    t = gs[0][0]
                    atoms = sorted({norm(x) for x in ast.walk(t) if isinstance(x, ast.Attribute) and isinstance(x.value, ast.Name) and x.value.id == f.params[0]})
                    pure = all(isinstance(x, (ast.BoolOp, ast.UnaryOp, ast.Not, ast.And, ast.Or, ast.Attribute, ast.Name, ast.Load)) for x in ast.walk(t))
                    if not pure or len(atoms) < 3 or len(atoms) > 6:
                        continue
                    src = norm(t)
                    for i_, a_ in enumerate(atoms):
                        src = src.replace(a_, f"v{i_}")
                    code = compile(src, "<guard>", "eval")
                    for i_, a_ in enumerate(atoms):
                        always = all(eval(code, {}, {f"v{j}": (True if j == i_ else vals[j - (1 if j > i_ else 0)]) for j in range(len(atoms))}) for vals in _it.product([False, True], repeat=len(atoms) - 1))
                        if always:
                            n += 1
                            ctx.violated(rule, f.where(st), f"the command line is rejected whenever `{a_}` is given, whatever the other options are (`{norm(t)[:60]}` groups as `(... and ...) or {a_}`): every run with that option stops before anything is written", key_of(f, f"option-always-rejected:{a_}"))
                            break
    # (k)
    for mod in mods:
        for cdef in [x for x in ast.walk(mod.tree) if isinstance(x, ast.ClassDef)]:
            if any(norm(b) in ("tuple",) or "namedtuple" in norm(b) or "NamedTuple" in norm(b) for b in cdef.bases):
                for m_ in cdef.body:
                    if isinstance(m_, ast.FunctionDef) and m_.name in ("__eq__", "__hash__"):
                        n += 1
                        ctx.violated(rule, f"{mod.relpath}:{m_.lineno} {cdef.name}.{m_.name}", f"`{cdef.name}` is a tuple whose `{m_.name}` is redefined: membership in a set, `==` and `remove` of such items no longer compare all their parts (two links to the same neighbour that differ in side or overlap become one entry)", f"{mod.name}.{cdef.name}::tuple-equality-redefined:{m_.name}")
                        break
    return n


def tag_pop_reinsert(ctx, rule):
    """A key taken out of a record's tag mapping (`tags.pop(k)`, `del tags[k]`) and stored again moves to the end of the
    insertion-ordered dict: the record is written with its optional fields in another order."""
    from ..core import norm, walk_own
    from . import emit

    schema, extras, ems = emit.find_emitters(ctx, rule)
    tags_attr = extras["tags_attr"]
    n = 0
    seen = set()
    for f, rec, _n in ems:
        if f.qualname in seen:
            continue
        seen.add(f.qualname)
        base = f"{rec}.{tags_attr}"
        for c in walk_own(f.node):
            key = None
            if isinstance(c, ast.Call) and isinstance(c.func, ast.Attribute) and c.func.attr == "pop" and norm(c.func.value) == base and c.args:
                key = norm(c.args[0])
            if isinstance(c, ast.Delete) and any(isinstance(t, ast.Subscript) and norm(t.value) == base for t in c.targets):
                key = norm(next(t for t in c.targets if isinstance(t, ast.Subscript)).slice)
            if key is None:
                continue
            stores = [st for st in walk_own(f.node) if isinstance(st, ast.Assign) and any(isinstance(t, ast.Subscript) and norm(t.value) == base and norm(t.slice) == key for t in st.targets)]
            if stores:
                n += 1
                ctx.violated(rule, f.where(c), f"`{norm(c)[:60]}` takes the field {key} out of the record's tag mapping and `{norm(stores[0])[:50]}` puts it back: in an insertion-ordered dict the field moves to the end, so a record whose {key} is followed by other optional fields is written with its fields in another order", key_of(f, f"tag-pop-reinsert:{key}"))
    if n == 0:
        ctx.holds(rule, "gaftools/", "no writer takes a field out of a record's tag mapping and stores it again (which would move it to the end)", nontrivial=False)


def pre_lints(ctx):
    """Model-free lints over the source files the property depends on, evaluated before any model of the code is built (a
    construct that is wrong whatever the surrounding code means is reported even when the rest of the check cannot read the
    changed code): ordering comparison of two pieces of text, identity comparison of values, a list changed while it is
    iterated, and a record line cut at any white space instead of at tabs."""
    from .common import FILE_PROPS

    repo = ctx.repo
    rel = {m.relpath: m for m in repo.modules.values()}
    mods = [rel[f_] for f_, props in FILE_PROPS.items() if ctx.prop in props and f_ in rel]
    if not mods:
        return
    _once(ctx, "lib-text-lint")
    ctx.__dict__["_prelinted"] = {m.name for m in mods}
    text_lint(ctx, mods)
    funcs = [f for m in mods for f in m.funcs.values()]
    n = pitfall_lints(ctx, funcs, "R00.7")
    n += lifecycle_lints(ctx, funcs, "R00.11")
    for f in funcs:
        for c in walk_own(f.node):
            if isinstance(c, ast.Call) and isinstance(c.func, ast.Attribute) and c.func.attr == "split" and not c.keywords and (not c.args or (isinstance(c.args[0], ast.Constant) and c.args[0].value is None)):
                base = c.func.value
                while isinstance(base, ast.Call) and isinstance(base.func, ast.Attribute) and base.func.attr in ("strip", "rstrip", "lstrip", "decode"):
                    base = base.func.value
                if isinstance(base, ast.Name) and any(w in base.id.lower() for w in ("line", "mapping", "record", "row")) or (isinstance(base, ast.Name) and len(base.id) <= 2):
                    n += 1
                    ctx.violated("R00.8", f.where(c), f"`{norm(c)[:50]}` cuts a line of the file at every run of white space, not at the tabs that separate its columns: a blank inside a column (a read name `read1 ch=7`, a tag value `co:Z:two words`) shifts every later column or cuts the value short", key_of(f, f"whitespace-split:{norm(c)[:40]}"))
    # a field of a record class stored as `param or <number / text>`: a legal falsy value (mapping quality 0, offset 0, an
    # empty string) is silently replaced by the default
    for f in funcs:
        if f.cls is None or f.name != "__init__":
            continue
        for st in walk_own(f.node):
            if isinstance(st, ast.Assign) and len(st.targets) == 1 and isinstance(st.targets[0], ast.Attribute) and norm(st.targets[0].value) == "self" and isinstance(st.value, ast.BoolOp) and isinstance(st.value.op, ast.Or) and len(st.value.values) == 2:
                a_, b_ = st.value.values
                if isinstance(a_, ast.Name) and a_.id in f.params and isinstance(b_, ast.Constant) and isinstance(b_.value, (int, float, str)) and not isinstance(b_.value, bool) and b_.value not in (0, ""):
                    n += 1
                    ctx.violated("R00.10", f.where(st), f"`{norm(st)[:60]}`: `or` replaces every falsy value, so a legal {a_.id} of 0 (or an empty string) read from the file becomes {b_.value!r} in the record", key_of(f, f"falsy-default:{st.targets[0].attr}"))
    n += tolerance_lints(ctx, funcs, "R00.12")
    n += semantic_lints(ctx, funcs, mods, "R00.13")
    NUMERIC_TAGS = ("SO", "BO", "NO", "LN", "SR")
    for f in funcs:
        for c in walk_own(f.node):
            if not isinstance(c, ast.Call):
                continue
            is_sort = (isinstance(c.func, ast.Name) and c.func.id in ("sorted", "max", "min")) or (isinstance(c.func, ast.Attribute) and c.func.attr == "sort")
            if not is_sort:
                continue
            key = next((k.value for k in c.keywords if k.arg == "key"), None)
            if isinstance(key, ast.Lambda):
                parts = key.body.elts if isinstance(key.body, ast.Tuple) else [key.body]
                for e in parts:
                    t = norm(e)
                    if isinstance(e, ast.Subscript) and any(t.endswith(f".tags['{tg}'][1]") for tg in NUMERIC_TAGS):
                        n += 1
                        ctx.violated("R00.9", f.where(c), f"the sort key `{t[:60]}` is the text of a numeric tag (no int()): offsets are then ordered as strings ('1100' before '600'), and code that relies on the numeric order (the binary search over a contig's segments, the (BO, NO) order of the S lines) meets a misordered list", key_of(f, f"text-sort-key:{t[:40]}"))
            if key is None and isinstance(c.func, ast.Name) and c.func.id in ("max", "min") and len(c.args) == 1 and isinstance(c.args[0], ast.Call) and isinstance(c.args[0].func, ast.Attribute) and c.args[0].func.attr == "items" and not c.args[0].args:
                n += 1
                ctx.violated("R00.9", f.where(c), f"`{norm(c)[:50]}` takes the {c.func.id}imum of (key, value) pairs without a key function: pairs compare by their first element, so the entry with the {'greatest' if c.func.id == 'max' else 'smallest'} *key* is chosen, whatever the values (counts) are", key_of(f, f"minmax-of-items:{norm(c)[:40]}"))
    if n == 0:
        ctx.holds("R00.7", ", ".join(m.relpath for m in mods), "model-free lints (identity comparison of values, list changed while iterated, white-space split of a record line): nothing found", nontrivial=False)
