"""Shared model of gaftools/cli/view.py (selection branch, region search) for C04, C05."""

from __future__ import annotations

import ast

from ..core import AnalysisError, const_value, norm, walk_own, walk_stmts
from ..paths import enum_paths


class View:
    pass


def build(ctx, rule):
    repo = ctx.repo
    mod = repo.module("gaftools.cli.view", rule)
    v = View()
    v.mod = mod
    v.run = None
    for f in mod.funcs.values():
        for n in walk_own(f.node):
            if isinstance(n, ast.For) and any(isinstance(c, ast.Call) and isinstance(c.func, ast.Attribute) and c.func.attr == "read_line" and c.args and norm(c.args[0]) == norm(n.target) for c in ast.walk(n)):
                v.run = f
    if v.run is None:
        raise AnalysisError(rule, mod.relpath, "cannot find the function that seeks and prints the selected records")
    ctx.analysed_func(v.run)
    from ..core import desugar_ifexp

    v.run = desugar_ifexp(v.run)  # conditional expressions (as values, call arguments, context managers) read as if / else
    run = v.run
    # emission loops: for <o> in <offsets>: <x> = <gaf>.read_line(<o>)
    v.emit_loops = []
    for n in walk_own(run.node):
        if isinstance(n, ast.For) and isinstance(n.iter, ast.Name):
            rl = [c for c in ast.walk(n) if isinstance(c, ast.Call) and isinstance(c.func, ast.Attribute) and c.func.attr == "read_line" and c.args and norm(c.args[0]) == norm(n.target)]
            if rl:
                v.emit_loops.append(n)
    if not v.emit_loops:
        raise AnalysisError(rule, run.where(), "cannot find the loops that seek and print the selected records")
    names = {norm(l.iter) for l in v.emit_loops}
    if len(names) != 1:
        raise AnalysisError(rule, run.where(), f"selected records are read from different offset collections {names}")
    v.offsets = names.pop()
    # index object and id->key map
    v.ind = None
    for st in walk_own(run.node):
        if isinstance(st, ast.Assign) and isinstance(st.value, ast.Call) and norm(st.value.func).endswith(".load"):
            v.ind = norm(st.targets[0])
    v.id_map = None
    for st in walk_own(run.node):
        if isinstance(st, ast.Assign) and isinstance(st.targets[0], ast.Subscript) and isinstance(st.targets[0].slice, ast.Subscript) and const_value(st.targets[0].slice.slice) == 0 and norm(st.value) == norm(st.targets[0].slice.value):
            v.id_map = norm(st.targets[0].value)
            v.id_map_store = st
    # the selection block: the statement list containing the first assignment to offsets
    v.block = None
    best = None
    for n in ast.walk(run.node):
        for fld in ("body", "orelse"):
            lst = getattr(n, fld, None)
            if isinstance(lst, list):
                for st in lst:
                    if isinstance(st, ast.Assign) and norm(st.targets[0]) == v.offsets and (best is None or st.lineno < best):
                        best = st.lineno
                        v.block = lst
    if v.block is None:
        raise AnalysisError(rule, run.where(), "cannot find the block that collects the offsets")
    # region -> nodes function
    v.regions_fn = None
    for st in walk_stmts(v.block):
        if isinstance(st, ast.Assign) and isinstance(st.value, ast.Call):
            c = repo.resolve_call(run, st.value)
            if c is not None and c.module is mod and "region" in " ".join(norm(a) for a in st.value.args):
                v.regions_fn = c
                v.regions_call = st
    return v
