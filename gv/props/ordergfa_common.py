"""Shared model of gaftools/cli/order_gfa.py for C06, C07, C18."""

from __future__ import annotations

import ast

from ..core import inlined, AnalysisError, const_value, norm, walk_own, walk_stmts


class Model:
    pass


def _inline_return_helpers(repo, func):
    """`return helper(a)` where helper is a function of the same module whose body is one `return <tuple>` over its
    parameters and constants: the tuple is written out (the shared "skip" result of the ordering function)."""
    import copy

    from ..core import Func

    node = copy.deepcopy(func.node)
    changed = False
    for r in ast.walk(node):
        if isinstance(r, ast.Return) and isinstance(r.value, ast.Call) and isinstance(r.value.func, ast.Name):
            h = func.module.funcs.get(r.value.func.id)
            if h is None or h.cls is not None:
                continue
            body = [x for x in h.node.body if not (isinstance(x, ast.Expr) and isinstance(x.value, ast.Constant))]
            if len(body) == 1 and isinstance(body[0], ast.Return) and isinstance(body[0].value, ast.Tuple) and len(r.value.args) == len(h.params) and not r.value.keywords:
                sub = dict(zip(h.params, r.value.args))
                if all(isinstance(n, ast.Constant) or (isinstance(n, ast.Name) and n.id in sub) for e in body[0].value.elts for n in [e]):
                    r.value = ast.copy_location(ast.Tuple(elts=[copy.deepcopy(sub[e.id]) if isinstance(e, ast.Name) else copy.deepcopy(e) for e in body[0].value.elts], ctx=ast.Load()), r.value)
                    changed = True
    if not changed:
        return func
    return Func(func.module, func.qualname, ast.fix_missing_locations(node), func.cls, func.parent)


def _dict_updates(f):
    """`D.update((k, v) for ...)` as the loop of stores it abbreviates (only when the function has such a call)."""
    from ..core import desugar_comprehensions, inline_pure_temps

    if any(isinstance(c, ast.Call) and isinstance(c.func, ast.Attribute) and c.func.attr == "update" and c.args and isinstance(c.args[0], (ast.GeneratorExp, ast.ListComp, ast.DictComp)) for c in walk_own(f.node)):
        return desugar_comprehensions(f, kinds=("update",))
    return f


def build(ctx, rule):
    repo = ctx.repo
    mod = repo.module("gaftools.cli.order_gfa", rule)
    m = Model()
    m.mod = mod
    # the chromosome loop: a for loop whose body unpacks a tuple from a call to a program function and
    # passes one of the unpack targets (the loop-carried counter) back as an argument
    m.run = None
    from ..core import tail_inlined

    def is_ordering(callee):
        return len([r for r in walk_own(callee.node) if isinstance(r, ast.Return) and isinstance(r.value, ast.Tuple)]) >= 2

    from ..core import unroll_const_loops, inline_object_aliases, guard_clauses_to_else

    def _gc(f_):
        # only the chromosome loop's "nothing to order: warn and go on" clause (a loop whose body unpacks the ordering call)
        return guard_clauses_to_else(f_) if any(isinstance(l_, ast.For) and any(isinstance(s_, ast.If) and not s_.orelse and s_.body and isinstance(s_.body[-1], ast.Continue) and any(isinstance(x_, ast.Call) and "warning" in norm(x_.func) for x_ in ast.walk(s_)) for s_ in l_.body) for l_ in walk_own(f_.node)) else f_

    for f in [inline_object_aliases(unroll_const_loops(_gc(tail_inlined(repo, f0, keep=is_ordering)))) for f0 in mod.funcs.values()]:
        for loop in [n for n in walk_own(f.node) if isinstance(n, ast.For)]:
            for st in loop.body:
                if isinstance(st, ast.Assign) and isinstance(st.value, ast.Call) and isinstance(st.targets[0], (ast.Tuple, ast.Name)):
                    callee = repo.resolve_call(f, st.value)
                    if callee is None or callee.module is not mod:
                        continue
                    rets = [r for r in walk_own(callee.node) if isinstance(r, ast.Return) and isinstance(r.value, ast.Tuple)]
                    if len(rets) >= 2:
                        m.run, m.loop, m.call_stmt, m.dec = f, loop, st, _dict_updates(_inline_return_helpers(repo, tail_inlined(repo, callee)))  # also `return _skipped(bo)`
                        m.run0 = mod.funcs[f.qualname]
    if m.run is None:
        raise AnalysisError(rule, mod.relpath, "cannot find the chromosome loop (for-loop unpacking the result of the per-component ordering function)")
    ctx.analysed_func(m.run)
    ctx.analysed_func(m.dec)
    m.call = m.call_stmt.value
    m.targets = [norm(t) for t in m.call_stmt.targets[0].elts] if isinstance(m.call_stmt.targets[0], ast.Tuple) else [norm(m.call_stmt.targets[0])]
    # `skipped = (None, ..., bo_start, None)` bound once and returned by name: read as the tuple
    import copy as _copy

    _defs = {}
    for st_ in walk_own(m.dec.node):
        if isinstance(st_, ast.Assign) and len(st_.targets) == 1 and isinstance(st_.targets[0], ast.Name):
            _defs.setdefault(st_.targets[0].id, []).append(st_.value)
    _tup = {k: v[0] for k, v in _defs.items() if len(v) == 1 and isinstance(v[0], ast.Tuple)}
    if any(isinstance(r, ast.Return) and isinstance(r.value, ast.Name) and r.value.id in _tup for r in walk_own(m.dec.node)):
        from ..core import Func as _Func

        node_ = _copy.deepcopy(m.dec.node)
        for r in ast.walk(node_):
            if isinstance(r, ast.Return) and isinstance(r.value, ast.Name) and r.value.id in _tup:
                r.value = _copy.deepcopy(_tup[r.value.id])
        m.dec = _Func(m.dec.module, m.dec.qualname, ast.fix_missing_locations(node_), m.dec.cls, m.dec.parent)
    m.returns = [r for r in walk_own(m.dec.node) if isinstance(r, ast.Return)]
    arity = {len(r.value.elts) for r in m.returns if isinstance(r.value, ast.Tuple)}
    if len(arity) > 1 and isinstance(m.call_stmt.targets[0], ast.Tuple):
        from .common import key_of as _key_of

        for r in m.returns:
            if isinstance(r.value, ast.Tuple) and len(r.value.elts) != len(m.targets):
                ctx.violated(rule if "." in rule else "R18.1", m.dec.where(r), f"this return hands back {len(r.value.elts)} values but the chromosome loop unpacks {len(m.targets)} (`{', '.join(m.targets)[:60]} = ...`): a component that leaves through it raises ValueError and aborts the whole command instead of being skipped", _key_of(m.dec, f"return-arity:{len(r.value.elts)}!={len(m.targets)}"))
    if len(arity) != 1 or any(not isinstance(r.value, ast.Tuple) for r in m.returns):
        raise AnalysisError(rule, m.dec.where(), f"return statements do not all return tuples of one arity ({arity})")
    m.arity = arity.pop()
    if len(m.targets) != m.arity:
        raise AnalysisError(rule, m.run.where(m.call_stmt), f"caller unpacks {len(m.targets)} values but the callee returns {m.arity}")
    # argument -> parameter binding
    params = m.dec.params
    m.arg_of_param = {}
    for i, a in enumerate(m.call.args):
        if i < len(params):
            m.arg_of_param[params[i]] = a
    for k in m.call.keywords:
        m.arg_of_param[k.arg] = k.value
    # success flag: the If after the call whose test is one of the unpack targets
    m.success_if = None
    m.flag_pos = None
    idx = m.loop.body.index(m.call_stmt)
    for st in m.loop.body[idx + 1 :]:
        if isinstance(st, ast.If):
            t = st.test
            name = None
            pol = True
            if isinstance(t, ast.Name):
                name = t.id
            elif isinstance(t, ast.Compare) and len(t.ops) == 1 and isinstance(t.ops[0], ast.IsNot) and const_value(t.comparators[0], 0) is None and isinstance(t.left, ast.Name):
                name = t.left.id
            elif isinstance(t, ast.UnaryOp) and isinstance(t.op, ast.Not) and isinstance(t.operand, ast.Name):
                name = t.operand.id
                pol = False
            elif isinstance(t, ast.Compare) and len(t.ops) == 1 and isinstance(t.ops[0], ast.Is) and const_value(t.comparators[0], 0) is None and isinstance(t.left, ast.Name):
                name = t.left.id
                pol = False
            if name in m.targets:
                m.success_if = st
                m.flag_pos = m.targets.index(name)
                m.success_body = st.body if pol else st.orelse
                m.skip_body = st.orelse if pol else st.body
                break
    if m.success_if is None:
        raise AnalysisError(rule, m.run.where(m.loop), "cannot find the success test on a value returned by the ordering function")
    # classify returns: failure = None at flag position
    m.fail_returns = [r for r in m.returns if isinstance(r.value.elts[m.flag_pos], ast.Constant) and r.value.elts[m.flag_pos].value is None]
    m.ok_returns = [r for r in m.returns if r not in m.fail_returns]
    return m


def counter_protocol(m):
    """How the running BO counter travels through the chromosome loop.
    -> (kind, pos, counter_var, param)   kind 'assign': counter is an unpack target that is also a call argument;
                                          kind 'add': an unpack target t with a later `counter += t` and counter a call argument."""
    argvars = {norm(a): p for p, a in m.arg_of_param.items() if isinstance(a, ast.Name)}
    for pos, t in enumerate(m.targets):
        if t in argvars:
            return ("assign", pos, t, argvars[t])
    idx = m.loop.body.index(m.call_stmt)
    for st in walk_stmts(m.loop.body[idx + 1 :]):
        if isinstance(st, ast.AugAssign) and isinstance(st.op, ast.Add) and norm(st.target) in argvars and norm(st.value) in m.targets:
            return ("add", m.targets.index(norm(st.value)), norm(st.target), argvars[norm(st.target)], st)
    return None
