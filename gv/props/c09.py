"""C09 — sort emits every record once, unchanged, plus correct bo/sn/iv tags.

R09.1  two-pass permutation: tell() immediately before the readline() it indexes, one record per
       non-EOF line; second pass: seek(record offset), readline, exactly one write per record
R09.2  appended fields: raw line (only rstrip) + \tbo:i: BO + \tsn:Z: sn + \tiv:i: inv + newline
R09.3  tag semantics: sn only from the SN tag of a rank-0 node, 'unknown' otherwise; iv = 1 exactly
       when scaffold nodes are traversed in both orientations; bo = BO of the anchor (R08.2)
"""

from __future__ import annotations

import ast

from ..core import AnalysisError, const_value, norm, walk_own, walk_stmts, names_in
from ..paths import enum_paths, canon_test
from .. import ordtab, tmpl
from . import sort_common as sc
from . import c08
from .common import key_of

META = {
    "explanation": "Static decision of gaftools sort's record handling: a typestate walk over the input handle shows that the offset stored with each "
    "record is the value of tell() taken immediately before the readline() that returned that record (no other operation on the handle in "
    "between, the value not carried over from an earlier iteration), that every non-empty line yields exactly one stored record, and that the "
    "second pass seeks each stored offset, re-reads one line and writes exactly once; the written string is modelled as a tab-separated "
    "template: raw line + exactly bo:i / sn:Z / iv:i in this order, each fed from the record of the same iteration; the provenance of sn and "
    "iv in process_alignment is decided (sn only under SR == 0, default 'unknown'; iv from the decision table of the two orientation counts).",
    "technique": "static analysis: handle typestate along enumerated paths, string templates, def-use provenance, decision tables",
}


def check(ctx):
    m = sc.build(ctx, "R09")
    ctx.run(r09_1, m)
    ctx.run(r09_2, m)
    ctx.run(r09_3, m, _independent=True)  # the tag values are decided from the key extraction alone
    ctx.run(c08.check_provenance)  # bo:i is the BO of the anchor node: same rule as the sort key
    # sn:Z is the SN tag value as the graph loader stored it: the loader's TAG:TYPE:VALUE split is shared with C07
    from . import gfa_common as gc
    from . import c07

    ctx.run(c07.r07_4, gc.build(ctx, "R07.4"))
    ctx.not_decided.append("byte equality of the re-read line under BGZF (pysam's seek/readline contract)")
    ctx.assumptions.append("tell()/seek()/readline() of text files and pysam BGZFile are consistent with each other")
    # mechanisms this property rests on (see shared.py): a change there is reported here as well
    from . import shared as _sh

    ctx.run_shared(_sh.path_tokenisers)
    ctx.run_shared(_sh.graph_loader)
    ctx.run_shared(_sh.gaf_reader)  # sort opens its input by the same content sniffer as the GAF reader
    ctx.run_shared(_sh.cli_layer, "gaftools.cli.sort")


def handle_ops_on_path(p, handle):
    """Sequence of (op, stmt) on the handle along a path."""
    out = []
    for e in p.events:
        node = e.node if e.kind in ("stmt", "test") else None
        if node is None:
            continue
        for c in ast.walk(node):
            if sc.is_handle_op(c, handle):
                out.append((c.func.attr, e, c))
    return out


def r09_1(ctx, m):
    f = m.f
    rd = m.reader
    # offset expression stored in the record
    off_attr = None
    for attr, v in m.ctor_kw.items():
        for n in walk_own(f.node):
            if isinstance(n, ast.Assign) and norm(n.targets[0]) == norm(v) and isinstance(n.value, ast.Call) and isinstance(n.value.func, ast.Attribute) and n.value.func.attr == "tell":
                off_attr = attr
                off_var = norm(v)
    if off_attr is None:
        # offset may be computed differently: find the field used by seek in pass 2
        seek = [c for c in ast.walk(m.pass2) if isinstance(c, ast.Call) and isinstance(c.func, ast.Attribute) and c.func.attr == "seek"]
        used = None
        if seek:
            a = seek[0].args[0]
            if isinstance(a, ast.Name):
                d = [st for st in m.pass2.body if isinstance(st, ast.Assign) and norm(st.targets[0]) == a.id]
                a = d[0].value if d else a
            if isinstance(a, ast.Attribute):
                used = a.attr
        src = norm(m.ctor_kw.get(used)) if used in m.ctor_kw else "?"
        src_defs = [st for st in walk_stmts(f.node.body) if (isinstance(st, ast.Assign) and any(norm(t) == src for t in st.targets)) or (isinstance(st, ast.AugAssign) and norm(st.target) == src)]
        if not src_defs:
            raise AnalysisError("R09.1", f.where(m.pass1), f"the offset stored with each record (`{src}`) is not assigned in the sort function (it is handed in by a generator or a caller): where it comes from is not traced")
        ctx.violated("R09.1", f.where(m.pass1), f"the offset stored with each record (`{src}`) is not the value of {rd}.tell() taken before reading the record", key_of(f, f"offset-not-tell:{src}"), stored=src)
        return
    m.off_attr = off_attr
    # writes of off_var in the read loop must all be `<reader>.tell()`
    wr = [st for st in walk_stmts(m.pass1.body) if isinstance(st, (ast.Assign, ast.AugAssign)) and off_var in {norm(t) for t in (st.targets if isinstance(st, ast.Assign) else [st.target])}]
    non_tell = [norm(st) for st in wr if not (isinstance(st, ast.Assign) and isinstance(st.value, ast.Call) and isinstance(st.value.func, ast.Attribute) and st.value.func.attr == "tell" and norm(st.value.func.value) == rd)]
    ctx.check(not non_tell, "R09.1", f.where(m.pass1), f"inside the read loop the stored offset `{off_var}` is assigned only from {rd}.tell() (never computed from line lengths)", key_of(f, f"offset-writes:{non_tell}"), found=non_tell)
    bad = None
    n = 0
    for p in m.p1_paths:
        n += 1
        ops = handle_ops_on_path(p, rd)
        has_append = any(e.kind == "stmt" and any(x is m.append for x in ast.walk(e.node)) for e in p.events)
        kinds = [o[0] for o in ops]
        if has_append:
            if kinds[:2] != ["tell", "readline"] or len(kinds) != 2:
                bad = (p, f"handle operations in one iteration are {kinds}, expected exactly tell() then readline()")
                break
            # the tell result is the stored variable, the readline result is the parsed line
            tell_ev = ops[0][1]
            if not (isinstance(tell_ev.node, ast.Assign) and norm(tell_ev.node.targets[0]) == off_var):
                bad = (p, "tell() result is not the stored offset")
                break
        else:
            if p.term in ("fall", "continue"):
                bad = (p, "an iteration reads a line but stores no record (a record would be dropped)")
                # allowed only if the line is empty (EOF) -> that path must `break`
                break
    ctx.check(bad is None, "R09.1", f.where(m.pass1), "read pass: on every path of one iteration tell() immediately precedes the readline() it indexes and exactly one record carrying that offset is stored; only the empty read (EOF) leaves the loop", key_of(f, f"pass1:{bad[1] if bad else ''}"), paths=n, **({"path": bad[0].show(), "why": bad[1]} if bad else {}))
    # EOF test: the break is guarded by `not line`
    brk = [p for p in m.p1_paths if p.term == "break"]
    ok_eof = bool(brk) and all(any(e.kind == "test" and norm(e.node) in ("not line", "line == ''", "len(line) == 0", "not mapping") and e.pol for e in p.events) or any(e.kind == "test" and e.pol and norm(e.node).startswith("not ") for e in p.events) for p in brk)
    ctx.check(ok_eof, "R09.1", f.where(m.pass1), "the read loop ends only on an empty read", key_of(f, "eof-break"))
    # pass 2
    bad2 = None
    for p in m.p2_paths:
        ops = handle_ops_on_path(p, rd)
        kinds = [o[0] for o in ops]
        writes = [e for e in p.events if e.kind == "stmt" and is_write_stmt(ctx, m, e.node)]
        if p.term == "raise":
            continue
        if kinds != ["seek", "readline"]:
            bad2 = (p, f"handle operations {kinds}, expected seek() then readline()")
            break
        seek_call = ops[0][2]
        a = seek_call.args[0]
        src = norm(a)
        if isinstance(a, ast.Name):
            d = [st for st in m.pass2.body if isinstance(st, ast.Assign) and norm(st.targets[0]) == a.id]
            src = norm(d[0].value) if d else src
        if src != f"{m.rec}.{off_attr}":
            bad2 = (p, f"seek target is `{src}`, not the offset of the record being written")
            break
        if len(writes) != 1:
            bad2 = (p, f"{len(writes)} writes for one record")
            break
    ctx.check(bad2 is None, "R09.1", f.where(m.pass2), "write pass: every record is sought by its own offset, re-read with one readline() and written exactly once", key_of(f, f"pass2:{bad2[1] if bad2 else ''}"), paths=len(m.p2_paths), **({"path": bad2[0].show(), "why": bad2[1]} if bad2 else {}))
    from ..core import own_loop_jumps

    skip = own_loop_jumps(m.pass2.body)
    ctx.check(not skip, "R09.1", f.where(m.pass2), "no record is skipped in the write pass (no continue/break)", key_of(f, "pass2-skip"))


def is_write_stmt(ctx, m, st):
    if not (isinstance(st, ast.Expr) and isinstance(st.value, ast.Call)):
        return False
    c = st.value
    if isinstance(c.func, ast.Attribute) and c.func.attr == "write" and m.writer and norm(c.func.value) == m.writer:
        return True
    callee = ctx.repo.resolve_call(m.f, c)
    if callee is not None and any(isinstance(x, ast.Call) and isinstance(x.func, ast.Attribute) and x.func.attr == "write" for x in walk_own(callee.node)):
        return True
    return False


def r09_2(ctx, m):
    f = m.f
    # the line variable that is written
    wstmts = [st for st in walk_stmts(m.pass2.body) if is_write_stmt(ctx, m, st)]
    if not wstmts:
        raise AnalysisError("R09.2", f.where(m.pass2), "no write in the write pass")
    arg = wstmts[0].value.args[0]
    if not isinstance(arg, ast.Name):
        raise AnalysisError("R09.2", f.where(wstmts[0]), "written value is not a simple variable")
    lv = arg.id
    # other local strings the line is assembled from (`tags = "bo:i:%d..." % ...`)
    str_locals = {st.targets[0].id for st in walk_stmts(m.pass2.body) if isinstance(st, ast.Assign) and len(st.targets) == 1 and isinstance(st.targets[0], ast.Name) and isinstance(st.value, (ast.BinOp, ast.JoinedStr, ast.Call, ast.Constant)) and not (isinstance(st.value, ast.Call) and isinstance(st.value.func, ast.Attribute) and st.value.func.attr in ("tell", "readline", "seek"))}
    n_ok = 0
    shown = None
    for p in m.p2_paths:
        if p.term == "raise":
            continue
        b = tmpl.Builder(track_vars=[lv] + sorted(str_locals - {lv}))
        raw_ok = False
        raw_vars = set()  # locals holding the line as read (possibly decoded / right-stripped)
        for e in p.events:
            if e.kind == "stmt" and isinstance(e.node, ast.Assign) and len(e.node.targets) == 1 and isinstance(e.node.targets[0], ast.Name):
                tgt = e.node.targets[0].id
                v = e.node.value
                is_raw = (isinstance(v, ast.Call) and isinstance(v.func, ast.Attribute) and v.func.attr == "readline") or (isinstance(v, ast.Name) and v.id in raw_vars) or any(_keeps_raw(v, rv) for rv in raw_vars | ({lv} if tgt == lv and lv in raw_vars else set()))
                if is_raw:
                    raw_vars.add(tgt)
                    if tgt == lv:
                        b.env[lv] = [("hole", ast.Name(id="RAW", ctx=ast.Load()), "raw")]
                        raw_ok = True
                    continue
                raw_vars.discard(tgt)
            b.feed(e)
        t = b.env.get(lv)
        if t is None:
            continue
        shown = tmpl.show(t)
        want = check_template(ctx, m, f, t, p)
        n_ok += 1
    ctx.require_count("R09.2", n_ok, 1, f.where(m.pass2), "paths building the output line")


def _keeps_raw(v, lv):
    """`v` is the line variable `lv` under a chain of decode(...) / rstrip() / rstrip('\n'): still the raw line"""
    n = 0
    while isinstance(v, ast.Call) and isinstance(v.func, ast.Attribute):
        if v.func.attr == "decode" and all(const_value(a, None) in ("utf-8", "utf8", "UTF-8") for a in v.args) and not v.keywords:
            pass
        elif v.func.attr == "rstrip" and (not v.args or (len(v.args) == 1 and const_value(v.args[0], None) in ("\n", "\r\n", "\n\r"))) and not v.keywords:
            pass
        else:
            return False
        v = v.func.value
        n += 1
    return n > 0 and isinstance(v, ast.Name) and v.id == lv


def check_template(ctx, m, f, t, p):
    rec = m.rec
    cols = tmpl.columns(t)
    first = cols[0]
    ok_raw = len(first) == 1 and first[0][0] == "hole" and first[0][2] == "raw"
    ctx.check(ok_raw, "R09.2", f.where(m.pass2), "the written line starts with the raw input line (only decoded and right-stripped), nothing is edited or re-serialised", key_of(f, f"raw-line:{tmpl.show(first)}"), template=tmpl.show(t))
    want = [("bo:i:", "BO"), ("sn:Z:", "sn"), ("iv:i:", "inv")]
    got = []
    for c in cols[1:]:
        lit = c[0][1] if c and c[0][0] == "lit" else ""
        hole = norm(c[1][1]) if len(c) > 1 and c[1][0] == "hole" else None
        tail = c[2][1] if len(c) > 2 and c[2][0] == "lit" else ""
        got.append((lit, hole, tail, len(c)))
    ok_n = len(got) == 3
    if not got and any(isinstance(c_, ast.Call) and isinstance(c_.func, ast.Attribute) and c_.func.attr in ("join", "format") for c_ in ast.walk(m.pass2)):
        raise AnalysisError("R09.2", f.where(m.pass2), "the written line is assembled with join / format in a way this rule does not read as raw line + appended fields")
    ctx.check(ok_n, "R09.2", f.where(m.pass2), "exactly three fields are appended", key_of(f, f"appended-count:{len(got)}"), template=tmpl.show(t))
    if not ok_n:
        return
    # a second name for the record of this iteration (`alignment = <loop variable>` once, first thing in the body: the item of an
    # inlined generator helper) is the record
    aliases = {rec}
    for st_ in m.pass2.body:
        if isinstance(st_, ast.Assign) and len(st_.targets) == 1 and isinstance(st_.targets[0], ast.Name) and isinstance(st_.value, ast.Name) and st_.value.id in aliases and sum(1 for x_ in ast.walk(m.pass2) if isinstance(x_, ast.Name) and isinstance(x_.ctx, ast.Store) and x_.id == st_.targets[0].id) == 1:
            aliases.add(st_.targets[0].id)
    # ... and a field of the record read into a local once per iteration (`sn = alignment.sn`) is that field
    fld_alias = {}
    for st_ in m.pass2.body:
        if isinstance(st_, ast.Assign) and len(st_.targets) == 1 and isinstance(st_.targets[0], ast.Name) and isinstance(st_.value, ast.Attribute) and isinstance(st_.value.value, ast.Name) and st_.value.value.id in aliases and sum(1 for x_ in ast.walk(m.pass2) if isinstance(x_, ast.Name) and isinstance(x_.ctx, ast.Store) and x_.id == st_.targets[0].id) == 1:
            fld_alias[st_.targets[0].id] = f"{rec}.{st_.value.attr}"
    for (lit, hole, tail, n), (wl, role) in zip(got, want):
        attr = role_attr(m, role)
        hole = fld_alias.get(hole, hole)
        ok = lit == wl and hole in {f"{a_}.{attr}" for a_ in aliases}
        ctx.check(ok, "R09.2", f.where(m.pass2), f"appended field {wl} is fed from the {role} value of the record being written", key_of(f, f"appended:{wl}:{lit}{hole}"), literal=lit, hole=hole, expected=f"{rec}.{attr}")
    last = got[-1]
    ctx.check(last[2] == "\n" and all(g[2] == "" for g in got[:-1]), "R09.2", f.where(m.pass2), "one newline terminates the record", key_of(f, "newline"), template=tmpl.show(t))
    for a in tmpl.arity_errors(t):
        ctx.violated("R09.2", f.where(m.pass2), f"format arity: {a[2]}", key_of(f, "arity"))


def role_attr(m, role):
    """record attribute that carries the role BO / sn / inv, through the key-extraction function's return tuple."""
    rn = sc.returned_names(m.pa)
    names = [norm(t) for t in m.unpack.targets[0].elts]
    pos = {"BO": 0, "NO": 1, "start": 2, "inv": 3, "sn": 4}
    # role positions are discovered from the extraction function: which returned variable is assigned from what
    role_var = {}
    from ..core import local_defs

    pdefs = local_defs(m.pa.node)
    for i, v in enumerate(rn):
        src = " ".join(norm(d) for d in pdefs.get(v, []) if d is not None)
        if "tags['BO']" in src:
            role_var["BO"] = i
        elif "tags['NO']" in src:
            role_var["NO"] = i
        elif "'unknown'" in src or "sn_tag" in src:
            role_var["sn"] = i
        elif src.strip() in ("0 1", "1 0") or (set(src.split()) <= {"0", "1"} and src):
            role_var["inv"] = i
    i = role_var.get(role)
    if i is None or i >= len(names):
        raise AnalysisError("R09.2", m.pa.where(), f"cannot find the returned value with role {role}")
    local = names[i]
    for attr, v in m.ctor_kw.items():
        if norm(v) == local:
            return attr
    raise AnalysisError("R09.2", m.f.where(), f"record has no field fed from {local}")


def r09_3(ctx, m):
    pa = m.pa
    rn = sc.returned_names(pa)
    where = pa.where()
    sc.orientation_counts_rule(ctx, pa, "R09.3")
    # ---- sn
    sn_var = None
    for v in rn:
        src = [st for st in walk_own(pa.node) if isinstance(st, ast.Assign) and len(st.targets) == 1 and norm(st.targets[0]) == v]
        if any(const_value(s.value) == "unknown" for s in src):
            sn_var = v
            sn_assigns = src
    if sn_var is None:
        ctx.violated("R09.3", where, "no returned value defaults to 'unknown' (sn of a record that touches no reference node)", key_of(pa, "sn-default-missing"))
        return
    loop = [n for n in pa.node.body if isinstance(n, ast.For)]
    if not loop:
        raise AnalysisError("R09.3", where, "no loop over the path elements")
    loop = loop[0]
    # locals for the tags
    tagvar = {}
    for st in walk_stmts(loop.body):
        if isinstance(st, ast.Assign) and isinstance(st.targets[0], ast.Name):
            s = norm(st.value)
            for t in ("SN", "SR", "BO", "NO"):
                if f"tags['{t}']" in s:
                    tagvar[t] = (st.targets[0].id, s)
    if not {"SN", "SR"} <= set(tagvar):
        raise AnalysisError("R09.3", pa.where(loop), f"cannot find the locals that hold the SN and SR tags of the current node (found {sorted(tagvar)}): the tags are read in a form this rule does not follow")
    for st in sn_assigns:
        if any(x is st for x in ast.walk(loop)):
            # inside the loop: value must be the SN tag, guard must include SR == 0
            val_ok = norm(st.value) == tagvar.get("SN", ("?",))[0] or "tags['SN']" in norm(st.value)
            guards = guards_of(loop, st)
            sr = tagvar.get("SR", ("?",))[0]
            g_ok = any(pol and (f"{sr} == 0" in norm(t)) for t, pol in guards)
            # the guard as a truth table over (sn still unknown?, rank == 0?): the store happens in the world (T, T) and in no
            # world with rank != 0
            import itertools as _it

            def _truth(t_, a_, b_):
                if isinstance(t_, ast.BoolOp):
                    vs = [_truth(v_, a_, b_) for v_ in t_.values]
                    if any(v_ is None for v_ in vs):
                        return None
                    return all(vs) if isinstance(t_.op, ast.And) else any(vs)
                if isinstance(t_, ast.UnaryOp) and isinstance(t_.op, ast.Not):
                    v_ = _truth(t_.operand, a_, b_)
                    return None if v_ is None else (not v_)
                tx, tp = canon_test(t_, True)
                if tx == f"{sn_var} is None":
                    return a_ == tp
                if tx == f"{sr} == 0":
                    return b_ == tp
                return None

            tbl = {}
            for a_, b_ in _it.product((True, False), repeat=2):
                vs = [(_truth(t, a_, b_), pol) for t, pol in guards if {sn_var, sr} & {n_.id for n_ in ast.walk(t) if isinstance(n_, ast.Name)}]
                tbl[(a_, b_)] = None if any(v_ is None for v_, _ in vs) else all(v_ == pol for v_, pol in vs)
            if all(v_ is not None for v_ in tbl.values()):
                g_ok = g_ok and tbl[(True, True)] is True and not tbl[(True, False)] and not tbl[(False, False)]
            ctx.check(val_ok and g_ok, "R09.3", pa.where(st), "sn is assigned only from the SN tag of a node whose SR (rank) is 0", key_of(pa, f"sn-assign:{norm(st)}:{[norm(t) for t, _ in guards]}"), guards=[(norm(t), pol) for t, pol in guards])
            # ... and from every such node: nothing but the rank (and "not yet known") decides whether a node may name the
            # contig; a guard on the node's BO / NO tags excludes the reference nodes inside bubbles
            other = [norm(t) for t, pol in guards if any(v_ and v_ in {n_.id for n_ in ast.walk(t) if isinstance(n_, ast.Name)} for v_ in (tagvar.get("BO", (None,))[0], tagvar.get("NO", (None,))[0]))]
            if other:
                ctx.violated("R09.3", pa.where(st), f"whether a rank-0 node names the record's contig also depends on `{other[0][:60]}`: a record whose reference nodes all lie inside bubbles (NO != 0) gets sn 'unknown' and drops out of the per-contig index", key_of(pa, f"sn-guarded-by-bo-no:{other[0][:40]}"))
        elif const_value(st.value) == "unknown":
            guards = guards_of(pa.node, st)
            g_ok = any(pol and norm(t) == f"{sn_var} is None" for t, pol in guards)
            after = pa.node.body.index(loop) < max(i for i, b in enumerate(pa.node.body) if any(x is st for x in ast.walk(b)))
            ctx.check(g_ok and after, "R09.3", pa.where(st), "sn defaults to 'unknown' exactly when no rank-0 node was seen (after the loop, under `sn is None`)", key_of(pa, f"sn-default:{[norm(t) for t, _ in guards]}"))
        elif isinstance(st.value, ast.Constant) and st.value.value is None:
            continue
        else:
            ctx.violated("R09.3", pa.where(st), f"unexpected assignment to sn: `{norm(st)}`", key_of(pa, f"sn-other:{norm(st)}"))
    sr_int = "SR" in tagvar and tagvar["SR"][1].startswith("int(")
    ctx.check(sr_int, "R09.3", where, "the SR tag is compared numerically (int(...))", key_of(pa, "sr-int"))
    # ---- inv
    inv_var = None
    for v in rn:
        src = [st for st in walk_own(pa.node) if isinstance(st, ast.Assign) and len(st.targets) == 1 and norm(st.targets[0]) == v]
        vals = {const_value(s.value, "?") for s in src}
        if vals == {0, 1}:
            inv_var = v
            inv_src = src
    if inv_var is None:
        ctx.violated("R09.3", where, "no returned 0/1 inversion flag", key_of(pa, "inv-missing"))
        return
    one = [s for s in inv_src if const_value(s.value) == 1][0]
    guards = guards_of(pa.node, one)

    from ..core import local_defs as _ld

    _pd = _ld(pa.node)

    def atom_of(e, depth=0):
        if isinstance(e, ast.Call) and isinstance(e.func, ast.Attribute) and e.func.attr == "count" and e.args:
            c = const_value(e.args[0])
            if c == ">":
                return "fwd"
            if c == "<":
                return "rev"
        if isinstance(e, ast.Name) and depth < 3:
            d = _pd.get(e.id)
            if d and len(d) == 1 and d[0] is not None:
                return atom_of(d[0], depth + 1)
        return None

    bad = None
    rows = 0
    for env, scale in ordtab.weak_orderings(["fwd", "rev"], [0]):
        if env["fwd"] < 0 or env["rev"] < 0:
            continue
        rows += 1
        try:
            v = all(ordtab.Evaluator(env, atom_of, scale).truth(t) == pol for t, pol in guards)
        except ordtab.Unsupported as e:
            # not a function of the two counts: evaluate the guard on every list of scaffold orientations up to length four
            ol_ = sc.scaffold_orientation_list(pa)
            if ol_ is None:
                raise AnalysisError("R09.3", pa.where(one), f"inversion guard outside the fragment: {e}")
            try:
                mk_ = sc.orientation_collection(pa, ol_)
                if mk_ is None:
                    raise sc.ListUnsupported(f"`{ol_}` is neither appended to nor added to")
                for L_ in sc.orientation_lists(4):
                    v_ = all(bool(sc.eval_list_test(t, ol_, mk_(L_), _pd)) == pol for t, pol in guards)
                    want_ = ">" in L_ and "<" in L_
                    if v_ != want_ and bad is None:
                        bad = {"scaffold_orientations": "".join(L_), "iv": int(v_), "required": int(want_)}
            except sc.ListUnsupported as e2:
                raise AnalysisError("R09.3", pa.where(one), f"inversion guard outside the fragment: {e} / {e2}")
            rows = 31
            break
        want = env["fwd"] > 0 and env["rev"] > 0
        if v != want:
            bad = {"count('>')": env["fwd"], "count('<')": env["rev"], "iv": int(v), "required": int(want)}
    ctx.check(bad is None and bool(guards), "R09.3", pa.where(one), "decision table of iv over the two scaffold-orientation counts: iv = 1 exactly when both orientations occur", key_of(pa, f"iv-table:{[norm(t) for t, _ in guards]}"), rows=rows, **({"witness": bad} if bad else {}))
    # the orientation list receives an orientation only for scaffold nodes (NO == 0) that are tagged
    olist = None
    for c in walk_own(pa.node):
        if isinstance(c, ast.Call) and isinstance(c.func, ast.Attribute) and c.func.attr == "count" and c.args and const_value(c.args[0]) in (">", "<"):
            olist = norm(c.func.value)
    if olist:
        apps = [st for st in walk_stmts(loop.body) if isinstance(st, ast.Expr) and isinstance(st.value, ast.Call) and isinstance(st.value.func, ast.Attribute) and st.value.func.attr == "append" and norm(st.value.func.value) == olist]
        ctx.require_count("R09.3", len(apps), 1, pa.where(loop), "append to the scaffold-orientation list")
        no = tagvar.get("NO", ("?",))[0]
        paths = enum_paths(loop.body, rule="R09.3", where=pa.where(loop))
        badp = None
        for p in paths:
            app = any(e.kind == "stmt" and e.node is apps[0] for e in p.events)
            if not app:
                continue
            # every path that appends must have established NO == 0 (i.e. `no != 0` False or `no == 0` True)
            est = False
            for t, pol in p.tests():
                s, sp = canon(t, pol)
                if s == f"{no} == 0" and sp:
                    est = True
            if not est:
                badp = p
        ctx.check(badp is None, "R09.3", pa.where(apps[0]), "an orientation is recorded only for scaffold nodes (NO == 0)", key_of(pa, "orient-append-guard"), **({"path": badp.show()} if badp else {}))
        ov = norm(apps[0].value.args[0])
        # the orientation recorded is the sign preceding this node
        sets = [st for st in walk_stmts(loop.body) if isinstance(st, ast.Assign) and norm(st.targets[0]) == ov]
        if not sets:
            raise AnalysisError("R09.3", pa.where(apps[0]), f"the orientation `{ov}` that is recorded is not assigned in the node loop (it is handed in by the loop header or a helper): that it is the sign preceding the node is not traced")
        ctx.check(len(sets) == 1 and norm(sets[0].value) == norm(loop.target), "R09.3", pa.where(apps[0]), "the orientation recorded is the sign element preceding the node in the path", key_of(pa, "orient-value"))


def canon(t, pol):
    from ..paths import canon_test

    return canon_test(t, pol)


def _always_leaves(body):
    """The statement list always ends by leaving the enclosing block (continue/break/return/raise/sys.exit)."""
    if not body:
        return False
    last = body[-1]
    if isinstance(last, (ast.Continue, ast.Break, ast.Return, ast.Raise)):
        return True
    if isinstance(last, ast.Expr) and isinstance(last.value, ast.Call) and norm(last.value.func) in ("sys.exit", "exit", "quit", "os._exit"):
        return True
    if isinstance(last, ast.If):
        return _always_leaves(last.body) and _always_leaves(last.orelse)
    return False


def guards_of(root, stmt):
    """[(test, polarity)] that hold whenever control reaches `stmt` below `root`: the tests of the enclosing If
    statements (outermost first) and the negations contributed by earlier sibling statements of the form
    `if c: ...; continue/return/raise` (then c is False afterwards; symmetrically for an else branch that leaves)."""
    out = []

    def rec(body):
        for i, st in enumerate(body):
            found = False
            local = []
            if st is stmt:
                found = True
            elif isinstance(st, ast.If):
                if rec(st.body):
                    local.append((st.test, True))
                    found = True
                elif rec(st.orelse):
                    local.append((st.test, False))
                    found = True
            else:
                for fld in ("body", "orelse", "finalbody"):
                    sub = getattr(st, fld, None)
                    if isinstance(sub, list) and sub and isinstance(sub[0], ast.stmt) and rec(sub):
                        found = True
                        break
                if not found:
                    for h in getattr(st, "handlers", []) or []:
                        if rec(h.body):
                            found = True
                            break
            if found:
                # negations from earlier siblings in this block
                sib = []
                for prev in body[:i]:
                    if isinstance(prev, ast.If):
                        if _always_leaves(prev.body) and not _always_leaves(prev.orelse):
                            sib.append((prev.test, False))
                        elif prev.orelse and _always_leaves(prev.orelse) and not _always_leaves(prev.body):
                            sib.append((prev.test, True))
                out.extend(local)
                out.extend(reversed(sib))
                return True
        return False

    rec(root.body if hasattr(root, "body") else root)
    out.reverse()
    return out
