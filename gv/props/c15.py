"""C15 — graph decomposition primitives are exact (decided part: edits keep the graph consistent).

R15.1  who may write adjacency: Node.start/.end are mutated only inside Node.add_from_*/remove_from_*;
       those are called only from GFA.add_edge/remove_edge; nodes leave GFA.nodes only in remove_node
R15.2  mirrored mutation: on every path add_edge / remove_edge mutate endpoint 1 with (n2, side2, ov)
       and endpoint 2 with (n1, side1, ov); the side -> method mapping is the same at both ends
R15.3  deletion leaves no reference: every GFA attribute that receives node ids on the add/load path is
       purged on the remove path, with the same key shape
R15.4  removal tolerates the coinciding ends of a same-side self link
R15.5  biccs edge-stack typestate: the edge stack is only pushed to and truncated at the recorded cut
       position of the (parent, child) tree edge
"""

from __future__ import annotations

import ast

from ..core import AnalysisError, const_value, norm, walk_own, walk_stmts, names_in, same_func
from ..paths import enum_paths, canon_test
from . import gfa_common as gc
from .common import key_of

META = {
    "explanation": "Static decision of the edit-consistency clause of C15: ownership (only Node.add_from_*/remove_from_* mutate the adjacency sets, only "
    "GFA.add_edge/remove_edge call them, only remove_node deletes from GFA.nodes), mirrored mutation (every path of add_edge and remove_edge "
    "performs exactly one mutation at each end, with the other end's (node, side, overlap) and the same side->method table), coverage of the "
    "remove path (every registry that the add/load path fills with node ids - edge_tags, contig_to_nodes - is purged with the same key "
    "shape), tolerance of removal for coinciding ends of a self link, and the typestate of biccs' edge stack (push, and truncation at the "
    "recorded position of the (parent, child) tree edge only).  NOT decided: that all_components, biccs and dfs compute the true "
    "components / biconnected components / articulation points on every graph - that is a statement about algorithm values, out of reach "
    "for this family without a verified reference implementation.",
    "technique": "static analysis: who-may-write/call-graph ownership, per-path mutation pairing, constructor/destructor key-shape agreement, container typestate",
}


def check(ctx):
    g = gc.build(ctx, "R15")
    ctx.run(r15_1, g)
    ctx.run(r15_2, g)
    ctx.run(r15_3, g)
    ctx.run(r15_4, g)
    ctx.run(r15_5, g)
    ctx.run(r15_6, g)
    ctx.run(r15_7, g)
    ctx.run(r15_8, g)
    ctx.run(r15_9, g, _independent=True)  # the marks discipline is read from the methods themselves
    ctx.run(r15_10, g)
    ctx.run(r15_11, g)
    ctx.run(r15_12, g, _independent=True)
    ctx.not_decided += [
        "that all_components / find_component partition the nodes into the true connected components",
        "that biccs returns exactly the biconnected components and articulation points (algorithmic exactness; only the edge-stack discipline is decided)",
        "that dfs visits every node of the component exactly once",
    ]
    # the graph these primitives work on is the one the loader builds from a file: a change there is reported here as well
    from . import shared as _sh

    ctx.run_shared(_sh.graph_loader)


def _nf(repo, f):
    """functions of gaftools.gfa with their private helpers (leading underscore) inlined"""
    from ..core import tail_inlined

    if f.module.name != "gaftools.gfa":
        return f
    from ..core import detuple

    return detuple(repo, tail_inlined(repo, f, keep=lambda c: not c.name.startswith("_") or c.name.startswith("__")))


def r15_1(ctx, g):
    repo = ctx.repo
    mutators = {"add", "remove", "discard", "clear", "update", "pop", "difference_update", "intersection_update", "symmetric_difference_update"}
    owners = set()
    viol = []
    n = 0
    nf = lambda f: _nf(repo, f)  # noqa: E731

    for f in map(nf, repo.all_funcs()):
        for c in walk_own(f.node):
            # direct mutation of an adjacency set:  X.start.add(...)  /  X.end.remove(...)
            if isinstance(c, ast.Call) and isinstance(c.func, ast.Attribute) and c.func.attr in mutators and isinstance(c.func.value, ast.Attribute) and c.func.value.attr in ("start", "end"):
                base = c.func.value.value
                n += 1
                if f.cls == "Node" and norm(base) == "self" and f.name.startswith(("add_from_", "remove_from_")):
                    owners.add(f.qualname)
                elif f.module.name == "gaftools.conversion":
                    pass
                else:
                    viol.append((f, c))
            # rebinding .start/.end of a node outside the constructor (aliasing hand-outs are listed)
            if isinstance(c, ast.Assign):
                for t in c.targets:
                    if isinstance(t, ast.Attribute) and t.attr in ("start", "end") and f.module.name == "gaftools.gfa" and not (f.cls == "Node" and f.name == "__init__"):
                        fresh = isinstance(t.value, ast.Name) and any(isinstance(a, ast.Assign) and norm(a.targets[0]) == t.value.id and isinstance(a.value, ast.Call) and norm(a.value.func) == "Node" for a in walk_own(f.node))
                        if fresh:
                            # a node object created in this function receives the sets of an existing node (sub-graph view)
                            ctx.notes.append(f"shared-storage hand-out: {norm(c)} in {f.qualname} (the sub-graph aliases the adjacency sets of the parent graph)")
                        else:
                            viol.append((f, c))
    for f, c in viol:
        ctx.violated("R15.1", f.where(c), f"`{norm(c)[:70]}` mutates a node's adjacency outside Node.add_from_*/remove_from_*: the other end of the link is not updated with it", key_of(f, f"raw-adjacency-write:{norm(c)[:80]}"))
    if len(owners) != 4 and not viol:
        raise AnalysisError("R15.1", "gaftools/gfa.py", f"cannot find the four methods that own the adjacency sets (found {sorted(owners)}): the sets may be changed through a helper that receives them as an argument, which this rule does not follow")
    ctx.check(len(owners) == 4, "R15.1", "gaftools/gfa.py", "the adjacency sets are mutated only by the four Node.add_from_* / remove_from_* methods", f"gaftools.gfa::adjacency-owners:{sorted(owners)}", owners=sorted(owners), mutation_sites=n)
    # callers of the four methods: add_edge / remove_edge, or private helpers that only they call
    allowed = {"GFA.add_edge", "GFA.remove_edge"}
    changed = True
    while changed:
        changed = False
        for cand in repo.module("gaftools.gfa").funcs.values():
            if cand.cls != "GFA" or cand.qualname in allowed or not cand.name.startswith("_") or cand.name.startswith("__"):
                continue
            callers = repo.callers_of(cand)
            if callers and all(cf.qualname in allowed for cf, _ in callers):
                allowed.add(cand.qualname)
                changed = True
    bad = []
    n_calls = 0
    for f in repo.all_funcs():
        for c in walk_own(f.node):
            if isinstance(c, ast.Call) and isinstance(c.func, ast.Attribute) and c.func.attr.startswith(("add_from_", "remove_from_")):
                n_calls += 1
                if f.qualname not in allowed:
                    bad.append((f, c))
    for f, c in bad:
        ctx.violated("R15.1", f.where(c), f"`{norm(c)[:60]}` is called outside GFA.add_edge/remove_edge: one end of a link changes without the other", key_of(f, f"one-sided-call:{norm(c)[:80]}"))
    ctx.check(not bad and n_calls >= 4, "R15.1", "gaftools/gfa.py", "the one-sided methods are called only from GFA.add_edge / GFA.remove_edge (or private helpers that only those two call)", "gaftools.gfa::one-sided-callers", calls=n_calls, allowed=sorted(allowed))
    # deletions from GFA.nodes
    dels = []
    for f in repo.all_funcs():
        for s in walk_own(f.node):
            if isinstance(s, ast.Delete) and any(isinstance(t, ast.Subscript) and norm(t.value).endswith(".nodes") for t in s.targets):
                dels.append(f.qualname)
            if isinstance(s, ast.Call) and isinstance(s.func, ast.Attribute) and s.func.attr in ("pop", "clear", "popitem") and norm(s.func.value).endswith(".nodes"):
                dels.append(f.qualname)
    ctx.check(dels == ["GFA.remove_node"], "R15.1", "gaftools/gfa.py", "a node leaves GFA.nodes only in remove_node (after its links were removed)", f"gaftools.gfa::node-deleters:{dels}", deleters=dels)
    # remove_node removes every link first: loops over a *copy* of both adjacency sets, then deletes
    rn = g.remove_node
    from ..core import fold_consts, make_resolver

    rn = fold_consts(rn)
    loops = [l for l in walk_stmts(rn.node.body) if isinstance(l, ast.For) and any(isinstance(c, ast.Call) and isinstance(c.func, ast.Attribute) and c.func.attr == "remove_edge" for c in ast.walk(l))]
    sides = set()
    untraced = []
    for l in loops:
        # the iterable, through the temporaries defined before the loop (the last definition before it counts)
        src = norm(l.iter)
        for _ in range(4):
            names = [n.id for n in ast.walk(ast.parse(src, mode="eval")) if isinstance(n, ast.Name)]
            done = True
            for nm in names:
                ds = sorted([st for st in walk_stmts(rn.node.body) if isinstance(st, ast.Assign) and norm(st.targets[0]) == nm and rn.before(st, l) and not any(x is st for x in ast.walk(l))], key=rn.pos)
                if ds and nm not in rn.params:
                    import re as _re

                    src = _re.sub(rf"\b{nm}\b", "(" + norm(ds[-1].value) + ")", src)
                    done = False
            if done:
                break
        # a helper that hands out the entries (single return): read through it
        if isinstance(l.iter, ast.Call):
            cal = ctx.repo.resolve_call(rn, l.iter)
            if cal is not None:
                rets_ = [r for r in walk_own(cal.node) if isinstance(r, ast.Return) and r.value is not None]
                if len(rets_) == 1:
                    src = src + " <- " + norm(rets_[0].value)
        hit = [side for side in ("start", "end") if f".{side}" in src]
        import re as _re2

        if len(hit) == 2 and (_re2.search(r"\.start\)? \| [^,]*\.end|\.end\)? \| [^,]*\.start|\.start\)?\.union\(|\.end\)?\.union\(", src)):
            ctx.violated("R15.1", rn.where(l), "remove_node walks over the union of the node's two adjacency sets: an entry that is in both (both sides of the node linked to the same side of one neighbour with the same overlap) is met once, so one of the two links is not removed and the neighbour keeps a reference to the deleted node", key_of(rn, "remove-node-union-of-sides"))
            sides |= {"start", "end"}
            continue
        if len(hit) == 1 and ("[" in src or "list(" in src or "copy" in src or "set(" in src or "tuple(" in src or "sorted(" in src):
            sides.add(hit[0])
        elif len(hit) != 1:
            untraced.append(src[:60])
    # every entry of a side is removed: nothing inside the loop decides to leave one out
    for l in loops:
        from ..core import own_loop_jumps

        skips = own_loop_jumps(l.body)
        cond = [x for x in l.body if isinstance(x, ast.If) and any(isinstance(c, ast.Call) and isinstance(c.func, ast.Attribute) and c.func.attr == "remove_edge" for c in ast.walk(x))]
        if skips or cond:
            t = norm((cond[0] if cond else next(x for x in l.body if isinstance(x, ast.If))).test)[:60] if (cond or any(isinstance(x, ast.If) for x in l.body)) else "?"
            ctx.violated("R15.1", rn.where(l), f"remove_node leaves out the links for which `{t}`: a link that is not removed keeps the neighbour pointing at the deleted node (two links of the node may agree in neighbour, side and overlap and still be two links)", key_of(rn, f"remove-node-filter:{t[:40]}"))
    if untraced and sides != {"start", "end"}:
        raise AnalysisError("R15.1", rn.where(), f"cannot trace which adjacency set a link-removing loop of remove_node walks over ({untraced})")
    ctx.check(sides == {"start", "end"}, "R15.1", rn.where(), "remove_node removes the links of both sides of the node, iterating over copies of the adjacency sets", key_of(rn, f"remove-node-sides:{sorted(sides)}"), sides=sorted(sides))
    last = rn.node.body[-1]
    ctx.check(isinstance(last, ast.Delete), "R15.1", rn.where(last), "the node entry is deleted after its links", key_of(rn, "delete-last"))


def r15_2(ctx, g):
    for f, kind in ((g.add_edge, "add"), (g.remove_edge, "remove")):
        res = gc.endpoint_mutations(ctx, f, kind)
        bad = None
        table = set()
        n = 0
        for p in res:
            muts = p.muts
            if p.term in ("raise",):
                continue
            n += 1
            if len(muts) != 2:
                bad = (p, f"{len(muts)} adjacency mutation(s) on this path (a link needs one at each end)")
                break
            (r1, m1, a1), (r2, m2, a2) = muts
            if not (m1.startswith(kind) and m2.startswith(kind)):
                bad = (p, f"mixed mutation kinds {m1}/{m2}")
                break

            def node_of(r):
                for pre in ("self[", "self.nodes["):
                    if r.startswith(pre) and r.endswith("]"):
                        return r[len(pre) : -1]
                return r

            x1, x2 = node_of(r1), node_of(r2)
            if len(a1) != 3 or len(a2) != 3:
                bad = (p, "mutation does not pass (neighbor, side, overlap)")
                break
            s_1 = side_of(p, m1, a2[1])
            s_2 = side_of(p, m2, a1[1])
            if a1[0] != x2 or a2[0] != x1:
                bad = (p, f"endpoint {x1} records neighbour {a1[0]} and endpoint {x2} records neighbour {a2[0]}: not each other")
                break
            if a1[2] != a2[2]:
                bad = (p, "the two ends record different overlaps")
                break
            if s_1 is None or s_2 is None:
                bad = (p, "the side -> method choice is not decided by a test of the side variable recorded at the other end")
                break
            table |= {s_1, s_2}
        ok_table = table <= {("0", "start"), ("1", "end")} and len(table) == 2
        if bad is None and not ok_table:
            bad = (None, f"side -> method table is {sorted(table)}, expected 0 -> *_start, 1 -> *_end at both ends")
        ctx.check(bad is None, "R15.2", f.where(), f"{f.name}: every path mutates both ends, each end records the other end's (node, side, overlap), with side 0 -> *_from_start and side 1 -> *_from_end at both ends", key_of(f, f"mirrored:{bad[1] if bad else ''}"), paths=n, **({"path": bad[0].show() if bad[0] else None, "why": bad[1]} if bad else {}))
        if bad is None:
            ctx.require_count("R15.2", n, 4, f.where(), "paths (side combinations)")


def side_of(p, method, side_var):
    """(side value, 'start'|'end') for a mutation through `method`, given the path's tests on `side_var`."""
    which = "start" if method.endswith("_start") else "end"
    for s, sp in p.tests:
        if s == f"{side_var} == 0":
            return ("0" if sp else "1", which)
        if s == f"{side_var} == 1":
            return ("1" if sp else "0", which)
    return None


def r15_3(ctx, g):
    repo = ctx.repo
    # registries of the GFA class: attributes initialised in __init__ as containers
    init = repo.func("gaftools.gfa", "GFA.__init__", "R15.3")
    regs = []
    for st in walk_own(init.node):
        if isinstance(st, ast.Assign) and isinstance(st.targets[0], ast.Attribute) and norm(st.targets[0].value) == "self" and isinstance(st.value, (ast.Call, ast.Dict, ast.List)):
            regs.append(st.targets[0].attr)
    fill = {}
    purge = {}
    add_side = {"GFA.add_node", "GFA.add_edge", "GFA.read_graph", "GFA.__setitem__"}
    rm_side = {"GFA.remove_node", "GFA.remove_edge", "GFA.__delitem__"}
    for f in [_nf(repo, f0) for f0 in repo.module("gaftools.gfa").funcs.values()]:
        for s in walk_own(f.node):
            for r in regs:
                base = f"self.{r}"
                if isinstance(s, ast.Assign) and any(isinstance(t, ast.Subscript) and norm(t.value) == base for t in s.targets):
                    t = [t for t in s.targets if isinstance(t, ast.Subscript)][0]
                    if f.qualname in add_side:
                        fill.setdefault(r, []).append((f, s, t.slice))
                if isinstance(s, ast.Call) and isinstance(s.func, ast.Attribute) and s.func.attr in ("append", "add") and norm(s.func.value).startswith(base + "["):
                    if f.qualname in add_side:
                        fill.setdefault(r, []).append((f, s, None))
                if isinstance(s, ast.Call) and isinstance(s.func, ast.Attribute) and s.func.attr in ("pop", "remove", "discard") and (norm(s.func.value) == base or norm(s.func.value).startswith(base + "[")):
                    if f.qualname in rm_side:
                        purge.setdefault(r, []).append((f, s))
                if isinstance(s, ast.Delete) and any(isinstance(t, ast.Subscript) and norm(t.value) == base for t in s.targets):
                    if f.qualname in rm_side:
                        purge.setdefault(r, []).append((f, s))
        # removal through a local alias:  x = self.reg[...] ; x.remove(id)
        if f.qualname in rm_side:
            for s in walk_own(f.node):
                if isinstance(s, ast.Assign) and isinstance(s.targets[0], ast.Name):
                    for r in regs:
                        if norm(s.value).startswith(f"self.{r}["):
                            alias = s.targets[0].id
                            if any(isinstance(c, ast.Call) and isinstance(c.func, ast.Attribute) and c.func.attr in ("remove", "discard", "pop") and norm(c.func.value) == alias for c in walk_own(f.node)):
                                purge.setdefault(r, []).append((f, s))
    # the key tested for presence is the key stored under: an id converted (`x = str(x)`) only after the `x in self` test means the
    # test saw one form and the store uses another (an existing node is missed and replaced by an empty one, its links orphaned)
    for f in repo.module("gaftools.gfa").funcs.values():
        if f.cls != init.cls:
            continue
        for iff in walk_own(f.node):
            if not isinstance(iff, ast.If):
                continue
            for cmp_ in ast.walk(iff.test):
                if isinstance(cmp_, ast.Compare) and len(cmp_.ops) == 1 and isinstance(cmp_.ops[0], (ast.In, ast.NotIn)) and isinstance(cmp_.left, ast.Name) and norm(cmp_.comparators[0]).startswith("self"):
                    k_ = cmp_.left.id
                    for st in walk_stmts(iff.body + iff.orelse):
                        if isinstance(st, ast.Assign) and norm(st.targets[0]) == k_ and isinstance(st.value, ast.Call) and isinstance(st.value.func, ast.Name) and st.value.func.id in ("str", "int", "repr") and norm(st.value.args[0]) == k_ if isinstance(st, ast.Assign) and isinstance(st.value, ast.Call) and st.value.args else False:
                            ctx.violated("R15.3", f.where(st), f"`{k_}` is tested for presence (`{norm(cmp_)}`) in the form the caller passed and converted with `{norm(st.value)}` only afterwards: an id passed in the other form misses the existing node, and a fresh empty node replaces it while its neighbours still list it", key_of(f, f"key-converted-after-test:{k_}"))
    node_regs = [r for r in fill if r != "contigs"]
    ctx.require_count("R15.3", len(node_regs), 3, "gaftools/gfa.py", "registries filled with node ids on the add/load path (nodes, edge_tags, contig_to_nodes)")
    for r in sorted(node_regs):
        ok = r in purge
        ctx.check(ok, "R15.3", "gaftools/gfa.py", f"GFA.{r} receives node ids on the add/load path and is purged on the remove path", f"gaftools.gfa::purge:{r}", filled_in=sorted({f.qualname for f, _, _ in fill[r]}), purged_in=sorted({f.qualname for f, _ in purge.get(r, [])}))
    # key shape of edge_tags: arity at the writer equals arity at every reader and at the purge
    ar = {}
    for f in repo.module("gaftools.gfa").funcs.values():
        for s in walk_own(f.node):
            if isinstance(s, ast.Subscript) and norm(s.value) == "self.edge_tags" and isinstance(s.slice, ast.Tuple):
                ar.setdefault(len(s.slice.elts), []).append(f.qualname)
            if isinstance(s, ast.Call) and isinstance(s.func, ast.Attribute) and norm(s.func.value) == "self.edge_tags" and s.func.attr in ("pop", "get") and s.args and isinstance(s.args[0], ast.Tuple):
                ar.setdefault(len(s.args[0].elts), []).append(f.qualname)
            if isinstance(s, ast.Compare) and any(norm(c) == "self.edge_tags" for c in s.comparators):
                k = s.left
                if isinstance(k, ast.Tuple):
                    ar.setdefault(len(k.elts), []).append(f.qualname)
                elif isinstance(k, ast.Name):
                    # arity of a name: tuple-unpacked elsewhere in the function
                    for u in walk_own(f.node):
                        if isinstance(u, ast.Assign) and isinstance(u.targets[0], ast.Tuple) and norm(u.value) == k.id:
                            ar.setdefault(len(u.targets[0].elts), []).append(f.qualname)
    if not ar or any(isinstance(c_, ast.Call) and isinstance(c_.func, ast.Name) and repo.resolve_call(f_, c_) is not None for f_ in repo.module("gaftools.gfa").funcs.values() for s_ in walk_own(f_.node) if isinstance(s_, ast.Subscript) and norm(s_.value) == "self.edge_tags" for c_ in [s_.slice]):
        raise AnalysisError("R15.3", "gaftools/gfa.py", "the keys of edge_tags are built by a helper (or not written as tuples): that writer, readers and purge agree on their shape is not read by this rule")
    if len(set(ar)) == 1 and set(ar) != {4}:
        raise AnalysisError("R15.3", "gaftools/gfa.py", f"edge_tags is keyed by {sorted(ar)[0]}-tuples at every site: a key convention this rule has no model of (the purge from either end is not checked)")
    ctx.check(set(ar) == {4}, "R15.3", "gaftools/gfa.py", "edge_tags is keyed by (node1, side1, node2, side2) everywhere: writer, readers and the purge use the same 4-tuple shape", f"gaftools.gfa::edge-tags-arity:{sorted(ar)}", arities={k: sorted(set(v)) for k, v in ar.items()})
    # the purge covers the key from either end
    re_ = g.remove_edge
    pops = [c for c in walk_own(re_.node) if isinstance(c, ast.Call) and isinstance(c.func, ast.Attribute) and norm(c.func.value) == "self.edge_tags" and c.func.attr == "pop" and c.args and isinstance(c.args[0], ast.Tuple)]
    dels = [t for s in walk_own(re_.node) if isinstance(s, ast.Delete) for t in s.targets if isinstance(t, ast.Subscript) and norm(t.value) == "self.edge_tags" and isinstance(t.slice, ast.Tuple)]
    keys = [tuple(norm(e) for e in c.args[0].elts) for c in pops] + [tuple(norm(e) for e in t.slice.elts) for t in dels]
    unpack = [u for u in walk_own(re_.node) if isinstance(u, ast.Assign) and isinstance(u.targets[0], ast.Tuple) and len(u.targets[0].elts) == 5]
    ok = False
    if unpack:
        a, sa, b, sb, ov = [norm(e) for e in unpack[0].targets[0].elts]
        ok = (a, sa, b, sb) in keys and (b, sb, a, sa) in keys
        tol = all(len(c.args) >= 2 for c in pops) and not dels
        ok = ok and tol
    ctx.check(ok, "R15.3", re_.where(), "remove_edge forgets the link's tags whichever end declared the link (both key orders, absent keys tolerated)", key_of(re_, f"edge-tags-purge:{keys}"), keys=keys)
    # add_node registers with the contig exactly once per created node (inside the 'node is new' branch)
    an = g.add_node
    regs_stmt = [s for s in walk_stmts(an.node.body) if isinstance(s, ast.Expr) and isinstance(s.value, ast.Call) and "contig_to_nodes" in norm(s.value.func)]
    from .c09 import guards_of

    ok = len(regs_stmt) == 1 and any(canon_test(t, pol)[0].endswith(" in self") and not canon_test(t, pol)[1] for t, pol in guards_of(an.node, regs_stmt[0]))
    in_loader = [s for s in walk_own(g.read_graph.node) if isinstance(s, ast.Call) and "contig_to_nodes" in norm(s.func)]
    ctx.check(ok and not in_loader, "R15.3", an.where(), "a node is registered with its contig exactly once, when it is created (add_node), not per S line", key_of(an, f"contig-register:{len(regs_stmt)}:{len(in_loader)}"))


def r15_4(ctx, g):
    repo = ctx.repo
    tolerant = {}
    from ..core import tail_inlined
    from .c09 import guards_of

    for name in ("Node.remove_from_start", "Node.remove_from_end"):
        f = tail_inlined(repo, repo.func("gaftools.gfa", name, "R15.4"))
        ctx.analysed_func(f)
        ok = False
        for c in walk_own(f.node):
            if isinstance(c, ast.Call) and isinstance(c.func, ast.Attribute) and c.func.attr == "discard":
                ok = True
            if isinstance(c, ast.Call) and isinstance(c.func, ast.Attribute) and c.func.attr == "remove":
                for t in walk_own(f.node):
                    if isinstance(t, ast.Try) and any(x is c for b in t.body for x in ast.walk(b)) and any(h.type is None or "KeyError" in norm(h.type) or norm(h.type) == "Exception" for h in t.handlers):
                        ok = True
                # membership-guarded removal: if x in S: S.remove(x)
                stmt = _stmt_with(f, c)
                if stmt is not None and c.args:
                    want = (f"{norm(c.args[0])} in {norm(c.func.value)}", True)
                    if any(canon_test(t, pol) == want for t, pol in guards_of(f.node, stmt)):
                        ok = True
        tolerant[name] = ok
    # alternatively remove_edge may skip the second removal when both ends coincide
    re_ = g.remove_edge
    guard = any(isinstance(t, ast.Compare) and len(t.ops) == 1 and isinstance(t.ops[0], (ast.Eq, ast.NotEq)) and {norm(t.left), norm(t.comparators[0])} & {"(n1, side1)", "(n2, side2)"} for t in walk_own(re_.node))
    ctx.check(all(tolerant.values()) or guard, "R15.4", re_.where(), "removing a same-side self link (both ends are one set element) does not fail: the one-sided removal tolerates an absent element, or remove_edge skips the coinciding second end", key_of(re_, f"self-link-removal:{tolerant}:{guard}"), tolerant=tolerant, coincidence_guard=guard)


def r15_5(ctx, g):
    repo = ctx.repo
    f = repo.func("gaftools.gfa", "GFA.biccs", "R15.5")
    ctx.analysed_func(f)
    # no short cut for small inputs that a graph with a link can take: two linked nodes are one component
    from .c09 import guards_of as _gof15
    import operator as _op15

    for r_ in walk_own(f.node):
        if isinstance(r_, ast.Return) and r_.value is not None and all(isinstance(e_, (ast.List, ast.Set, ast.Dict, ast.Tuple)) and not getattr(e_, "elts", getattr(e_, "keys", None)) or (isinstance(e_, ast.Call) and norm(e_.func) in ("set", "list", "dict") and not e_.args) for e_ in (r_.value.elts if isinstance(r_.value, ast.Tuple) and r_.value.elts else [r_.value])):
            for t_, pol_ in _gof15(f.node, r_):
                c_ = t_.operand if isinstance(t_, ast.UnaryOp) and isinstance(t_.op, ast.Not) else t_
                neg_ = c_ is not t_
                if isinstance(c_, ast.Compare) and len(c_.ops) == 1 and isinstance(c_.left, ast.Call) and norm(c_.left.func) == "len" and isinstance(const_value(c_.comparators[0], None), int):
                    fn_ = {ast.Eq: _op15.eq, ast.NotEq: _op15.ne, ast.Lt: _op15.lt, ast.LtE: _op15.le, ast.Gt: _op15.gt, ast.GtE: _op15.ge}.get(type(c_.ops[0]))
                    if fn_ is not None and any((fn_(n_, const_value(c_.comparators[0])) != neg_) == pol_ for n_ in (2, 3, 4)):
                        ctx.violated("R15.5", f.where(r_), f"biccs returns the empty result when `{norm(t_)[:40]}`, which a node set with links in it satisfies: two linked nodes are one biconnected component, and the link between them must lie in exactly one component", key_of(f, f"small-graph-shortcut:{norm(t_)[:30]}"))
    f = _nf(repo, f)  # private helpers of the class (static or not) are read in place
    everything = list(ast.walk(f.node))  # including nested helper functions: they operate on the same stack
    nested = {n.name: n for n in everything if isinstance(n, ast.FunctionDef) and n is not f.node}
    stack = None
    for c in everything:
        if isinstance(c, ast.Call) and isinstance(c.func, ast.Attribute) and c.func.attr == "append" and c.args and isinstance(c.args[0], ast.Tuple) and len(c.args[0].elts) == 2:
            stack = norm(c.func.value)
    if stack is None:
        raise AnalysisError("R15.5", f.where(), "cannot find the edge stack")
    loc = None
    for s in everything:
        if isinstance(s, ast.Assign) and isinstance(s.targets[0], ast.Subscript) and isinstance(s.targets[0].slice, ast.Tuple) and f"len({stack}) - 1" in norm(s.value):
            loc = norm(s.targets[0].value)
    if loc is None:
        raise AnalysisError("R15.5", f.where(), "cannot find the table of edge-stack positions")

    def cut_key_ok(assign, owner):
        """cut = LOC[(parent, child)], directly or through a helper parameter that every call site binds to (parent, child)."""
        v = assign.value
        if not (isinstance(v, ast.Subscript) and norm(v.value) == loc):
            return False
        if norm(v.slice) == "(parent, child)":
            return True
        if isinstance(v.slice, ast.Name) and owner is not None:
            params = [a.arg for a in owner.args.args]
            if v.slice.id in params:
                i = params.index(v.slice.id)
                calls = [c for c in everything if isinstance(c, ast.Call) and isinstance(c.func, ast.Name) and c.func.id == owner.name]
                return bool(calls) and all(len(c.args) > i and norm(c.args[i]) == "(parent, child)" and norm(c.args[params.index(stack)]) == stack for c in calls if stack in params) and all(len(c.args) > i and norm(c.args[i]) == "(parent, child)" for c in calls)
        return False

    def owner_of(node):
        for fn in nested.values():
            if any(x is node for x in ast.walk(fn)):
                return fn
        return None

    bad = []
    n_cut = 0
    n_push = 0
    for s in everything:
        if isinstance(s, ast.Call) and isinstance(s.func, ast.Attribute) and norm(s.func.value) == stack:
            if s.func.attr == "append":
                n_push += 1
            elif s.func.attr in ("pop", "remove", "clear", "insert", "extend", "reverse", "sort"):
                bad.append(norm(s))
        if isinstance(s, ast.Delete):
            for t in s.targets:
                if isinstance(t, ast.Subscript) and norm(t.value) == stack:
                    if isinstance(t.slice, ast.Slice) and t.slice.upper is None and isinstance(t.slice.lower, ast.Name):
                        cp = t.slice.lower.id
                        own = owner_of(s)
                        scope = ast.walk(own) if own is not None else walk_own(f.node)
                        d = [a for a in scope if isinstance(a, ast.Assign) and norm(a.targets[0]) == cp]
                        if d and all(cut_key_ok(a, own) for a in d):
                            calls = 1 if own is None else sum(1 for c in everything if isinstance(c, ast.Call) and isinstance(c.func, ast.Name) and c.func.id == own.name)
                            n_cut += calls
                        else:
                            bad.append(norm(s) + " with cut " + str([norm(a.value) for a in d]))
                    else:
                        bad.append(norm(s))
        if isinstance(s, ast.Assign) and any(norm(t) == stack for t in s.targets):
            if not (isinstance(s.value, ast.List) and not s.value.elts):
                bad.append(norm(s))
    pushes = [s for s in walk_stmts(f.node.body) if isinstance(s, ast.Expr) and isinstance(s.value, ast.Call) and isinstance(s.value.func, ast.Attribute) and norm(s.value.func.value) == stack and s.value.func.attr == "append"]
    rec_ok = True
    for ps in pushes:
        blk = None
        for n in ast.walk(f.node):
            for fld in ("body", "orelse"):
                lst = getattr(n, fld, None)
                if isinstance(lst, list) and any(x is ps for x in lst):
                    blk = lst
        i = blk.index(ps)
        nxt = blk[i + 1] if i + 1 < len(blk) else None
        if not (isinstance(nxt, ast.Assign) and isinstance(nxt.targets[0], ast.Subscript) and norm(nxt.targets[0].value) == loc and norm(nxt.targets[0].slice) == norm(ps.value.args[0]) and norm(nxt.value) == f"len({stack}) - 1"):
            rec_ok = False
    if not bad and rec_ok and n_cut < 2:
        raise AnalysisError("R15.5", f.where(), f"cannot find the two places where the edge stack is truncated at a recorded position (found {n_cut})")
    ctx.check(not bad and n_cut >= 2 and rec_ok, "R15.5", f.where(), "biccs' edge stack is only pushed to (each push recording its position) and truncated at the recorded position of the (parent, child) tree edge: a component is everything pushed since that edge", key_of(f, f"edge-stack:{bad}:{n_cut}:{rec_ok}"), pushes=n_push, cuts=n_cut, other_mutations=bad)
    comps = [a for a in everything if isinstance(a, ast.Assign) and isinstance(a.value, ast.Call) and a.value.args and isinstance(a.value.args[0], ast.Subscript) and norm(a.value.args[0].value) == stack]
    if not comps:
        raise AnalysisError("R15.5", f.where(), "cannot find where a component is built from a slice of the edge stack")
    ok = len(comps) >= 1 and all(isinstance(a.value.args[0].slice, ast.Slice) and a.value.args[0].slice.upper is None for a in comps)
    ctx.check(ok, "R15.5", f.where(), "each reported component is the node set of the stack slice that is then truncated", key_of(f, f"component-slices:{len(comps)}"))


def r15_6(ctx, g):
    """biccs: a finished child splits off a component, and its parent is an articulation point, exactly when the child's
    subtree cannot reach above the parent: low[child] >= discovery[parent] (decision table over the two values)."""
    from .. import ordtab

    repo = ctx.repo
    f = repo.func("gaftools.gfa", "GFA.biccs", "R15.6")
    cut = None
    for n in walk_own(f.node):
        if isinstance(n, ast.If) and any(isinstance(c, ast.Call) and isinstance(c.func, ast.Attribute) and c.func.attr == "add" and norm(c.args[0]) == "parent" for st in n.body for c in ast.walk(st)):
            cut = n
    if cut is None:
        raise AnalysisError("R15.6", f.where(), "cannot find the articulation-point test")

    def atom_of(e):
        t = norm(e)
        if t == "low[child]":
            return "low"
        if t == "discovery[parent]":
            return "disc"
        return None

    bad = None
    for env, scale in ordtab.weak_orderings(["low", "disc"], []):
        try:
            v = ordtab.Evaluator(env, atom_of, scale).truth(cut.test)
        except ordtab.Unsupported as ex:
            raise AnalysisError("R15.6", f.where(cut), f"cut test outside the comparison fragment: {ex}")
        if v != (env["low"] >= env["disc"]):
            bad = {"low[child]": env["low"], "discovery[parent]": env["disc"], "cut": v}
    ctx.check(bad is None, "R15.6", f.where(cut), "a finished child closes a component (and marks its parent as articulation point) exactly when low[child] >= discovery[parent]; bridges (>) and cycles through the parent (=) both cut", key_of(f, f"cut-criterion:{norm(cut.test)}"), **({"witness": bad} if bad else {}))
    # low-link updates: back edge -> min with discovery of the target; tree edge finished -> min with the child's low
    # every store into low[...] after its initialisation lowers it: low[x] = min(low[x], v) — also spelled
    # `if v < low[x]: low[x] = v` / `if low[x] > v: low[x] = v`
    import re as _re

    # the low-link table by role: the table T with an update T[a] <- min(T[a], T[b]) / `if T[b] < T[a]: T[a] = T[b]`
    LOW = "low"
    for st in walk_stmts(f.node.body):
        v_ = None
        if isinstance(st, ast.Assign) and len(st.targets) == 1 and isinstance(st.targets[0], ast.Subscript) and isinstance(st.targets[0].value, ast.Name):
            t_ = st.targets[0].value.id
            if isinstance(st.value, ast.Call) and norm(st.value.func) == "min" and len(st.value.args) == 2 and all(isinstance(x_, ast.Subscript) and isinstance(x_.value, ast.Name) and x_.value.id == t_ for x_ in st.value.args):
                LOW = t_
            elif isinstance(st.value, ast.Subscript) and isinstance(st.value.value, ast.Name) and st.value.value.id == t_ and norm(st.value) != norm(st.targets[0]):
                LOW = t_
    updates = set()
    others = []
    for st in walk_stmts(f.node.body):
        if isinstance(st, ast.If) and not st.orelse and len(st.body) == 1 and isinstance(st.body[0], ast.Assign) and isinstance(st.test, ast.Compare) and len(st.test.ops) == 1:
            a = st.body[0]
            tgt, val = norm(a.targets[0]), norm(a.value)
            l_, r_ = norm(st.test.left), norm(st.test.comparators[0])
            if tgt.startswith(LOW + "[") and ((isinstance(st.test.ops[0], ast.Lt) and (l_, r_) == (val, tgt)) or (isinstance(st.test.ops[0], ast.Gt) and (l_, r_) == (tgt, val))):
                updates.add((tgt, val))
    guarded = {id(st.body[0]) for st in walk_stmts(f.node.body) if isinstance(st, ast.If) and not st.orelse and len(st.body) == 1}
    for st in walk_stmts(f.node.body):
        if isinstance(st, ast.Assign) and len(st.targets) == 1 and norm(st.targets[0]).startswith(LOW + "["):
            tgt = norm(st.targets[0])
            v = st.value
            if isinstance(v, ast.Call) and norm(v.func) == "min" and len(v.args) == 2 and tgt in (norm(v.args[0]), norm(v.args[1])):
                other = norm(v.args[1]) if norm(v.args[0]) == tgt else norm(v.args[0])
                updates.add((tgt, other))
            elif isinstance(v, ast.Call) and norm(v.func) == "min":
                updates.add((tgt, norm(v)))  # a minimum that does not include the low-link itself: not a lowering of it
            elif id(st) in guarded and (tgt, norm(v)) in updates:
                pass
            elif (isinstance(v, ast.Subscript) and isinstance(v.value, ast.Name) and v.value.id != LOW) or isinstance(v, ast.Name) or isinstance(v, ast.BinOp) or (isinstance(v, ast.Call) and norm(v.func) == "len"):
                pass  # initialisation with the node's own discovery number
            else:
                others.append(norm(st))
    # by role: one update lowers low[c] by the discovery number of some other node (a back edge), one propagates low[c] to low[p]
    prop = [(t_, v_) for t_, v_ in updates if v_.startswith(LOW + "[") and v_ != t_]
    back = [(t_, v_) for t_, v_ in updates if _re.fullmatch(r"\w+\[\w+\]", v_) and not v_.startswith(LOW + "[")]
    want = {("low[child]", "discovery[nn]"), ("low[parent]", "low[child]")}
    if len(prop) == 1 and len(back) == 1 and back[0][0] == prop[0][1] and prop[0][0] != prop[0][1] and back[0][1].split("[")[1] != back[0][0].split("[")[1] and back[0][1].split("[")[1] != prop[0][0].split("[")[1]:
        want = {back[0], prop[0]}
    if others or not updates:
        raise AnalysisError("R15.6", f.where(), f"cannot read the low-link updates of biccs ({others[:2]})")
    ctx.check(want <= updates and not (updates - want), "R15.6", f.where(), "low-links are lowered by back edges (discovery of the target) and propagated from a finished child to its parent", key_of(f, f"low-link-updates:{sorted(updates - want)}:{sorted(want - updates)}"), updates=sorted(updates))


def r15_7(ctx, g):
    """No stale derived state: an attribute of Node that is written outside __init__ and the four adjacency mutators
    (a cache of something computed from the adjacency) must be reset by every one of the four mutators."""
    mod = g.mod
    mutators = ["Node.add_from_start", "Node.add_from_end", "Node.remove_from_start", "Node.remove_from_end"]
    cache_attrs = {}
    for q, f in mod.funcs.items():
        if f.cls != "Node" or q in mutators or q == "Node.__init__":
            continue
        for st in walk_own(f.node):
            if isinstance(st, (ast.Assign, ast.AugAssign)):
                for t in (st.targets if isinstance(st, ast.Assign) else [st.target]):
                    if isinstance(t, ast.Attribute) and norm(t.value) == "self" and t.attr not in ("visited",):
                        cache_attrs.setdefault(t.attr, set()).add(q)
    for attr, writers in sorted(cache_attrs.items()):
        missing = []
        for q in mutators:
            f = mod.funcs.get(q)
            if f is None:
                continue
            resets = any(isinstance(st, ast.Assign) and any(isinstance(t, ast.Attribute) and norm(t.value) == "self" and t.attr == attr for t in st.targets) for st in walk_own(f.node))
            if not resets:
                missing.append(q)
        ctx.check(not missing, "R15.7", f"{mod.relpath} Node", f"derived attribute `{attr}` (written in {sorted(writers)}) is reset by every adjacency mutator, so queries after an edit never see stale adjacency", f"gaftools.gfa.Node::stale-cache:{attr}:{missing}", missing=missing)
    # GFA-level caches likewise: attributes of GFA written in query methods
    ctx.holds("R15.7", f"{mod.relpath} Node", f"{len(cache_attrs)} derived attribute(s) of Node found; neighbors() is computed from the adjacency sets on every call" if not cache_attrs else f"derived attributes: {sorted(cache_attrs)}", nontrivial=False)
    nb = mod.funcs.get("Node.neighbors")
    if nb is not None:
        src = norm(nb.node)
        ok = "self.start" in src and "self.end" in src
        ctx.check(ok, "R15.7", nb.where(), "Node.neighbors merges the neighbours recorded at both sides", "gaftools.gfa.Node.neighbors::both-sides")


def r15_8(ctx, g):
    """Structural necessary conditions of the traversals (not their exactness): all_components starts a search from
    every unvisited node and resets the visited flags afterwards; find_component / dfs expand Node.neighbors() (both
    sides) of every node they take from the work list and add every such node to the result exactly once."""
    repo = ctx.repo
    ac = repo.func("gaftools.gfa", "GFA.all_components", "R15.8")
    fc = repo.func("gaftools.gfa", "GFA.find_component", "R15.8")
    dfs = repo.func("gaftools.gfa", "GFA.dfs", "R15.8")
    for f in (ac, fc, dfs):
        ctx.analysed_func(f)
    from ..core import desugar_comprehensions, inline_access_aliases

    # comprehension / extend(generator) spellings are read as loops, aliases of a node object as the node
    ac, fc, dfs = (inline_access_aliases(desugar_comprehensions(f)) for f in (ac, fc, dfs))
    # all_components
    loops = [l for l in ac.node.body if isinstance(l, ast.For) and any(isinstance(c, ast.Call) and isinstance(c.func, ast.Attribute) and c.func.attr == "find_component" for c in ast.walk(l))]
    if not loops:
        raise AnalysisError("R15.8", ac.where(), "cannot find the loop of all_components that starts a search per node")
    ok = False
    if loops:
        l = loops[0]
        it_ok = norm(l.iter) in ("self.nodes", "self.nodes.keys()", "list(self.nodes)", "self.nodes.items()", "self", "list(self.nodes.keys())")
        tg = [norm(e) for e in l.target.elts] if isinstance(l.target, ast.Tuple) else [norm(l.target)]
        key_var = tg[0]
        calls = [c for c in ast.walk(l) if isinstance(c, ast.Call) and isinstance(c.func, ast.Attribute) and c.func.attr == "find_component" and norm(c.args[0]) == key_var]
        from .c09 import guards_of

        flag_txts = {f"self.nodes[{key_var}].visited", f"self[{key_var}].visited"} | ({f"{tg[1]}.visited"} if len(tg) == 2 and norm(l.iter).endswith(".items()") else set())
        guarded = bool(calls) and any(canon_test(t, pol)[0] in flag_txts and canon_test(t, pol)[1] is False for t, pol in guards_of(ac.node, _stmt_with(ac, calls[0])))
        after = ac.node.body[ac.node.body.index(l) + 1 :]
        reset = any(isinstance(st, ast.Expr) and norm(st.value) in ("self.set_visited(False)", "self.set_visited()", "self.set_visited(visited=False)") for st in after)
        appended = any(isinstance(c, ast.Call) and isinstance(c.func, ast.Attribute) and c.func.attr == "append" and any(x is calls[0] for x in ast.walk(c)) for c in ast.walk(l)) if calls else False
        if calls and not appended:
            # the result bound to a local first: `component = self.find_component(n); if len(component) >= 1: comps.append(component)`
            asg_ = [st_ for st_ in ast.walk(l) if isinstance(st_, ast.Assign) and st_.value is calls[0] and len(st_.targets) == 1 and isinstance(st_.targets[0], ast.Name)]
            if asg_:
                v_ = asg_[0].targets[0].id
                for c_ in ast.walk(l):
                    if isinstance(c_, ast.Call) and isinstance(c_.func, ast.Attribute) and c_.func.attr == "append" and c_.args and norm(c_.args[0]) == v_:
                        extra_ = [canon_test(t_, p_) for t_, p_ in guards_of(ac.node, _stmt_with(ac, c_)) if canon_test(t_, p_)[0] not in flag_txts]
                        if all(g_ in ((f"len({v_}) >= 1", True), (f"len({v_}) > 0", True), (f"len({v_}) != 0", True), (v_, True), (f"len({v_}) == 0", False), (f"len({v_})", True)) for g_ in extra_):
                            appended = True  # (an empty result is not a component: leaving it out keeps the partition)
        if not it_ok or not calls:
            raise AnalysisError("R15.8", ac.where(l), f"the search loop of all_components iterates `{norm(l.iter)[:40]}` / calls find_component with something else than the loop's node")
        ok = it_ok and guarded and reset and appended
    ctx.check(ok, "R15.8", ac.where(), "all_components searches from every node that is still unvisited, collects each result, and resets the visited flags afterwards (a second call sees a clean graph)", key_of(ac, "all-components-shape"))
    # a start node without neighbours is a component (a traversal) of its own: the early return hands it back
    for f in (fc, dfs):
        start = [p_ for p_ in f.params if p_ != "self"][0]
        for st in f.node.body:
            if isinstance(st, ast.If) and "neighbors" in norm(st.test) and any(isinstance(r, ast.Return) for r in st.body):
                r = [r for r in st.body if isinstance(r, ast.Return)][0]
                v = r.value
                ok = False
                if isinstance(v, (ast.List, ast.Set, ast.Tuple)) and [norm(e) for e in v.elts] == [start]:
                    ok = True
                elif isinstance(v, ast.Name):
                    ok = any(isinstance(x, ast.Expr) and isinstance(x.value, ast.Call) and isinstance(x.value.func, ast.Attribute) and x.value.func.attr in ("add", "append") and norm(x.value.func.value) == v.id and [norm(a) for a in x.value.args] == [start] for x in st.body)
                ctx.check(ok, "R15.8", f.where(st), f"{f.name}: a start node without neighbours is returned as a component / traversal of its own", key_of(f, f"isolated-start:{norm(v) if v is not None else None}"))
    # find_component / dfs: pop -> add to result once -> expand neighbors()
    for f, res_kind in ((fc, "set"), (dfs, "list")):
        wl = [l for l in f.node.body if isinstance(l, ast.While)]
        if not wl:
            raise AnalysisError("R15.8", f.where(), "no work-list loop")
        w = wl[0]
        pops = [st for st in w.body if isinstance(st, ast.Assign) and isinstance(st.value, ast.Call) and isinstance(st.value.func, ast.Attribute) and st.value.func.attr in ("pop", "popleft")]
        if len(pops) != 1:
            raise AnalysisError("R15.8", f.where(w), "work-list loop does not take exactly one node per iteration")
        cur = norm(pops[0].targets[0])
        work = norm(pops[0].value.func.value)
        nb_calls = [c for c in ast.walk(w) if isinstance(c, ast.Call) and isinstance(c.func, ast.Attribute) and c.func.attr == "neighbors" and cur in norm(c.func.value)]
        pushes = [c for c in ast.walk(w) if isinstance(c, ast.Call) and isinstance(c.func, ast.Attribute) and c.func.attr == "append" and norm(c.func.value) == work]
        exp_loops = [l for l in ast.walk(w) if isinstance(l, ast.For) and any(x is p_ for p_ in pushes for x in ast.walk(l))]
        src_ok = False
        if exp_loops:
            it = exp_loops[0].iter
            src = norm(it)
            if isinstance(it, ast.Name):
                d = [st for st in w.body if isinstance(st, ast.Assign) and norm(st.targets[0]) == it.id]
                src = norm(d[-1].value) if d else src
            src_ok = src.endswith(".neighbors()") and cur in src and pushes and norm(pushes[0].args[0]) == norm(exp_loops[0].target)
        # work.extend(<cur>.neighbors()) pushes all neighbours at once
        ext = [c for c in ast.walk(w) if isinstance(c, ast.Call) and isinstance(c.func, ast.Attribute) and c.func.attr == "extend" and norm(c.func.value) == work and c.args and norm(c.args[0]).endswith(".neighbors()") and cur in norm(c.args[0])]
        if ext and not exp_loops:
            src_ok = True
        paths = enum_paths(w.body, rule="R15.8", where=f.where(w))
        rets = [r for r in f.node.body if isinstance(r, ast.Return) and isinstance(r.value, ast.Name)]
        if not rets:
            raise AnalysisError("R15.8", f.where(), "the traversal does not return a named collection")
        result = rets[-1].value.id
        bad = None
        for p in paths:
            adds = [e for e in p.events if e.kind == "stmt" and isinstance(e.node, ast.Expr) and isinstance(e.node.value, ast.Call) and isinstance(e.node.value.func, ast.Attribute) and e.node.value.func.attr in ("add", "append") and norm(e.node.value.args[0]) == cur and norm(e.node.value.func.value) == result]
            expanded = any(e.kind == "loop" and any(e.node is l for l in exp_loops) for e in p.events) or any(e.kind == "stmt" and any(x is c_ for c_ in ext for x in ast.walk(e.node)) for e in p.events)
            if expanded and not adds:
                bad = (p, "a node is expanded without being added to the result")
            if adds and not expanded and p.term in ("fall", "loopback", "continue"):
                bad = (p, "a node is added to the result but its neighbours are not expanded")
        src_txt = ""
        if exp_loops:
            it_ = exp_loops[0].iter
            src_txt = norm(it_)
            if isinstance(it_, ast.Name):
                d_ = [st for st in w.body if isinstance(st, ast.Assign) and norm(st.targets[0]) == it_.id]
                src_txt = norm(d_[-1].value) if d_ else src_txt
        one_sided = cur in src_txt and ((".start" in src_txt) != (".end" in src_txt) or ".children(" in src_txt)
        if bad is None and not (src_ok and bool(nb_calls)) and one_sided:
            bad = (paths[0], f"only `{src_txt[:50]}` of the current node is expanded: the neighbours on its other side are never reached")
        if bad is None and not (src_ok and bool(nb_calls)):
            raise AnalysisError("R15.8", f.where(w), f"{f.name}: cannot recognise how the neighbours of the current node are pushed to the work list")
        ctx.check(src_ok and bool(nb_calls) and bad is None, "R15.8", f.where(w), f"{f.name}: every node taken from the work list is added to the result once and all its neighbours (both sides, Node.neighbors()) are pushed", key_of(f, f"traversal-shape:{bad[1] if bad else src_ok}"), **({"path": bad[0].show(), "why": bad[1]} if bad else {}))


def _stmt_with(f, node):
    best = None
    for st in walk_stmts(f.node.body):
        if any(x is node for x in ast.walk(st)) and not isinstance(st, (ast.For, ast.While, ast.If, ast.Try, ast.With)):
            best = st
    return best


def r15_9(ctx, g):
    """Traversal marks (`Node.visited`) are scratch state shared by all traversals of one graph object.  (a) A reset passes
    False: `set_visited(<anything else>)` marks every node as seen.  (b) A method that reads the marks starts from clean
    marks: it resets them itself before the first read (unconditionally, or under its own flag parameter that defaults to
    true), or it is a helper reached only from methods that have done so."""
    repo = ctx.repo
    mod = g.mod
    methods = [f for f in mod.funcs.values() if f.cls == g.add_node.cls]
    # the resetter: a loop over all nodes that assigns the mark of each (its parameter may have been specialised to the
    # constant every caller passes)
    resetters = [f for f in methods if any(isinstance(lp, ast.For) and "nodes" in norm(lp.iter) and len(lp.body) == 1 and isinstance(lp.body[0], ast.Assign) and isinstance(lp.body[0].targets[0], ast.Attribute) and lp.body[0].targets[0].attr == "visited" and norm(lp.body[0].targets[0].value) == norm(lp.target) for lp in f.node.body)]
    if len(resetters) != 1:
        raise AnalysisError("R15.9", mod.relpath, f"cannot identify the method that resets the traversal marks ({[f.qualname for f in resetters]})")
    rs = resetters[0]
    ctx.analysed_func(rs)

    def reset_calls(f):
        return [c for c in walk_own(f.node) if isinstance(c, ast.Call) and same_func(repo.resolve_call(f, c), rs)]

    n_calls = 0
    for f in methods:
        for c in reset_calls(f):
            n_calls += 1
            val = c.args[0] if c.args else next((k.value for k in c.keywords), None)
            if val is None:
                dflt = g.raw_set_visited_defaults if hasattr(g, "raw_set_visited_defaults") else rs.node.args.defaults
                ok = bool(dflt) and const_value(dflt[-1], "?") is False
            else:
                ok = const_value(val, "?") is False
            ctx.check(ok, "R15.9", f.where(c), "a reset of the traversal marks clears them (False)", key_of(f, f"reset-value:{norm(c)}"), call=norm(c))
    ctx.require_count("R15.9", n_calls, 2, mod.relpath, "resets of the traversal marks")

    def reads(f):
        return [n for n in walk_own(f.node) if isinstance(n, ast.Attribute) and n.attr == "visited" and isinstance(n.ctx, ast.Load)]

    def resets_first(f):
        """does f clear the marks before its first read?  -> True / 'flag' (under a parameter defaulting to True) / False"""
        rd = reads(f)
        first = min((n.lineno, n.col_offset) for n in rd)
        for st in f.node.body:
            if (st.lineno, st.col_offset) > first:
                break
            if isinstance(st, ast.Expr) and isinstance(st.value, ast.Call) and same_func(repo.resolve_call(f, st.value), rs):
                return True
            if isinstance(st, ast.If) and isinstance(st.test, ast.Name) and st.test.id in f.params and any(isinstance(x, ast.Expr) and isinstance(x.value, ast.Call) and same_func(repo.resolve_call(f, x.value), rs) for x in st.body):
                a = f.node.args
                pos = a.posonlyargs + a.args
                d = dict(zip([p.arg for p in pos[len(pos) - len(a.defaults):]], a.defaults))
                if const_value(d.get(st.test.id), "?") is True:
                    return "flag"
        return False

    readers = [f for f in methods if reads(f) and not same_func(f, rs)]
    ctx.require_count("R15.9", len(readers), 2, mod.relpath, "methods that read the traversal marks")
    status = {f.qualname: resets_first(f) for f in readers}
    for f in readers:
        ctx.analysed_func(f)
        if status[f.qualname]:
            ctx.holds("R15.9", f.where(), f"{f.qualname} clears the traversal marks before it reads them" + (" (under its reset flag, on by default)" if status[f.qualname] == "flag" else ""))
            continue
        callers = [cf for cf, _ in repo.callers_of(f)]
        if callers and all(cf.qualname in status and status[cf.qualname] for cf in callers):
            ctx.holds("R15.9", f.where(), f"{f.qualname} reads the marks only on behalf of {sorted({cf.qualname for cf in callers})}, which cleared them first")
            continue
        leavers = sorted(h.qualname for h in methods if not same_func(h, f) and any(isinstance(st, ast.Assign) and isinstance(st.targets[0], ast.Attribute) and st.targets[0].attr == "visited" and const_value(st.value, "?") is True for st in walk_own(h.node)) and not any(same_func(h, cf) for cf in callers))
        ctx.violated("R15.9", f.where(), f"{f.qualname} reads the traversal marks without clearing them first: marks left by an earlier traversal of the same graph object ({', '.join(leavers) or 'another traversal'}) hide those nodes, e.g. the components of the graph come out empty or incomplete", key_of(f, "reads-stale-marks"))

    # (c) a method that uses the marks as its memory *across* traversals (it tests the mark of each node between calls of a
    # traversal, as all_components does) must call a traversal that leaves the marks alone
    def clears_on_call(h, call, depth=0):
        st_ = resets_first(h) if reads(h) else False
        if st_ is True:
            return True
        if st_ == "flag":
            flag = next(s_.test.id for s_ in h.node.body if isinstance(s_, ast.If) and isinstance(s_.test, ast.Name) and s_.test.id in h.params and any(isinstance(x, ast.Expr) and isinstance(x.value, ast.Call) and same_func(repo.resolve_call(h, x.value), rs) for x in s_.body))
            ba = repo.bound_args(h, call) if hasattr(repo, "bound_args") else None
            given = None
            params = [p_ for p_ in h.params if p_ != "self"]
            if flag in params:
                i_ = params.index(flag)
                if i_ < len(call.args):
                    given = call.args[i_]
            for k in call.keywords:
                if k.arg == flag:
                    given = k.value
            return given is None or const_value(given, "?") is not False
        if depth < 2:
            for c2 in walk_own(h.node):
                if isinstance(c2, ast.Call):
                    k_ = repo.resolve_call(h, c2)
                    if k_ is not None and k_.cls == h.cls and not same_func(k_, h) and not same_func(k_, rs) and any(same_func(k_, r_) for r_ in readers) and clears_on_call(k_, c2, depth + 1):
                        return True
        return False

    for f in methods:
        for lp in walk_own(f.node):
            if not isinstance(lp, (ast.For, ast.While)):
                continue
            tests = [n for n in ast.walk(lp) if isinstance(n, ast.Attribute) and n.attr == "visited" and isinstance(n.ctx, ast.Load)]
            if not tests:
                continue
            for c in ast.walk(lp):
                if isinstance(c, ast.Call):
                    h = repo.resolve_call(f, c)
                    if h is not None and h.cls == f.cls and not same_func(h, f) and not same_func(h, rs) and clears_on_call(h, c):
                        ctx.violated("R15.9", f.where(c), f"{f.qualname} remembers the nodes it has dealt with in the traversal marks (it tests `.visited` between calls), but `{norm(c)[:50]}` clears all marks every time it is called: nodes of components found earlier look unvisited again, so a component whose nodes are not contiguous in insertion order is reported more than once", key_of(f, f"marks-cleared-between-calls:{norm(c.func)}"))



def r15_10(ctx, g):
    """biccs: a node is given a frame on the work stack in the same step in which it is discovered (marked visited and
    numbered).  A discovery whose frame is pushed only under a further condition leaves the tree edge to that node on the
    edge stack without the pop that closes its component: a dead-end tip is then merged into a neighbouring component."""
    repo = ctx.repo
    f = _nf(repo, repo.func("gaftools.gfa", "GFA.biccs", "R15.10"))
    n = 0
    for blk_owner in ast.walk(f.node):
        for fld in ("body", "orelse"):
            blk = getattr(blk_owner, fld, None)
            if not isinstance(blk, list):
                continue
            marks = [st for st in blk if isinstance(st, ast.Expr) and isinstance(st.value, ast.Call) and isinstance(st.value.func, ast.Attribute) and st.value.func.attr == "add" and norm(st.value.func.value) == "visited"]
            if not marks or isinstance(blk_owner, ast.For):
                continue
            new = norm(marks[0].value.args[0])
            if not any(isinstance(st, ast.Assign) and norm(st.targets[0]) == f"discovery[{new}]" for st in blk):
                continue  # the root is marked where the search starts, not discovered
            n += 1
            pushes_here = [st for st in blk if isinstance(st, ast.Expr) and isinstance(st.value, ast.Call) and isinstance(st.value.func, ast.Attribute) and st.value.func.attr == "append" and norm(st.value.func.value) == "stack"]
            pushes_nested = [st for b_ in blk for st in ast.walk(b_) if isinstance(st, ast.Call) and isinstance(st.func, ast.Attribute) and st.func.attr == "append" and norm(st.func.value) == "stack"]
            if pushes_here:
                ctx.holds("R15.10", f.where(marks[0]), f"the discovered node `{new}` gets its frame on the work stack in the step that discovers it")
            elif pushes_nested:
                cond = next((norm(b_.test) for b_ in blk if isinstance(b_, ast.If) and any(x is pushes_nested[0] for x in ast.walk(b_))), "?")
                ctx.violated("R15.10", f.where(marks[0]), f"the frame of a newly discovered node is pushed only if `{cond[:60]}`: for the others the tree edge stays on the edge stack and their component is never closed (a dead-end tip is swallowed by the neighbouring component or reported in none)", key_of(f, f"frame-conditional:{cond[:40]}"))
            else:
                raise AnalysisError("R15.10", f.where(marks[0]), "cannot find where a discovered node is pushed to the work stack")
    ctx.require_count("R15.10", n, 1, f.where(), "discovery step of biccs (visited.add + discovery number)")



def r15_11(ctx, g):
    """biccs, the root of the search: it is an articulation point exactly when the search tree has more than one child at
    the root.  The children are counted where a child of the root is finished (the branch that also closes that child's
    component), once per child, starting from zero; the root is added under `count > 1`."""
    from .. import ordtab as _ot

    repo = ctx.repo
    f = _nf(repo, repo.func("gaftools.gfa", "GFA.biccs", "R15.11"))
    adds = [st for st in walk_stmts(f.node.body) if isinstance(st, ast.If) and any(isinstance(x, ast.Expr) and isinstance(x.value, ast.Call) and isinstance(x.value.func, ast.Attribute) and x.value.func.attr == "add" for x in st.body) and isinstance(st.test, ast.Compare) and any(isinstance(n_, ast.Name) for n_ in ast.walk(st.test)) and not any(isinstance(n_, ast.Subscript) for n_ in ast.walk(st.test))]
    cand = None
    for st in adds:
        names = [n_.id for n_ in ast.walk(st.test) if isinstance(n_, ast.Name)]
        for nm in names:
            incs = [x for x in walk_stmts(f.node.body) if isinstance(x, ast.AugAssign) and norm(x.target) == nm]
            inits = [x for x in walk_stmts(f.node.body) if isinstance(x, ast.Assign) and norm(x.targets[0]) == nm]
            if inits:
                cand = (st, nm, incs, inits)
    if cand is None:
        raise AnalysisError("R15.11", f.where(), "cannot find the test that makes the root of the search an articulation point")
    st, nm, incs, inits = cand
    bad = None
    for k in (0, 1, 2, 3):
        try:
            v = _ot.Evaluator({"c": k}, lambda e_: "c" if norm(e_) == nm else None, 1).truth(st.test)
        except _ot.Unsupported as ex:
            raise AnalysisError("R15.11", f.where(st), f"root test outside the fragment: {ex}")
        if v != (k > 1):
            bad = k
    ctx.check(bad is None, "R15.11", f.where(st), "the root of the search is an articulation point exactly when it has more than one child in the search tree", key_of(f, f"root-test:{norm(st.test)}"), **({"witness_children": bad} if bad is not None else {}))
    ok_init = all(const_value(x.value, "?") == 0 for x in inits)
    ok_inc = len(incs) == 1 and isinstance(incs[0].op, ast.Add) and const_value(incs[0].value, "?") == 1
    where_ok = False
    if incs:
        # the increment sits in the branch that closes a component of a child of the root (it truncates the edge stack)
        for n_ in ast.walk(f.node):
            for fld in ("body", "orelse"):
                lst = getattr(n_, fld, None)
                if isinstance(lst, list) and any(x is incs[0] for x in lst):
                    nested = {d.name: d for d in ast.walk(f.node) if isinstance(d, ast.FunctionDef) and d is not f.node}
                    where_ok = any(isinstance(x, ast.Delete) for x in lst) or any(isinstance(c_, ast.Call) and isinstance(c_.func, ast.Name) and c_.func.id in nested and any(isinstance(y, ast.Delete) for y in ast.walk(nested[c_.func.id])) for x in lst for c_ in ast.walk(x))
    ctx.check(ok_init and ok_inc and where_ok, "R15.11", f.where(incs[0]) if incs else f.where(st), "the children of the root are counted from zero, by one, where a child of the root is finished and its component is closed", key_of(f, f"root-children:{ok_init}:{ok_inc}:{where_ok}:{len(incs)}"))


def r15_12(ctx, g):
    """Three ways the graph class can be used against its own grain, each read from the source of the graph module:
    (a) a mutator that changes both endpoints (add_edge, remove_edge, remove_node) is not atomic, so a caller must not swallow an
    exception it raises half-way (`try: add_edge(...) except AttributeError: continue` leaves the link at one end only);
    (b) a node object is not tested for truth: the class defines `__len__` (the sequence length), so an existing node with an
    empty sequence is falsy; (c) a sort key does not mix numbers and strings (`int(x) if x.isdigit() else x` raises TypeError
    as soon as both kinds occur among the neighbours)."""
    repo = ctx.repo
    mod = g.mod
    mutators = [g.raw[k] if hasattr(g, "raw") else getattr(g, k) for k in ("add_edge", "remove_edge", "remove_node")]
    n = 0
    funcs = [f for m_ in repo.modules.values() for f in m_.funcs.values()]
    for f in funcs:
        for t in walk_own(f.node):
            if not isinstance(t, ast.Try):
                continue
            calls = [c for st in t.body for c in ast.walk(st) if isinstance(c, ast.Call) and any(same_func(repo.resolve_call(f, c), mu) for mu in mutators)]
            if not calls:
                continue
            for h in t.handlers:
                reraises = any(isinstance(x, ast.Raise) for x in ast.walk(h)) or any(isinstance(x, ast.Call) and norm(x.func) in ("sys.exit", "exit") for x in ast.walk(h))
                if not reraises:
                    n += 1
                    ctx.violated("R15.12", f.where(t), f"`{norm(calls[0])[:50]}` is wrapped in a `try` whose `except {norm(h.type) if h.type is not None else ''}` carries on: the mutator changes the two endpoints one after the other, so an exception raised at the second endpoint leaves the link recorded at the first only (a neighbour that does not exist, an adjacency that is not symmetric)", key_of(f, f"mutator-exception-swallowed:{norm(calls[0].func)}"))
    # (b) truth value of a node object
    node_cls = None
    for cname, cdef in mod.classes.items():
        if cname != g.add_node.cls and any(isinstance(x, ast.FunctionDef) and x.name in ("__len__", "__bool__") for x in cdef.body):
            node_cls = cname
    if node_cls is not None:
        for f in [f_ for f_ in mod.funcs.values() if f_.cls == g.add_node.cls]:
            for x in walk_own(f.node):
                tests = []
                if isinstance(x, (ast.If, ast.While)):
                    tests.append(x.test)
                if isinstance(x, ast.IfExp):
                    tests.append(x.test)
                for t in tests:
                    for e in ast.walk(t):
                        if isinstance(e, ast.BoolOp):
                            cand = e.values
                        elif isinstance(e, ast.UnaryOp) and isinstance(e.op, ast.Not):
                            cand = [e.operand]
                        elif e is t:
                            cand = [e]
                        else:
                            cand = []
                        for c_ in cand:
                            if isinstance(c_, ast.Subscript) and norm(c_.value) in ("self", "self.nodes") and not isinstance(c_.slice, ast.Slice):
                                n += 1
                                ctx.violated("R15.12", f.where(x), f"`{norm(c_)}` is tested for truth, but a {node_cls} defines __len__ (its sequence length): a node that exists and has an empty sequence (added without one, or loaded with low_memory) counts as absent", key_of(f, f"node-truthiness:{norm(c_)}"))
    # (c) a sort key of mixed type
    for f in mod.funcs.values():
        for c in walk_own(f.node):
            if isinstance(c, ast.Call) and (norm(c.func) == "sorted" or (isinstance(c.func, ast.Attribute) and c.func.attr == "sort")):
                key = next((k.value for k in c.keywords if k.arg == "key"), None)
                if isinstance(key, ast.Lambda) and isinstance(key.body, ast.IfExp):
                    a_, b_ = key.body.body, key.body.orelse
                    num = lambda e_: isinstance(e_, ast.Call) and isinstance(e_.func, ast.Name) and e_.func.id in ("int", "float")  # noqa: E731
                    raw = lambda e_: isinstance(e_, ast.Name) and e_.id in {x.arg for x in key.args.args}  # noqa: E731
                    if (num(a_) and raw(b_)) or (num(b_) and raw(a_)):
                        n += 1
                        ctx.violated("R15.12", f.where(c), f"the sort key `{norm(key.body)[:60]}` is a number for some elements and a string for others: as soon as both kinds occur (a neighbour named `3` next to `s2`) the comparison raises TypeError and every traversal of the graph fails", key_of(f, f"mixed-sort-key:{norm(key.body)[:40]}"))
    if n == 0:
        ctx.holds("R15.12", mod.relpath, "no swallowed exception around a two-ended mutator, no truth test of a node object, no sort key of mixed type", nontrivial=False)
