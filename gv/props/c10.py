"""C10 — sort writes a usable per-chromosome index next to the sorted GAF.

R10.1  offsets: writer.tell() is taken on every indexed path immediately before the write of the
       record it indexes; entry table: first slot written once (guard `is None`), last slot on every record
R10.2  the index is always written: every path from the end of the write loop reaches pickle.dump;
       no operation in between raises on a key that is present only for some inputs
R10.3  index path = --outind or output path + '.gsi'; the 'unknown' bucket is not pickled
"""

from __future__ import annotations

import ast

from ..core import same_func, AnalysisError, const_value, norm, walk_own, walk_stmts
from ..paths import enum_paths
from . import sort_common as sc
from . import c09
from .common import key_of

META = {
    "explanation": "Static decision of gaftools sort's index bookkeeping: along every path of one iteration of the write loop on which an index is "
    "requested, tell() on the output handle is the last operation on that handle before the write of the record whose offset it records; the "
    "[first, last] entry of the record's contig is updated according to a fixed table (first only while it is None, last always, both from "
    "that tell() value, keyed by the sn of the record being written); between the write loop and pickle.dump no statement can raise on a "
    "key that exists only for some inputs (pop/del without default), so the index is written for every input; the default index path and the "
    "removal of the 'unknown' bucket are checked on the def-use chains of run_sort/sort.",
    "technique": "static analysis: handle typestate on enumerated paths, guarded-store table, must-reach with may-raise classification",
}


def check(ctx):
    m = sc.build(ctx, "R10")
    ctx.run(r10_0, m)
    ctx.run(r10_1, m)
    ctx.run(r10_2, m)
    ctx.run(r10_3, m)
    ctx.run(r10_4, m)
    ctx.run(c09.r09_3, m)  # the index is keyed by the record's sn: which contig a record belongs to is decided as in C09
    ctx.not_decided.append("BGZF virtual offsets produced by tell() in write mode resolve on read across blocks (pysam's contract)")
    # mechanisms this property rests on (see shared.py): a change there is reported here as well
    from . import shared as _sh

    ctx.run_shared(_sh.path_tokenisers)
    ctx.run_shared(_sh.graph_loader)
    ctx.run_shared(_sh.gaf_reader)  # sort opens its input by the same content sniffer as the GAF reader
    ctx.run_shared(_sh.cli_layer, "gaftools.cli.sort")


def index_param(m):
    """(index path parameter, index dict parameter) of the sort function."""
    f = m.f
    idx_path = idx_dict = None
    for n in walk_own(f.node):
        if isinstance(n, ast.Call) and norm(n.func).endswith("dump") and len(n.args) >= 2:
            idx_dict = norm(n.args[0])
            m.dump = n
            # a plain-dict copy made for pickling, under a name of its own: the index dictionary is its source
            if isinstance(n.args[0], ast.Name) and n.args[0].id not in f.params:
                ds = [st.value for st in walk_own(f.node) if isinstance(st, ast.Assign) and norm(st.targets[0]) == n.args[0].id]
                if len(ds) == 1 and isinstance(ds[0], ast.Call) and norm(ds[0].func) == "dict" and len(ds[0].args) == 1 and isinstance(ds[0].args[0], ast.Name):
                    idx_dict = ds[0].args[0].id
                elif len(ds) == 1 and isinstance(ds[0], ast.Call) and isinstance(ds[0].func, ast.Attribute) and ds[0].func.attr == "copy" and isinstance(ds[0].func.value, ast.Name):
                    idx_dict = ds[0].func.value.id
        if isinstance(n, ast.With):
            for it in n.items:
                c = it.context_expr
                if isinstance(c, ast.Call) and norm(c.func) == "open" and len(c.args) >= 2 and const_value(c.args[1]) == "wb":
                    idx_path = norm(c.args[0])
    return idx_path, idx_dict


def r10_1(ctx, m):
    f = m.f
    idx_path, idx_dict = index_param(m)
    if idx_path is not None and idx_dict is not None and m.writer is None:
        stores = [st for st in walk_stmts(m.pass2.body) if isinstance(st, ast.Assign) and isinstance(st.targets[0], ast.Subscript) and norm(st.targets[0]).startswith(idx_dict + "[")]
        src = sorted({norm(st.value) for st in stores})
        ctx.violated("R10.1", f.where(m.pass2), f"the offsets stored in the index ({src}) are not taken with tell() on the output handle immediately before each record's write (a byte count is not a BGZF virtual offset and ignores text encoding)", key_of(f, f"offset-not-tell:{src}"), stored=src)
        m.idx_path, m.idx_dict = idx_path, idx_dict
        return
    if idx_path is None or idx_dict is None or m.writer is None:
        raise AnalysisError("R10.1", f.where(), "cannot identify the index path / index dictionary / output handle")
    m.idx_path, m.idx_dict = idx_path, idx_dict
    wr = m.writer
    tells = [st for st in walk_stmts(m.pass2.body) if isinstance(st, ast.Assign) and isinstance(st.value, ast.Call) and isinstance(st.value.func, ast.Attribute) and st.value.func.attr == "tell" and norm(st.value.func.value) == wr]
    ctx.require_count("R10.1", len(tells), 1, f.where(m.pass2), "tell() on the output handle in the write loop")
    ov = norm(tells[0].targets[0])
    sn_attr = c09.role_attr(m, "sn")
    key = f"{idx_dict}[{m.rec}.{sn_attr}]"
    bad = None
    n_idx = 0
    # names bound (anywhere in the loop) to an entry of the index dictionary
    index_aliases = {norm(st.targets[0]) for st in walk_stmts(m.pass2.body) if isinstance(st, ast.Assign) and isinstance(st.targets[0], ast.Name) and isinstance(st.value, ast.Subscript) and norm(st.value).startswith(idx_dict + "[")}
    grown = [c_ for c_ in ast.walk(m.pass2) if isinstance(c_, ast.Call) and isinstance(c_.func, ast.Attribute) and c_.func.attr in ("append", "extend", "insert") and (norm(c_.func.value).startswith(idx_dict + "[") or norm(c_.func.value) in index_aliases)]
    if grown:
        raise AnalysisError("R10.1", f.where(grown[0]), f"the index entry is filled with `{norm(grown[0])[:50]}` (slots that come into being by append, not [first, last] assigned in place): not read by this rule")
    for p in m.p2_paths:
        if p.term == "raise":
            continue
        indexed = any(e.kind == "test" and canon(e)[0] == f"{idx_path} is None" and canon(e)[1] is False for e in p.events)
        not_indexed = any(e.kind == "test" and canon(e)[0] == f"{idx_path} is None" and canon(e)[1] is True for e in p.events)
        evs = list(p.events)
        i_tell = next((i for i, e in enumerate(evs) if e.kind == "stmt" and e.node is tells[0]), -1)
        i_write = next((i for i, e in enumerate(evs) if e.kind == "stmt" and c09.is_write_stmt(ctx, m, e.node)), -1)
        # flow-sensitive copy propagation of simple aliases bound in this iteration (v = rec.attr, v = idx_dict[...])
        alias = {}
        stores = []
        stale = None
        for i, e in enumerate(evs):
            if e.kind != "stmt" or not isinstance(e.node, ast.Assign) or len(e.node.targets) != 1:
                continue
            t, v = e.node.targets[0], e.node.value
            if isinstance(t, ast.Name):
                vs = _subst(norm(v), alias)
                if isinstance(v, (ast.Attribute, ast.Name)) or (isinstance(v, ast.Subscript) and vs.startswith(idx_dict + "[")):
                    alias[t.id] = vs
                continue
            if isinstance(t, ast.Subscript):
                ts = _subst(norm(t), alias)
                if ts.startswith(idx_dict + "["):
                    stores.append((i, e.node, ts))
                else:
                    root = t
                    while isinstance(root, ast.Subscript):
                        root = root.value
                    if isinstance(root, ast.Name) and root.id in index_aliases and root.id not in alias:
                        stale = norm(t)
        if stale and indexed:
            bad = (p, f"index entry `{stale}` is stored through an alias that was bound in an earlier iteration (the entry written may belong to another contig than the record's)")
            break
        if not indexed:
            if stores and not not_indexed:
                pass
            continue
        n_idx += 1
        if i_tell < 0 or i_write < 0 or i_tell > i_write:
            bad = (p, "no tell() on the output handle before the write on a path that maintains the index")
            break
        # no other operation on the writer between tell and write
        between = [norm(e.node)[:50] for e in evs[i_tell + 1 : i_write] if e.kind == "stmt" and any(isinstance(c, ast.Call) and isinstance(c.func, ast.Attribute) and norm(c.func.value) == wr for c in ast.walk(e.node))]
        if between:
            bad = (p, f"operations on the output handle between tell() and the write: {between}")
            break
        slots = {}
        for i, st, t in stores:
            if not t.startswith(key + "["):
                bad = (p, f"index entry `{t}` is not keyed by the sn of the record being written ({key})")
                break
            slot = t[len(key) :]
            slots.setdefault(slot, []).append(st)
            if norm(st.value) != ov:
                bad = (p, f"index entry `{t}` receives `{norm(st.value)}`, not the offset taken before this record's write")
                break
            if not (i_tell < i):
                bad = (p, "index entry stored before the offset was taken")
                break
        if bad:
            break
        if "[1]" not in slots:
            bad = (p, "the 'last' slot is not updated for this record")
            break
        first_true = any(e.kind == "test" and (_subst(canon(e)[0], alias), canon(e)[1]) == (f"{key}[0] is None", True) for e in evs)
        first_false = any(e.kind == "test" and (_subst(canon(e)[0], alias), canon(e)[1]) == (f"{key}[0] is None", False) for e in evs)
        if ("[0]" in slots) != first_true:
            bad = (p, "the 'first' slot must be written exactly when it is still None")
            break
        if not (first_true or first_false):
            bad = (p, "the 'first' slot is not examined")
            break
        # any other condition deciding the first-slot store is a violation (e.g. comparing with the previous record)
        if "[0]" in slots:
            g = c09.guards_of(m.pass2, slots["[0]"][0])
            g = [(ast.parse(_subst(norm(t), alias), mode="eval").body, pol) for t, pol in g]
            # a guard that only looks at the text of the line being written (its type check before decoding) does not
            # select records: it is not a condition of the index update
            wst = [e.node for e in evs if e.kind == "stmt" and c09.is_write_stmt(ctx, m, e.node)]
            line_names = {n.id for w_ in wst for n in ast.walk(w_) if isinstance(n, ast.Name)} - {wr, m.rec, idx_dict}
            # ... and the locals the written text is made from (record = line.rstrip(); line = reader.readline())
            for _ in range(4):
                for st_ in walk_stmts(m.pass2.body):
                    if isinstance(st_, (ast.Assign, ast.AugAssign)):
                        tg = st_.targets[0] if isinstance(st_, ast.Assign) else st_.target
                        if isinstance(tg, ast.Name) and tg.id in line_names:
                            line_names |= {n.id for n in ast.walk(st_.value) if isinstance(n, ast.Name)} - {wr, m.rec, idx_dict, m.reader}
            harmless = line_names | {"isinstance", "bytes", "str", "type"}
            extra = [norm(t) for t, pol in g if canon_pair(t, pol)[0] not in (f"{key}[0] is None", f"{idx_path} is None") and not ({n.id for n in ast.walk(t) if isinstance(n, ast.Name)} <= harmless)]
            if extra:
                bad = (p, f"the 'first' slot is also governed by {extra}")
                break
    if bad is None:
        ctx.require_count("R10.1", n_idx, 2, f.where(m.pass2), "indexed paths through the write loop (first record of a contig / later record)")
    ctx.check(bad is None, "R10.1", f.where(m.pass2), "on every indexed path: tell() on the output handle immediately precedes the record's write; first slot set only while None, last slot always, both with that offset and keyed by the record's sn", key_of(f, f"index-update:{bad[1] if bad else ''}"), indexed_paths=n_idx, **({"path": bad[0].show(), "why": bad[1]} if bad else {}))


def _subst(text, alias):
    import re as _re

    for _ in range(3):
        for k, v in alias.items():
            text = _re.sub(rf"(?<![\w.]){_re.escape(k)}(?![\w])", v, text)
    return text


def canon(e):
    from ..paths import canon_test

    return canon_test(e.node, e.pol)


def canon_pair(t, pol):
    from ..paths import canon_test

    return canon_test(t, pol)


def r10_2(ctx, m):
    f = m.f
    # region between the write loop and the dump
    body = f.node.body
    # (a `with` block around both passes - a reader closed on success - is looked into)
    while True:
        both = [st for st in body if isinstance(st, ast.With) and any(x is m.pass2 for x in ast.walk(st)) and m.dump is not None and any(x is m.dump for x in ast.walk(st)) and st is not m.pass2]
        if len(both) != 1:
            break
        body = both[0].body
    # locate the top-level statement containing pass2 and the one containing dump
    i2 = next(i for i, st in enumerate(body) if any(x is m.pass2 for x in ast.walk(st)))
    idump = next((i for i, st in enumerate(body) if any(x is m.dump for x in ast.walk(st))), None)
    if idump is None or idump < i2:
        raise AnalysisError("R10.2", f.where(), "pickle dump does not follow the write loop")
    region = body[i2 + 1 : idump + 1]
    paths = enum_paths(region, may_raise=lambda st, h: False, rule="R10.2", where=f.where())
    bad = None
    n_req = 0
    for p in paths:
        requested = not any(e.kind == "test" and canon(e) == (f"{m.idx_path} is None", True) for e in p.events)
        if not requested:
            continue
        n_req += 1
        reached = any(e.kind in ("stmt",) and any(x is m.dump for x in ast.walk(e.node)) for e in p.events)
        if not reached:
            bad = (p, f"path ends in {p.term} without writing the index")
            break
        for e in p.events:
            if e.kind == "stmt" and any(x is m.dump for x in ast.walk(e.node)):
                break
            if e.kind == "stmt":
                guarded = any(isinstance(t_, ast.Try) and any(x is e.node for b_ in t_.body for x in ast.walk(b_)) and any(h_.type is None or norm(h_.type) in ("KeyError", "LookupError", "Exception") or (isinstance(h_.type, ast.Tuple) and any(norm(x) in ("KeyError", "LookupError", "Exception") for x in h_.type.elts)) for h_ in t_.handlers) and not any(isinstance(x, (ast.Return, ast.Raise)) for h_ in t_.handlers for b_ in h_.body for x in ast.walk(b_)) for r_ in region for t_ in ast.walk(r_))
                r = None if guarded else may_raise_keyerror(e.node)  # (a removal inside `try ... except KeyError` cannot stop the dump)
                if r:
                    bad = (p, r)
                    break
        if bad:
            break
    ctx.check(bad is None and n_req >= 1, "R10.2", f.where(body[i2]), "whenever an index path exists every path from the end of the write loop reaches pickle.dump, and nothing in between raises on a key that only some inputs create", key_of(f, f"index-written:{bad[1] if bad else ''}"), paths=n_req, **({"path": bad[0].show(), "why": bad[1]} if bad else {}))
    # same for the statements inside the write loop's `with`/after it on the same level (timers etc.): no early return
    rets = [st for st in walk_stmts(body[i2 : idump]) if isinstance(st, ast.Return)]
    ctx.check(not rets, "R10.2", f.where(), "no early return between the write pass and the index dump", key_of(f, "early-return"))


def may_raise_keyerror(st):
    for c in ast.walk(st):
        if isinstance(c, ast.Call) and isinstance(c.func, ast.Attribute) and c.func.attr == "pop" and len(c.args) == 1 and not c.keywords and isinstance(c.args[0], ast.Constant) and isinstance(c.args[0].value, str):
            return f"`{norm(c)}` raises KeyError when no record created the key {c.args[0].value!r} (pop without default)"
        if isinstance(c, ast.Call) and isinstance(c.func, ast.Attribute) and c.func.attr == "remove" and c.args and isinstance(c.args[0], ast.Constant):
            return f"`{norm(c)}` raises when the element is absent"
    if isinstance(st, ast.Delete):
        for t in st.targets:
            if isinstance(t, ast.Subscript) and isinstance(t.slice, ast.Constant):
                return f"`{norm(st)}` raises KeyError when no record created the key"
    return None


def r10_3(ctx, m):
    f = m.f
    repo = ctx.repo
    # 'unknown' is removed before the dump
    sn_default = "unknown"
    region_src = [st for st in walk_stmts(f.node.body) if f.before(m.pass2, st) and f.before(st, m.dump) and not any(x is st for x in ast.walk(m.pass2))]
    removed = any(isinstance(c, ast.Call) and isinstance(c.func, ast.Attribute) and c.func.attr == "pop" and norm(c.func.value) == m.idx_dict and c.args and const_value(c.args[0]) == sn_default for st in region_src for c in ast.walk(st)) or any(isinstance(st, ast.Delete) and sn_default in norm(st) for st in region_src)
    ctx.check(removed, "R10.3", f.where(m.dump), "the 'unknown' bucket is removed from the index before it is pickled", key_of(f, "unknown-removed"))
    # the dumped object is the index dictionary filled in the write loop (possibly converted with dict())
    dumped = norm(m.dump.args[0])
    conv = [st for st in region_src if isinstance(st, ast.Assign) and norm(st.targets[0]) == dumped]
    ok = all(norm(st.value) in (f"dict({dumped})", dumped, f"dict({m.idx_dict})", m.idx_dict, f"{m.idx_dict}.copy()", f"dict({m.idx_dict}.items())") for st in conv) and (dumped == m.idx_dict or bool(conv))
    ctx.check(ok, "R10.3", f.where(m.dump), "the object pickled is the dictionary filled in the write loop", key_of(f, f"dumped:{[norm(s) for s in conv]}"))
    # caller: index path default
    callers = repo.callers_of(f)
    ctx.require_count("R10.3", len(callers), 1, f.where(), "callers of the sort function")
    cf, call = callers[0]
    ctx.analysed_func(cf)
    pidx = f.params.index(m.idx_path) if m.idx_path in f.params else None
    if pidx is None or pidx >= len(call.args):
        raise AnalysisError("R10.3", cf.where(call), "cannot map the index path argument")
    iv = norm(call.args[pidx])
    out_param = None
    for p_ in cf.params:
        if "out" in p_ and "ind" not in p_:
            out_param = p_
    ind_param = next((p_ for p_ in cf.params if "ind" in p_), None)
    if out_param is None or ind_param is None:
        raise AnalysisError("R10.3", cf.where(), "cannot identify the output / index-path parameters of the entry point")
    # where is the index path decided: in the entry point itself, or in a helper whose returned tuple is unpacked into it
    decider, ret_pos = cf, None
    for st in walk_stmts(cf.node.body):
        if isinstance(st, ast.Assign) and isinstance(st.targets[0], ast.Tuple) and isinstance(st.value, ast.Call) and iv in [norm(t) for t in st.targets[0].elts]:
            h = repo.resolve_call(cf, st.value)
            if h is not None:
                amap = {norm(a): p_ for p_, a in zip(h.params, st.value.args)}
                if out_param in amap and ind_param in amap:
                    decider, ret_pos = h, [norm(t) for t in st.targets[0].elts].index(iv)
                    out_param, ind_param = amap[out_param], amap[ind_param]
                    ctx.analysed_func(h)
    from ..core import desugar_ifexp

    decider = desugar_ifexp(decider)
    paths = enum_paths(decider.node.body, rule="R10.3", where=decider.where())
    bad = None
    n_dec = 0
    for p in paths:
        val = None
        for e in p.events:
            if e.kind == "stmt" and isinstance(e.node, ast.Assign) and norm(e.node.targets[0]) == iv:
                val = norm(e.node.value)
        if ret_pos is not None:
            if p.term != "return" or not isinstance(p.term_node.value, ast.Tuple):
                continue
            rv = p.term_node.value.elts[ret_pos]
            val = norm(rv)
            if isinstance(rv, ast.Name):
                for e in p.events:
                    if e.kind == "stmt" and isinstance(e.node, ast.Assign) and norm(e.node.targets[0]) == rv.id:
                        val = norm(e.node.value)
        out_none = any(e.kind == "test" and canon(e) == (f"{out_param} is None", True) for e in p.events)
        out_given = any(e.kind == "test" and canon(e) == (f"{out_param} is None", False) for e in p.events)
        ind_given = any(e.kind == "test" and ((norm(e.node) == ind_param and e.pol) or canon(e) == (f"{ind_param} is None", False)) for e in p.events)
        ind_absent = any(e.kind == "test" and ((norm(e.node) == ind_param and not e.pol) or canon(e) == (f"{ind_param} is None", True)) for e in p.events)
        if out_given:
            n_dec += 1
            if ind_given and val != ind_param:
                bad = (p, f"--outind given but index path is `{val}`")
            if ind_absent and val not in (f"{out_param} + '.gsi'", f"f'{{{out_param}}}.gsi'"):
                bad = (p, f"no --outind: index path is `{val}`, expected {out_param} + '.gsi'")
            if not (ind_given or ind_absent):
                bad = (p, "index path not decided on a path with an output file")
        if out_none and val not in ("None", None):
            bad = (p, f"no output file but index path `{val}`")
    if n_dec == 0 and bad is None:
        raise AnalysisError("R10.3", decider.where(), "cannot find where the index path is decided (no path tests the output argument)")
    ctx.check(bad is None, "R10.3", decider.where(), "whenever an output path is given the index path is --outind, or the output path + '.gsi'", key_of(decider, f"index-path:{bad[1] if bad else ''}"), deciding_paths=n_dec, **({"path": bad[0].show(), "why": bad[1]} if bad else {}))
    # the dict handed over creates [None, None] entries on first access
    didx = f.params.index(m.idx_dict) if m.idx_dict in f.params else None
    if didx is not None and didx < len(call.args):
        dv = norm(call.args[didx])
        d = [st for st in walk_stmts(cf.node.body) if isinstance(st, ast.Assign) and norm(st.targets[0]) == dv]
        ok = len(d) == 1 and norm(d[0].value).replace(" ", "") == "defaultdict(lambda:[None,None])"
        if not ok:
            # positive evidence of a wrong start value: a fresh entry whose slots are not None (`[0, 0]`), or one list object
            # shared by all contigs; any other container (an empty list filled with append, a small class) is not read here
            txt_ = norm(d[0].value).replace(" ", "") if len(d) == 1 else ""
            wrong = len(d) == 1 and isinstance(d[0].value, ast.Call) and norm(d[0].value.func).endswith("defaultdict") and d[0].value.args and isinstance(d[0].value.args[0], ast.Lambda) and isinstance(d[0].value.args[0].body, (ast.List, ast.Tuple)) and any(not (isinstance(e_, ast.Constant) and e_.value is None) for e_ in d[0].value.args[0].body.elts)
            shared_obj = len(d) == 1 and isinstance(d[0].value, ast.Call) and norm(d[0].value.func).endswith("defaultdict") and d[0].value.args and isinstance(d[0].value.args[0], ast.Lambda) and isinstance(d[0].value.args[0].body, ast.Name)  # one module-level list handed to every contig
            if not wrong and not shared_obj and "fromkeys" not in txt_:
                raise AnalysisError("R10.3", cf.where(), f"the index entries are created by `{txt_[:60]}`: how a contig's first / last slot starts out is not read by this rule")
        ctx.check(ok, "R10.3", cf.where(), "index entries start as [None, None] (fresh list per contig)", key_of(cf, f"index-default:{[norm(x.value) for x in d]}"))


def r10_4(ctx, m):
    """The positions recorded are positions in the output file itself: the handle whose tell() feeds the index is opened on
    the output path (not on a temporary file that is converted / compressed / renamed into the output afterwards: a byte
    position in a plain temporary file is not a BGZF virtual offset of the compressed output)."""
    from ..core import desugar_ifexp

    repo = ctx.repo
    f = m.f
    callers = repo.callers_of(f)
    if len(callers) != 1 or m.writer not in f.params:
        raise AnalysisError("R10.4", f.where(), "cannot find the one caller that hands the output handle to the sort function")
    cf, call = callers[0]
    from ..core import inline_callable_aliases, sink_into_branches

    cf = inline_callable_aliases(sink_into_branches(desugar_ifexp(cf)))  # `opener, mode = (A, "wb") if z else (open, "w"); w = opener(p, mode)`
    call = next((c for c in walk_own(cf.node) if isinstance(c, ast.Call) and repo.resolve_call(cf, c) is not None and same_func(repo.resolve_call(cf, c), f)), None)
    widx = f.params.index(m.writer)
    if call is None or widx >= len(call.args) or not isinstance(call.args[widx], ast.Name):
        raise AnalysisError("R10.4", cf.where(), "cannot map the output handle argument of the sort call")
    wv = call.args[widx].id
    out_param = next((p_ for p_ in cf.params if "out" in p_ and "ind" not in p_), None)
    if out_param is None:
        raise AnalysisError("R10.4", cf.where(), "cannot identify the output path parameter of the entry point")
    # nothing else is written to the path of the index: an opener of the output that is told to write a file of its own
    # (`BGZFile(out, "wb", index=...)`: pysam's block index, dumped when the handle is closed, after the pickled index)
    idx_paths = {norm(a_.value) for a_ in walk_own(cf.node) if isinstance(a_, ast.Assign) and len(a_.targets) == 1 and isinstance(a_.targets[0], ast.Name) and "ind" in a_.targets[0].id.lower() and not isinstance(a_.value, ast.Constant)} | {p_ for p_ in cf.params if "ind" in p_.lower()}
    for c_ in walk_own(cf.node):
        if isinstance(c_, ast.Call) and norm(c_.func).endswith(("BGZFile", "open")):
            for k_ in c_.keywords:
                if k_.arg in ("index", "index_filename") and norm(k_.value) in idx_paths:
                    ctx.violated("R10.4", cf.where(c_), f"`{norm(c_)[:70]}` makes the output handle write a file of its own to `{norm(k_.value)[:30]}`, the path of the sort index: it is written when the handle is closed, after the index was pickled there, and replaces it (the index can no longer be loaded)", key_of(cf, f"index-path-overwritten:{norm(k_.value)[:30]}"))
    paths = enum_paths(cf.node.body, rule="R10.4", where=cf.where())
    n = 0
    bad = None
    for p in paths:
        env = {}
        for e in p.events:
            if e.kind != "stmt" or not isinstance(e.node, ast.Assign) or len(e.node.targets) != 1 or not isinstance(e.node.targets[0], ast.Name):
                continue
            tgt = e.node.targets[0].id
            v = e.node.value
            if tgt == wv and isinstance(v, ast.Call) and v.args and (norm(v.func) == "open" or norm(v.func).endswith("BGZFile")):
                a = v.args[0]
                for _ in range(4):
                    if isinstance(a, ast.Name) and a.id in env:
                        a = env[a.id]
                n += 1
                if norm(a) != out_param:
                    bad = (p, f"the handle `{wv}` whose positions are indexed is opened on `{norm(a)}`, not on the output path `{out_param}`")
            if tgt == wv and isinstance(v, ast.Call) and repo.resolve_call(cf, v) is not None and repo.resolve_call(cf, v).name == "__init__" and any(isinstance(a_, ast.Name) and a_.id == wv for a_ in v.args):
                cls_ = repo.resolve_call(cf, v).cls
                bad = (p, f"the output handle is wrapped in `{cls_}` before it is handed to the sort function: the positions stored in the index are what `{cls_}.tell()` computes (bytes handed over plus bytes waiting), not positions of the file — for BGZF output a byte count is not a virtual offset once the output spans more than one block")
            env[tgt] = v
        if bad:
            break
    ctx.check(bad is None, "R10.4", cf.where(call), "the handle whose tell() feeds the index is opened on the output path itself (no temporary file that is compressed or renamed into the output afterwards)", key_of(cf, f"indexed-handle-path:{bad[1] if bad else ''}"), **({"path": bad[0].show(), "why": bad[1]} if bad else {"openers": n}))
    if bad is None and n == 0:
        raise AnalysisError("R10.4", cf.where(), f"cannot find where the output handle `{wv}` is opened")


def r10_0(ctx, m):
    """Every contig has an interval of its own: the [first, last] lists of the index are distinct objects.
    `dict.fromkeys(keys, [None, None])` (and `[[None, None]] * n`) puts one shared list under every key, so an update for one
    contig is an update for all."""
    repo = ctx.repo
    n = 0
    for f in repo.all_funcs():
        if f.module is not m.f.module:
            continue
        for c in walk_own(f.node):
            if isinstance(c, ast.Call) and norm(c.func) == "dict.fromkeys" and len(c.args) == 2 and isinstance(c.args[1], (ast.List, ast.Dict, ast.Set, ast.ListComp)):
                n += 1
                ctx.violated("R10.0", f.where(c), f"`{norm(c)[:70]}` puts the same list object under every key: the first and last offset recorded for one contig overwrite those of every other contig (all contigs end up with one shared interval)", key_of(f, f"shared-mutable-default:{norm(c)[:50]}"))
            if isinstance(c, ast.BinOp) and isinstance(c.op, ast.Mult) and isinstance(c.left, ast.List) and len(c.left.elts) == 1 and isinstance(c.left.elts[0], (ast.List, ast.Dict)):
                n += 1
                ctx.violated("R10.0", f.where(c), f"`{norm(c)[:70]}` repeats one inner list object: all entries share it", key_of(f, f"shared-mutable-default:{norm(c)[:50]}"))
    if n == 0:
        ctx.holds("R10.0", m.f.where(), "no container of the sort module is filled with one shared mutable default (dict.fromkeys(keys, []), [[...]] * n)", nontrivial=False)
