"""C16 — GAF optional fields survive parsing and re-serialisation verbatim.

R16.1  the parser accepts the tag grammar: for every type T, L(repo grammar for a field of type T) is
       included in the language accepted by each pattern a field must pass, and the value capture takes
       the whole value (automata-theoretic inclusion, oracle = utils.tag_regex / utils.types_regex)
R16.2  only optional columns are scanned (slice from column 13)
R16.3  repeated tags: the container cannot hold them (recorded known finding F-C16c)
R16.4  writers spell `key value` exactly as the parser stored them, in mapping order
R16.5  no invented field; the tag mapping is never reordered (no pop/del + reinsert)
R16.6  the only tag dropped on purpose is ds:Z:
R16.7  mandatory columns of the plain re-serialiser are the parsed ones in schema order
"""

from __future__ import annotations

import ast
import re

from ..core import AnalysisError, const_value, norm, walk_own, walk_stmts, names_in
from ..paths import enum_paths, canon_test
from .. import relang, tmpl
from . import emit
from .c19 import tag_loop, tag_regex_info, key_group_items
from ..core import same_func
from .common import key_of, gaf_schema

META = {
    "explanation": "Static decision of the optional-field round trip: the regular expressions through which a field must pass in GAF.parse_gaf_line are "
    "compared, by automata-theoretic language inclusion (Thompson NFA, subset construction, product search with witness), with the "
    "repository's own SAM tag grammar (utils.tag_regex and utils.types_regex) for every type A,i,f,Z,H,B: every grammatical field must be "
    "accepted and its value captured completely; the tag loop is shown to iterate the optional columns only and to drop nothing but ds:Z: "
    "(the first-wins handling of a repeated tag is a recorded finding); every writer that re-emits a parsed record is modelled as a "
    "tab-separated string template and must emit, after column 12, exactly one repetition over the record's tag mapping in its own order "
    "with key and value adjacent (the stored key ends with ':'), must not store a tag the input did not have (other than realign's CIGAR "
    "rewrite) and must not pop/delete entries (which would reorder them).",
    "technique": "static analysis: regular-language inclusion on regex parse trees, string templates, path enumeration, who-may-write the tag mapping",
    "exhaustive": True,
}


def check(ctx):
    repo = ctx.repo
    pf, loop = tag_loop(ctx, "R16.1")
    info = tag_regex_info(pf, loop, "R16.1")
    ctx.run(r16_1, pf, loop, info)
    ctx.run(r16_2, pf, loop)
    ctx.run(r16_3_6, pf, loop, info)
    schema, extras, ems = emit.find_emitters(ctx, "R16.4")
    ctx.require_count("R16.4", len(ems), 6, "gaftools/", "record emitters (12-column templates fed from a parsed record)")
    key_colon = relang.all_end_with(key_group_items(info), ":")
    for f, rec, n in ems:
        ctx.analysed_func(f)
        ctx.run(r16_4, f, rec, n, extras, schema, key_colon, _independent=True)  # one writer each
    ctx.run(r16_5, extras, schema)
    ctx.run(r16_7, schema, extras)
    ctx.run(r16_8, extras)
    ctx.not_decided.append("trailing blanks of the last optional field are removed by rstrip() before splitting (observation, outside the armed rules)")
    # mechanisms this property rests on (see shared.py): a change there is reported here as well
    from . import shared as _sh

    ctx.run(_sh.r16_9)  # C16 owns the column rule

    # the converters replace the CIGAR field only for a record that has one (an invented empty `cg:Z:` is an extra field)
    def _cigar_presence(c_):
        from . import c01 as _c01
        from . import conv_common as _cc

        _c01.r01_3(c_, _cc.build(c_, "R01.3"))

    ctx.run_shared(_cigar_presence)
    ctx.run(lambda c_: _sh.tag_pop_reinsert(c_, "R16.5"), _independent=True)
    ctx.run_shared(_sh.gaf_reader)
    ctx.run_shared(_sh.cli_layer, "gaftools.cli.view")
    ctx.run_shared(_sh.cli_layer, "gaftools.cli.realign")


# ---------------------------------------------------------------------------------------------


def oracle(ctx):
    repo = ctx.repo
    from ..core import tag_grammar

    um, _trn, tr, _tyn, ty, _ict = tag_grammar(repo, "R16.1")
    tag_items = relang.flatten(relang.parse(tr.value))
    types = {}
    for k, v in zip(ty.keys, ty.values):
        types[const_value(k)] = relang.flatten(relang.parse(const_value(v)))
    return tag_items, types


def oracle_field(tag_items, types, T):
    """Items of the full-match language of a grammatical optional field of type T."""
    core, _, _ = relang.strip_anchors(tag_items)
    # positions: name(2 chars) ':' type ':' value
    out = []
    seen_colon = 0
    for it in core:
        if it[0] == "char" and it[1] == {ord(":")}:
            seen_colon += 1
            out.append(it)
        elif seen_colon == 1 and it[0] == "char":
            out.append(("char", {ord(T)}))
        elif seen_colon >= 2:
            vcore, _, _ = relang.strip_anchors(types[T])
            out += vcore
            break
        else:
            out.append(it)
    return out


def r16_1(ctx, pf, loop, info):
    tag_items, types = oracle(ctx)
    n = 0
    fields_var = norm(loop.target)
    # type-validation tables: constant dicts type -> regex applied to the value, either re.<fn>(TABLE[x], v)
    # or TABLE[x].<fn>(v) with re.compile'd entries; string constants are folded through module-level names
    tables = {}
    for c in ast.walk(loop):
        if not isinstance(c, ast.Call):
            continue
        sub = None
        fn = None
        if norm(c.func) in ("re.match", "re.fullmatch", "re.search") and c.args and isinstance(c.args[0], ast.Subscript):
            sub, fn = c.args[0], norm(c.func)
        elif isinstance(c.func, ast.Attribute) and c.func.attr in ("match", "fullmatch", "search") and isinstance(c.func.value, ast.Subscript):
            sub, fn = c.func.value, "re." + c.func.attr
        if sub is None:
            continue
        tname = norm(sub.value)
        d = lookup_const(ctx, pf, tname)
        if not isinstance(d, ast.Dict):
            raise AnalysisError("R16.1", pf.where(c), f"value validation through `{norm(sub)}`: table is not a constant dict literal")
        tables[tname] = (fn, d, c)
    # split idiom: TAG:TYPE:VALUE split on ':' must be bounded to two splits, because ':' is in the value language
    core, _, _ = relang.strip_anchors(tag_items)
    colon_in_value = core[-1][0] == "rep" and core[-1][3][0][0] == "char" and ord(":") in core[-1][3][0][1]
    for c in info.get("splits", []):
        n += 1
        bound = const_value(c.args[1], None) if len(c.args) > 1 else next((const_value(k.value) for k in c.keywords if k.arg == "maxsplit"), None)
        ok = (not colon_in_value) or c.func.attr == "partition" and False or (c.func.attr == "split" and bound == 2)
        ctx.check(ok, "R16.1", pf.where(c), "an optional field is split on ':' with maxsplit=2: ':' belongs to the value language (e.g. `pa:Z:chr1:100-200`), an unbounded split truncates the value", key_of(pf, f"field-split:{norm(c)}"), call=norm(c))
    for T in sorted(types):
        of = oracle_field(tag_items, types, T)
        for fn, pat, call in info["patterns"]:
            if not call.args or len(call.args) < 2 or norm(call.args[1]) != fields_var:
                continue
            items = relang.flatten(relang.parse(pat))
            mode = {"re.match": "match", "re.fullmatch": "fullmatch", "re.search": "search", "re.findall": "search"}[fn]
            try:
                ok, w = relang.included(of, relang.language_items(items, mode))
            except relang.RegexUnsupported as e:
                raise AnalysisError("R16.1", pf.where(call), f"pattern outside the supported regex fragment: {e}")
            n += 1
            ctx.check(ok, "R16.1", pf.where(call), f"every grammatical field of type {T} passes {fn}({pat!r})", key_of(pf, f"accept:{T}:{pat}"), **({"witness_rejected": w} if not ok else {}))
            # capture completeness: value group is the last group; it must be a repeat of one char class including the
            # whole value alphabet of T and be followed by the end of the field (or be greedy over a superset class)
            g = relang.groups(items)
            if g:
                last = max(g)
                vg = g[last]
                vcore, _, _ = relang.strip_anchors(types[T])
                if last >= 2 or (last == 1 and not pat.lstrip("^").startswith("(")):
                    try:
                        okv, wv = relang.included(vcore, vg)
                    except relang.RegexUnsupported as e:
                        raise AnalysisError("R16.1", pf.where(call), str(e))
                    single = len(vg) == 1 and vg[0][0] == "rep" and len(vg[0][3]) == 1 and vg[0][3][0][0] == "char"
                    ctx.check(okv and single, "R16.1", pf.where(call), f"the value capture of {pat!r} takes every value of type {T} completely", key_of(pf, f"capture:{T}:{pat}"), **({"witness_truncated": wv} if not okv else {}))
        for tname, (fn, d, call) in tables.items():
            entry = None
            present = False
            for k, v in zip(d.keys, d.values):
                if const_value(k) == T:
                    present = True
                    entry = fold_str(ctx, pf, v)
            if present and entry is None:
                raise AnalysisError("R16.1", pf.where(call), f"entry {T!r} of table {tname} is not a foldable string constant")
            if entry is None:
                ctx.violated("R16.1", pf.where(call), f"value table {tname} has no entry for type {T}: such fields are dropped or fail", key_of(pf, f"table-missing:{tname}:{T}"))
                continue
            vcore, _, _ = relang.strip_anchors(types[T])
            mode = {"re.match": "match", "re.fullmatch": "fullmatch", "re.search": "search"}[fn]
            ok, w = relang.included(vcore, relang.language_items(relang.flatten(relang.parse(entry)), mode))
            n += 1
            ctx.check(ok, "R16.1", pf.where(call), f"every grammatical value of type {T} passes the parser's own table {tname}[{T!r}] = {entry!r}", key_of(pf, f"table:{tname}:{T}:{entry}"), **({"witness_rejected": w} if not ok else {}))
    ctx.require_count("R16.1", n, 6, pf.where(loop), "language-inclusion obligations (types x patterns)")


def lookup_const(ctx, f, name):
    d = f.module.consts.get(name)
    if d is None:
        for st in walk_own(f.node):
            if isinstance(st, ast.Assign) and norm(st.targets[0]) == name:
                d = st.value
    if d is None and "." in name:
        mod_alias, attr = name.split(".", 1)
        tgt = f.module.imports.get(mod_alias)
        if tgt in ctx.repo.modules:
            d = ctx.repo.modules[tgt].consts.get(attr)
    if d is None and name in f.module.imports:
        tgt = f.module.imports[name]
        if "." in tgt:
            m_, a_ = tgt.rsplit(".", 1)
            if m_ in ctx.repo.modules:
                d = ctx.repo.modules[m_].consts.get(a_)
    return d


def fold_str(ctx, f, e, depth=0):
    """Constant-fold a string expression over module-level names (+, re.compile(...))."""
    if depth > 6:
        return None
    if isinstance(e, ast.Constant) and isinstance(e.value, str):
        return e.value
    if isinstance(e, ast.Name):
        d = lookup_const(ctx, f, e.id)
        return fold_str(ctx, f, d, depth + 1) if d is not None else None
    if isinstance(e, ast.BinOp) and isinstance(e.op, ast.Add):
        l, r = fold_str(ctx, f, e.left, depth + 1), fold_str(ctx, f, e.right, depth + 1)
        return l + r if l is not None and r is not None else None
    if isinstance(e, ast.Call) and norm(e.func) == "re.compile" and e.args:
        return fold_str(ctx, f, e.args[0], depth + 1)
    if isinstance(e, ast.JoinedStr):
        out = ""
        for v in e.values:
            if isinstance(v, ast.Constant):
                out += v.value
            else:
                x = fold_str(ctx, f, v.value, depth + 1)
                if x is None:
                    return None
                out += x
        return out
    return None


def r16_2(ctx, pf, loop):
    it = loop.iter
    if getattr(pf, "optional_arg", None) is not None and isinstance(it, ast.Name):
        it = pf.optional_arg  # the loop is in a helper: what the parser hands it
    if isinstance(it, ast.Name) and it.id not in pf.params:
        from ..core import make_resolver

        it = make_resolver(pf.node.body)(it)  # a local for the window of optional columns
    ok = isinstance(it, ast.Subscript) and isinstance(it.slice, ast.Slice) and const_value(it.slice.lower) == 12 and it.slice.upper is None and it.slice.step is None
    if isinstance(it, ast.Call) and norm(it.func) in ("islice", "itertools.islice") and len(it.args) in (2, 3):
        # islice(cols, 12, None): the same window, lazily
        ok = const_value(it.args[1]) == 12 and (len(it.args) == 2 and False or len(it.args) == 3 and const_value(it.args[2], "?") is None)
    if not ok and isinstance(it, ast.Name):
        whole = any(isinstance(st, ast.Assign) and norm(st.targets[0]) == it.id and ".split('\\t')" in norm(st.value) for st in walk_own(pf.node))
        if not whole:
            raise AnalysisError("R16.2", pf.where(loop), f"cannot trace what the tag loop iterates (`{it.id}`)")
    ctx.check(ok, "R16.2", pf.where(loop), "the tag loop scans the optional columns only (fields[12:]), so a read name or path shaped like a tag is never re-emitted as a field", key_of(pf, f"tag-loop-iter:{norm(it)}"), iter=norm(it))


def r16_3_6(ctx, pf, loop, info, report_repeats=True):
    kv, vv = info["key_var"], info["val_var"]
    if kv is None:
        raise AnalysisError("R16.6", pf.where(loop), "cannot identify the tag key variable")
    paths = enum_paths(loop.body, rule="R16.6", where=pf.where(loop))
    tags_var = None
    stores = []
    for st in walk_stmts(loop.body):
        if isinstance(st, ast.Assign) and isinstance(st.targets[0], ast.Subscript) and norm(st.targets[0].slice) == kv:
            tags_var = norm(st.targets[0].value)
            stores.append(st)
    if not stores:
        raise AnalysisError("R16.6", pf.where(loop), "the loop does not store fields keyed by the tag key")
    # stored value must be the captured value itself
    for st in stores:
        ctx.check(norm(st.value) == vv, "R16.4", pf.where(st), "the value stored for a tag is the captured value, unmodified", key_of(pf, f"store-value:{norm(st.value)}"), stored=norm(st.value))
    from .c19 import _is_regex_call, gate_value
    from ..core import local_defs

    match_vars = {norm(st.targets[0]) for st in walk_stmts(loop.body) if isinstance(st, ast.Assign) and _is_regex_call(st.value, pf.module)}
    defs = local_defs(pf.node)
    # key classes: every string constant the key is compared with, plus one fresh well-formed key
    consts = []
    for n in ast.walk(loop):
        if isinstance(n, ast.Compare) and norm(n.left) == kv:
            for c in n.comparators:
                for k in [c] if isinstance(c, ast.Constant) else (list(c.elts) if isinstance(c, (ast.Tuple, ast.List, ast.Set)) else []):
                    if isinstance(k, ast.Constant) and isinstance(k.value, str) and k.value not in consts:
                        consts.append(k.value)
    for n in ast.walk(loop):  # keys named in module-level collections the key is tested against
        if isinstance(n, ast.Compare) and norm(n.left) == kv and isinstance(n.comparators[0], ast.Name):
            d_ = pf.module.consts.get(n.comparators[0].id)
            if isinstance(d_, ast.Call) and d_.args:
                d_ = d_.args[0]
            for k in (d_.elts if isinstance(d_, (ast.Tuple, ast.List, ast.Set)) else []):
                if isinstance(k, ast.Constant) and isinstance(k.value, str) and k.value not in consts:
                    consts.append(k.value)
    fresh = next(k for k in ("NM:i:", "dv:f:", "zz:Z:") if k not in consts)
    for k in ("ds:Z:", "cg:Z:"):
        if k not in consts:
            consts.append(k)
    classes = consts + [fresh]
    tag_in = {f"{kv} in {tags_var}", f"{kv} in {tags_var}.keys()", f"{kv} in list({tags_var})", f"{kv} in list({tags_var}.keys())"}

    def ev(e, world, depth=0):
        """3-valued truth of a test in a world (key constant, already-present flag); None = not determined."""
        key, present = world
        g = gate_value(e, True, match_vars, pf.module)
        if g is not None and not isinstance(e, ast.BoolOp):
            return g  # well-formed field: the gate holds
        if isinstance(e, ast.UnaryOp) and isinstance(e.op, ast.Not):
            v = ev(e.operand, world, depth)
            return None if v is None else (not v)
        if isinstance(e, ast.BoolOp):
            vals = [ev(v, world, depth) for v in e.values]
            if isinstance(e.op, ast.And):
                return False if any(v is False for v in vals) else (True if all(v is True for v in vals) else None)
            return True if any(v is True for v in vals) else (False if all(v is False for v in vals) else None)
        if isinstance(e, ast.Name) and depth < 4 and e.id in defs and len(defs[e.id]) == 1 and defs[e.id][0] is not None:
            return ev(defs[e.id][0], world, depth + 1)
        if isinstance(e, ast.Compare) and len(e.ops) == 1:
            t, pol = canon_test(e, True)
            if t in tag_in:
                return present == pol
            c = e.comparators[0]
            if norm(e.left) == kv:
                if isinstance(c, ast.Constant) and isinstance(c.value, str) and isinstance(e.ops[0], (ast.Eq, ast.NotEq)):
                    return (key == c.value) == isinstance(e.ops[0], ast.Eq)
                if isinstance(c, ast.Name) and isinstance(pf.module.consts.get(c.id), (ast.Call, ast.Tuple, ast.List, ast.Set)) and not _mutated_anywhere(ctx.repo, c.id):
                    c = pf.module.consts[c.id]  # a module-level literal collection (frozenset({...}), a tuple / set display)
                    if isinstance(c, ast.Call) and isinstance(c.func, ast.Name) and c.func.id in ("frozenset", "set", "tuple", "list") and len(c.args) == 1:
                        c = c.args[0]
                if isinstance(c, (ast.Tuple, ast.List, ast.Set)) and all(isinstance(k, ast.Constant) for k in c.elts) and isinstance(e.ops[0], (ast.In, ast.NotIn)):
                    return (key in [k.value for k in c.elts]) == isinstance(e.ops[0], ast.In)
        return None

    def outcomes(world):
        out = {}
        for p in paths:
            ok = True
            for t, pol in p.tests():
                v = ev(t, world)
                if v is not None and v != pol:
                    ok = False
                    break
            if ok:
                out.setdefault(any(e.kind == "stmt" and e.node in stores for e in p.events), p)
        return out

    # the loop looks at every field: a path that leaves it (break / return) after a well-formed field loses the rest
    for p in paths:
        if p.term in ("break", "return"):
            for key in classes:
                for present in (False, True):
                    if all((lambda v: v is None or v == pol)(ev(t, (key, present))) for t, pol in p.tests()):
                        ctx.violated("R16.6", pf.where(loop), f"the scan of the optional fields stops ({p.term}) after a well-formed field ({key}...): every field behind it is lost (e.g. tp:A: written after the CIGAR)", key_of(pf, f"tag-loop-left:{p.term}:{key}"), path=p.show())
                        break
                else:
                    continue
                break
    rep_reported = False
    n_worlds = 0
    for key in classes:
        for present in (False, True):
            n_worlds += 1
            out = outcomes((key, present))
            if not out:
                raise AnalysisError("R16.6", pf.where(loop), f"no path of the tag loop is consistent with a well-formed field {key}")
            if key == "ds:Z:":
                ctx.check(set(out) == {False}, "R16.6", pf.where(loop), "the documented ds:Z: exception is an explicit filter on the literal key (not an accident of the value pattern)", key_of(pf, "ds-explicit"))
                continue
            if False not in out:
                continue
            p = out[False]
            if present and key != "cg:Z:":
                if not rep_reported and report_repeats:
                    rep_reported = True
                    ctx.violated("R16.3", pf.where(loop), "a repeated tag is dropped: the mapping is keyed by TAG:TYPE: and only the first occurrence is kept", "gaftools.gaf::optional-field-parser::repeated-tag-first-wins", path=p.show())
                continue
            if present:
                continue  # a repeated cg:Z: — covered by the repeated-tag finding's family; the CIGAR rules are C12/C19's
            why = [canon_test(t, pol) for t, pol in p.tests() if gate_value(t, pol, match_vars, pf.module) is None]
            ctx.violated("R16.6", pf.where(loop), f"a well-formed optional field ({key}...) is silently dropped under {why}", key_of(pf, f"drop:{key}:{why}"), path=p.show())
    ctx.holds("R16.6", pf.where(loop), f"every well-formed field other than ds:Z: that is not yet present is stored on every path ({n_worlds} key/presence worlds x {len(paths)} paths)")


def _mutated_anywhere(repo, name):
    """a module-level collection `name` is changed somewhere in the program (at import time or later): `name.add/update/...`,
    `mod.name.add(...)`, `name |= ...`, `name[...] = ...` — its display is then not the set a membership test sees"""
    hit = getattr(repo, "_mutated_cache", None)
    if hit is None:
        hit = repo._mutated_cache = {}
    if name in hit:
        return hit[name]
    res = False
    for mod in repo.modules.values():
        for x in ast.walk(mod.tree):
            tgt = None
            if isinstance(x, ast.Call) and isinstance(x.func, ast.Attribute) and x.func.attr in ("add", "update", "discard", "remove", "pop", "clear", "append", "extend", "insert", "difference_update", "intersection_update", "symmetric_difference_update", "setdefault", "popitem"):
                tgt = x.func.value
            elif isinstance(x, ast.AugAssign):
                tgt = x.target
            elif isinstance(x, (ast.Assign, ast.Delete)):
                for t in x.targets:
                    if isinstance(t, ast.Subscript):
                        tgt = t.value
            if tgt is not None and ((isinstance(tgt, ast.Name) and tgt.id == name) or (isinstance(tgt, ast.Attribute) and tgt.attr == name)):
                res = True
    hit[name] = res
    return res


def _is_tag_copy(e, base, rec, extras):
    """`dict(base)`, `base.copy()`, `{**base}`, optionally with the CIGAR key overridden by the record's CIGAR."""
    t = norm(e)
    if t in (f"dict({base})", f"{base}.copy()", f"{{**{base}}}", f"copy.copy({base})", f"copy({base})"):
        return True
    if isinstance(e, ast.Dict) and e.keys and e.keys[0] is None and norm(e.values[0]) == base:
        return "override" if len(e.keys) > 1 and all(k is not None and isinstance(k, ast.Constant) and k.value == "cg:Z:" and norm(v) == f"{rec}.{extras['cigar_attr']}" for k, v in list(zip(e.keys, e.values))[1:]) else len(e.keys) == 1
    return False


def _merge_sep(opaque_body, elt_parts):
    """Body of a filtered comprehension repetition: the separator literal(s) kept by the join + the element template."""
    seps = [x for x in opaque_body if x[0] == "lit"]
    return tmpl._merge(seps + list(elt_parts))


def r16_4(ctx, f, rec, n, extras, schema, key_colon):
    tags_attr = extras["tags_attr"]
    st, var, handle, region, out = emit.templates_of(ctx, f, rec, n, tags_attr, "R16.4")
    # a finished output line remembered under a key made of the record's columns and reused for a later record with the same
    # key: the later record's own optional fields (which the key leaves out) are replaced by those of the first
    if var is not None:
        for s_ in walk_own(f.node):
            if isinstance(s_, ast.Assign) and isinstance(s_.targets[0], ast.Subscript) and isinstance(s_.targets[0].value, ast.Name) and var in {x_.id for x_ in ast.walk(s_.value) if isinstance(x_, ast.Name)}:
                d_ = s_.targets[0].value.id
                k_ = s_.targets[0].slice
                kdef = k_
                if isinstance(k_, ast.Name):
                    ds_ = [a_.value for a_ in walk_own(f.node) if isinstance(a_, ast.Assign) and len(a_.targets) == 1 and norm(a_.targets[0]) == k_.id]
                    kdef = ds_[0] if len(ds_) == 1 else k_
                is_local_dict = any(isinstance(a_, ast.Assign) and norm(a_.targets[0]) == d_ and isinstance(a_.value, (ast.Dict, ast.Call)) and norm(a_.value) in ("{}", "dict()") for a_ in walk_own(f.node))
                attrs = {x_.attr for x_ in ast.walk(kdef) if isinstance(x_, ast.Attribute) and norm(x_.value) == rec}
                reused = any(isinstance(c_, ast.Compare) and isinstance(c_.ops[0], ast.In) and norm(c_.comparators[0]) == d_ for c_ in walk_own(f.node)) or any(isinstance(c_, ast.Call) and isinstance(c_.func, ast.Attribute) and c_.func.attr == "get" and norm(c_.func.value) == d_ for c_ in walk_own(f.node))
                if is_local_dict and attrs and reused and tags_attr not in attrs and not any(isinstance(x_, ast.Name) and x_.id == rec for x_ in (kdef.elts if isinstance(kdef, ast.Tuple) else [kdef])):
                    ctx.violated("R16.4", f.where(s_), f"the finished line of a record is remembered under `{norm(kdef)[:80]}` and written again for a later record with the same key: the key leaves out the record's optional fields, so a record that agrees in those columns but carries other fields (another tp:A, another read group, another score) comes out with the fields of the first", key_of(f, f"memo-key-without-tags:{d_}"))
    if not out:
        raise AnalysisError("R16.4", f.where(st), "no path emits the record")
    seen = set()
    for p, parts in out:
        sig = tmpl.show(parts)
        if sig in seen:
            continue
        seen.add(sig)
        reps = [x for x in parts if x[0] == "rep"]
        where = f.where(st)
        for a in tmpl.arity_errors(parts):
            ctx.violated("R16.4", where, f"format arity: {a[2]}", key_of(f, "arity:" + sig[:80]))
        if not reps and emit.has_unlinked_tag_loop(f, rec, tags_attr, var):
            raise AnalysisError("R16.4", where, "the function iterates the record's optional fields, but not into the string this rule follows: how they reach the output is not traced")
        if len(reps) != 1:
            ctx.violated("R16.4", where, f"the record is emitted with {len(reps)} repetitions over its tag mapping (expected exactly one: every parsed field once)", key_of(f, f"tag-rep-count:{len(reps)}"), template=sig[:300])
            continue
        r = reps[0]
        loop = r[2]
        if loop is None and len(r[1]) == 2 and r[1][1][0] == "hole" and isinstance(r[1][1][1], ast.Name):
            # a local list spliced into the joined columns: `opt = [f(k) for k in tags]; "\t".join([cols] + opt)`
            nm = r[1][1][1].id
            defs = [s_.value for s_ in walk_stmts(f.node.body) if isinstance(s_, ast.Assign) and len(s_.targets) == 1 and norm(s_.targets[0]) == nm]
            muts = [c for c in walk_own(f.node) if isinstance(c, ast.Call) and isinstance(c.func, ast.Attribute) and norm(c.func.value) == nm]
            if len(defs) == 1 and isinstance(defs[0], (ast.ListComp, ast.GeneratorExp)) and not muts:
                ent = tmpl.comp_entry(defs[0])
                r = ("rep", tmpl._merge([r[1][0]] + ent[1]), ent[2])
                parts = [r if x is reps[0] else x for x in parts]
                loop = r[2]
        if loop is None:
            raise AnalysisError("R16.4", where, f"the repetition over the tags is not a loop or comprehension this rule can read ({tmpl.show(r[1])[:60]})")
        it = norm(loop.iter)
        base = f"{rec}.{tags_attr}"
        # an order-preserving copy of the mapping (possibly with the CIGAR entry overridden, as the in-place writer does)
        m_it = re.fullmatch(r"(\w+)(\.keys\(\)|\.items\(\))?", it)
        if m_it and m_it.group(1) not in f.params:
            defs = [s_.value for s_ in walk_stmts(f.node.body) if isinstance(s_, ast.Assign) and len(s_.targets) == 1 and norm(s_.targets[0]) == m_it.group(1)]
            kind = _is_tag_copy(defs[0], base, rec, extras) if len(defs) == 1 else False
            if kind == "override" and not getattr(loop, "gv_filters", None):
                raise AnalysisError("R16.4", f.where(loop), "the copy of the tag mapping always carries a CIGAR entry: cannot decide what is written for a record without CIGAR")
            if kind:
                it = base + (m_it.group(2) or "")
            else:
                raise AnalysisError("R16.4", f.where(loop), f"the writer iterates the local `{m_it.group(1)}` whose relation to {base} is not a recognised copy")
        ctx.check(it in (base, base + ".keys()", base + ".items()"), "R16.4", f.where(loop), "the writer iterates the tag mapping itself (insertion order = input order)", key_of(f, f"tag-iter:{it}"), iter=it)
        body = r[1]
        filters = getattr(loop, "gv_filters", None)
        if filters:
            body = _merge_sep(body, loop.gv_elt)
            tv = [norm(e) for e in (loop.target.elts if isinstance(loop.target, ast.Tuple) else [loop.target])]
            vnames = {f"{base}[{tv[0]}]", f"{norm(loop.iter.func.value) if isinstance(loop.iter, ast.Call) and isinstance(loop.iter.func, ast.Attribute) else norm(loop.iter)}[{tv[0]}]"} | ({tv[1]} if len(tv) > 1 else set())
            for flt in filters:
                while isinstance(flt, ast.UnaryOp) and isinstance(flt.op, ast.Not) and isinstance(flt.operand, ast.UnaryOp) and isinstance(flt.operand.op, ast.Not):
                    flt = flt.operand.operand
                t = norm(flt)
                if t in (f'{tv[0]} != "ds:Z:"', f"{tv[0]} != 'ds:Z:'", f"not {tv[0]}.startswith('ds:Z:')"):
                    continue
                if t in (f"{tv[0]} != 'cg:Z:'", f"not {tv[0]}.startswith('cg:Z')", f"not {tv[0]}.startswith('cg:Z:')", f"{tv[0]} != 'cg:Z'"):
                    after = tmpl.show(parts).split("filtered tag loop", 1)[-1]
                    moved = "cg:Z:" in after
                    ctx.violated("R16.4", f.where(loop), f"the writer leaves the CIGAR field out of the loop over the parsed fields (`if {t}`)" + (" and writes it after all of them: a record whose cg:Z is followed by other optional fields (`NM:i:0 cg:Z:10= AS:f:1`) comes out with its fields in another order" if moved else ": the field is dropped from the record"), key_of(f, f"tag-filter:{t}"))
                    continue
                if any(t in (v_, f"{v_} != ''", f"len({v_}) > 0", f"len({v_})", f"bool({v_})", f"{v_} is not None and {v_}") for v_ in vnames):
                    ctx.violated("R16.4", f.where(loop), f"the writer skips every field whose value is empty (`if {t}`): a well-formed field such as `co:Z:` with an empty string is not reproduced", key_of(f, f"tag-filter:{t}"))
                else:
                    raise AnalysisError("R16.4", f.where(loop), f"the writer filters the fields with `{t}`: cannot decide which well-formed fields it drops")
        kvars = [norm(e) for e in (loop.target.elts if isinstance(loop.target, ast.Tuple) else [loop.target])]
        k = kvars[0]
        vals = {f"{base}[{k}]"} | ({kvars[1]} if len(kvars) > 1 else set())
        shape_ok = len(body) == 3 and body[0] == ("lit", "\t") and body[1][0] == "hole" and norm(body[1][1]) == k and body[2][0] == "hole" and norm(body[2][1]) in vals
        if any(x[0] == "opaque" for x in body):
            raise AnalysisError("R16.4", f.where(loop), f"what the loop over the parsed fields writes is not a string template this rule reads (`{tmpl.show(body)[:70]}`)")
        if key_colon:
            ctx.check(shape_ok, "R16.4", f.where(loop), "each field is written as TAB key value with nothing between key and value (the stored key already ends with ':')", key_of(f, f"tag-spelling:{tmpl.show(body)}"), template=tmpl.show(body))
        else:
            ok2 = len(body) == 4 and body[0] == ("lit", "\t") and body[2] == ("lit", ":")
            ctx.check(ok2, "R16.4", f.where(loop), "each field is written as TAB key ':' value (the stored key has no trailing ':')", key_of(f, f"tag-spelling:{tmpl.show(body)}"), template=tmpl.show(body))
        # nothing but the tag repetition (and a final newline) after column 12
        idx = parts.index(r)
        cols_before = tmpl.columns(parts[:idx])
        tail = parts[idx + 1 :]
        tail_ok = all(x[0] == "lit" and x[1].strip("\n") == "" for x in tail)
        extra_cols = cols_before[12:] if len(cols_before) > 12 else []
        if f.module.name.endswith("phase"):
            continue  # C20 decides the ps/ht columns of phase
        ctx.check(len(cols_before) == 12 and tail_ok, "R16.5", where, "after the twelve mandatory columns the writer emits the parsed fields and nothing else", key_of(f, f"extra-columns:{[tmpl.show(c) for c in extra_cols]}:{tmpl.show(tail)}"), extra=[tmpl.show(c) for c in extra_cols], tail=tmpl.show(tail))


ALLOWED_REWRITE_MODULES = {"gaftools.cli.realign"}


def r16_5(ctx, extras, schema):
    """Stores into / deletions from a parsed record's tag mapping outside the parser."""
    repo = ctx.repo
    tags_attr = extras["tags_attr"]
    cigar_attr = extras["cigar_attr"]
    n = 0
    from .common import record_params

    for f in repo.all_funcs():
        if f.qualname == "GAF.parse_gaf_line":
            continue
        recs = record_params(f, schema) | ({"self"} if f.cls == extras["class"] else set())
        if f.module.name not in ("gaftools.gfa", "gaftools.cli.order_gfa", "gaftools.utils"):
            # helpers that receive a parsed record and touch only its fields (e.g. a shared 'append the tags' helper)
            for p_ in f.params:
                if any(isinstance(x, ast.Attribute) and isinstance(x.value, ast.Name) and x.value.id == p_ and x.attr == extras["cigar_attr"] for x in walk_own(f.node)):
                    recs.add(p_)
        if not recs:
            continue
        allowed_bases = {f"{r}.{tags_attr}" for r in recs}
        for st in walk_own(f.node):
            tgt = None
            if isinstance(st, ast.Call) and isinstance(st.func, ast.Attribute):
                tgt = norm(st.func.value)
            elif isinstance(st, ast.Delete):
                tgt = next((norm(t.value) for t in st.targets if isinstance(t, ast.Subscript)), None)
            elif isinstance(st, ast.Assign) and isinstance(st.targets[0], ast.Subscript):
                tgt = norm(st.targets[0].value)
            if tgt not in allowed_bases:
                continue
            # reordering operations
            if isinstance(st, ast.Call) and isinstance(st.func, ast.Attribute) and st.func.attr in ("pop", "popitem", "clear", "move_to_end") and norm(st.func.value).endswith("." + tags_attr):
                n += 1
                ctx.violated("R16.5", f.where(st), f"`{norm(st)[:60]}` removes an entry from the record's tag mapping: the field is lost or, if re-inserted, moves to the end (order not preserved)", key_of(f, f"tags-pop:{norm(st)[:80]}"))
            if isinstance(st, ast.Delete) and any(isinstance(t, ast.Subscript) and norm(t.value).endswith("." + tags_attr) for t in st.targets):
                n += 1
                ctx.violated("R16.5", f.where(st), f"`{norm(st)[:60]}` deletes a parsed field", key_of(f, f"tags-del:{norm(st)[:80]}"))
            if isinstance(st, ast.Assign) and isinstance(st.targets[0], ast.Subscript) and norm(st.targets[0].value).endswith("." + tags_attr):
                n += 1
                t = st.targets[0]
                rec = norm(t.value)[: -len(tags_attr) - 1]
                key = const_value(t.slice, None)
                if key is None:
                    ctx.violated("R16.5", f.where(st), f"store into the tag mapping under a computed key `{norm(t.slice)}`", key_of(f, f"tags-store:{norm(st)[:80]}"))
                    continue
                if f.module.name in ALLOWED_REWRITE_MODULES and key == "cg:Z:":
                    ctx.holds("R16.5", f.where(st), "realign rewrites the CIGAR field (documented exception)")
                    continue
                # must be dominated by evidence that the key was parsed
                from .c09 import guards_of

                g = guards_of(f.node, st)
                # a helper's boolean parameter in the guard is not evidence, the key test is
                ev = False
                for tt, pol in g:
                    for sub in conj(tt) if pol else []:
                        s = norm(sub)
                        if s in (f"'{key}' in {rec}.{tags_attr}", f"{rec}.{cigar_attr}") and key == "cg:Z:":
                            ev = True
                        if s == f"'{key}' in {rec}.{tags_attr}":
                            ev = True
                ctx.check(ev, "R16.5", f.where(st), f"`{norm(t)}` is rewritten only when the record had that field (no invented optional field)", key_of(f, f"tags-store:{norm(st)[:80]}:{[norm(x) for x, _ in g]}"), guards=[(norm(x), pol) for x, pol in g])
    ctx.require_count("R16.5", n, 2, "gaftools/", "stores into a parsed record's tag mapping outside the parser")


def conj(t):
    if isinstance(t, ast.BoolOp) and isinstance(t.op, ast.And):
        out = []
        for v in t.values:
            out += conj(v)
        return out
    return [t]


def r16_7(ctx, schema, extras):
    repo = ctx.repo
    f = repo.find_func("gaftools.gaf", f"{extras['class']}.__str__")
    if f is None:
        raise AnalysisError("R16.7", "gaftools/gaf.py", "the parsed record has no __str__ (view prints records through it)")
    ctx.analysed_func(f)
    _, _, ems = emit.find_emitters(ctx, "R16.7")
    mine = [(ff, rec, n) for ff, rec, n in ems if same_func(ff, f)]
    ctx.require_count("R16.7", len(mine), 1, f.where(), "12-column template in the record's __str__")
    ff, rec, n = mine[0]
    st, var, handle, region, out = emit.templates_of(ctx, ff, rec, n, extras["tags_attr"], "R16.7")
    for p, parts in out[:1]:
        cols = tmpl.columns([x for x in parts if x[0] != "rep"])
        bad = None
        for i in range(12):
            c = cols[i] if i < len(cols) else []
            ok = len(c) == 1 and c[0][0] == "hole" and isinstance(c[0][1], ast.Attribute) and norm(c[0][1].value) == rec and schema.get(c[0][1].attr) == i
            if not ok:
                if len(cols) < 12 or any(x[0] == "hole" and isinstance(x[1], ast.Call) for x in c):
                    raise AnalysisError("R16.7", f.where(st), f"the returned string is assembled in a way this rule does not read as twelve columns (`{tmpl.show(c)[:60]}`)")
                bad = (i + 1, tmpl.show(c))
                break
        ctx.check(bad is None, "R16.7", f.where(st), "the plain re-serialiser writes the twelve parsed columns, each from its own attribute, in schema order", key_of(f, f"str-columns:{bad}"), **({"column": bad[0], "found": bad[1]} if bad else {}))
    # the one documented transformation of the read name
    pf = repo.func("gaftools.gaf", "GAF.parse_gaf_line")
    qn = [s for s in walk_own(pf.node) if isinstance(s, ast.Assign) and norm(s.targets[0]) == "query_name"]
    if qn:
        ok = norm(qn[0].value) in (f"{extras['fields_var']}[0].split(' ')[0]", f"{extras['fields_var']}[0].split(' ', 1)[0]", f"{extras['fields_var']}[0]")
        ctx.check(ok, "R16.7", pf.where(qn[0]), "the read name is column 1 cut at its first space and nothing else", key_of(pf, f"query-name:{norm(qn[0].value)}"))


def r16_8(ctx, extras):
    """(a) every parsed record owns its field mapping: the mapping handed to the record constructor is created inside
    the call that parses the line (a dict display / dict() / comprehension bound to a local), never an attribute of the
    reader or a module-level object that the next line would overwrite; (b) the columns scanned for fields are the
    pieces of the tab split, untouched: the column list is assigned only from the split."""
    from ..core import local_defs, tail_inlined

    repo = ctx.repo
    pf0 = repo.func("gaftools.gaf", "GAF.parse_gaf_line", "R16.8")
    pf = tail_inlined(repo, pf0)
    ld = local_defs(pf.node)
    ret = None
    for n in walk_own(pf.node):
        if isinstance(n, ast.Return) and isinstance(n.value, ast.Call):
            ctor = repo.resolve_call(pf, n.value)
            if ctor is not None and ctor.name == "__init__":
                ret = (n.value, ctor)
    if ret is None:
        raise AnalysisError("R16.8", pf.where(), "parser does not return a constructed record")
    call, ctor = ret
    params = ctor.params[1:]
    amap = {p_: a for p_, a in zip(params, call.args)}
    for k in call.keywords:
        amap[k.arg] = k.value
    targ = amap.get("tags")
    if targ is None:
        raise AnalysisError("R16.8", pf.where(call), "the record constructor is not given a tags argument")

    def origin(e, depth=0):
        """-> list of (kind, text): 'fresh' for a dict created in this call, 'shared' for attributes / globals"""
        if isinstance(e, ast.Dict) or isinstance(e, ast.DictComp) or (isinstance(e, ast.Call) and norm(e.func) in ("dict", "OrderedDict", "collections.OrderedDict") and not e.args):
            return [("fresh", norm(e)[:40])]
        if isinstance(e, ast.Name) and depth < 4:
            ds = [d for d in ld.get(e.id, [])]
            if not ds:
                return [("shared", f"{e.id} (not a local of the parsing call)")]
            out = []
            for d in ds:
                out += origin(d, depth + 1) if d is not None else [("unknown", e.id)]
            return out
        if isinstance(e, ast.Attribute) and depth < 4:
            # field of a local namedtuple / result object built in this call
            if isinstance(e.value, ast.Name):
                ds = [d for d in ld.get(e.value.id, []) if d is not None]
                if len(ds) == 1 and isinstance(ds[0], ast.Call):
                    c = ds[0]
                    nt = pf.module.consts.get(norm(c.func))
                    if isinstance(nt, ast.Call) and norm(nt.func).endswith("namedtuple") and len(nt.args) >= 2 and isinstance(nt.args[1], (ast.List, ast.Tuple)):
                        fields = [const_value(x) for x in nt.args[1].elts]
                        vals = dict(zip(fields, c.args))
                        for k in c.keywords:
                            vals[k.arg] = k.value
                        if e.attr in vals:
                            return origin(vals[e.attr], depth + 1)
            return [("shared", norm(e))]
        if isinstance(e, ast.Call):
            return [("unknown", norm(e)[:40])]
        return [("unknown", norm(e)[:40])]

    org = origin(targ)
    shared = [t for k, t in org if k == "shared"]
    unknown = [t for k, t in org if k == "unknown"]
    if unknown and not shared:
        raise AnalysisError("R16.8", pf.where(call), f"cannot tell where the record's field mapping is created: {unknown}")
    ctx.check(not shared, "R16.8", pf.where(call), "every parsed record owns its field mapping (created in the call that parses the line): a mapping kept on the reader and reused would make earlier records of the same reader show the fields of the last line parsed", key_of(pf, f"tags-origin:{shared}"), origin=org)
    # (b) the column list
    fv = extras["fields_var"]
    defs = [d for d in ld.get(fv, [])]
    bad = [norm(d)[:60] if d is not None else "<loop/augmented>" for d in defs if not (d is not None and isinstance(d, ast.Call) and isinstance(d.func, ast.Attribute) and d.func.attr == "split" and d.args and const_value(d.args[0]) == "\t")]
    ctx.check(bool(defs) and not bad, "R16.8", pf.where(), "the columns scanned for optional fields are the pieces of the tab split themselves (no per-column rewriting between the split and the field loop)", key_of(pf, f"columns-rewritten:{bad}"), other_definitions=bad)
