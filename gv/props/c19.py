"""C19 — stat reports numbers that match their definitions.

R19.1  the primary predicate: (a) every constant compared with the stored tag key belongs to the
       language of the capture group that produces the key; (b) decision table of the parser's
       is_primary over tp:A values {P, p, S, I, i, other} and of stat's secondary test over
       (is_primary, mapping quality <0/0/>0)
R19.2  total = primary + secondary: every path through one record increments exactly one of the two
       counters by one; the total is the 1-based enumerate counter of the same loop
R19.3  primary-only figures: no accumulator other than the secondary counter changes on a secondary path
R19.4  order invariance: every loop-carried accumulator is updated only through a commutative form
       (+= of a per-record value; insert-if-absent + guarded maximum evaluated on *every* path)
R19.5  CIGAR runs: (length, op) pairs by a stride-2 walk; one counter per op letter; labels agree
"""

from __future__ import annotations

import ast
import re

from ..core import AnalysisError, const_value, norm, walk_own, walk_stmts, names_in
from ..paths import enum_paths, canon_test
from .. import ordtab, relang, tmpl
from .common import key_of, gaf_schema

META = {
    "explanation": "Static decision of gaftools stat's counting discipline: the parser's primary flag and stat's secondary test are evaluated on the "
    "complete finite table of tp:A values and mapping-quality signs (and the constant the parser compares the stored tag key with is "
    "checked for membership in the language of the regular-expression group that produces the key); all control-flow paths through one "
    "record of the stat loop are enumerated to show that exactly one of the two counters is incremented, that a secondary record touches "
    "nothing else, and that each accumulator is updated in a commutative-associative way on every path (sum, or insert-if-absent plus a "
    "maximum whose guard is evaluated on every path), which gives invariance under record reordering; the CIGAR run counters are tied to "
    "their operation letters and report labels.",
    "technique": "static analysis: finite decision tables, regex-language membership, loop-iteration path enumeration, accumulator effect classification",
    "exhaustive": True,
}

TP_VALUES = ["P", "p", "S", "I", "i", "s", "X", ""]


def check(ctx):
    ctx.run(r19_1_parser)
    st = stat_model(ctx)
    ctx.run(r19_1_stat, st)
    ctx.run(r19_2_3, st)
    ctx.run(r19_4, st)
    ctx.run(r19_5, st)
    ctx.run(r19_6, st)
    ctx.run(r19_7, st)
    ctx.run(r19_8, st)
    ctx.run(r19_9, st)
    ctx.not_decided.append("floating-point rounding of the two averages (summation order can change the last digits before round())")
    # mechanisms this property rests on (see shared.py): a change there is reported here as well
    from . import shared as _sh

    ctx.run_shared(_sh.gaf_reader)
    ctx.run_shared(_sh.tag_parser)
    ctx.run_shared(_sh.cli_layer, "gaftools.cli.stat")


# ---------------------------------------------------------------------------------------------
# parser side
# ---------------------------------------------------------------------------------------------


def _is_regex_call(c, mod):
    """re.match/fullmatch/search/findall(PATTERN, x)  or  COMPILED.match/fullmatch/search/findall(x)."""
    if not isinstance(c, ast.Call):
        return False
    fn = norm(c.func)
    if fn in ("re.match", "re.fullmatch", "re.findall", "re.search"):
        return True
    if isinstance(c.func, ast.Attribute) and c.func.attr in ("match", "fullmatch", "findall", "search") and isinstance(c.func.value, ast.Name):
        d = mod.consts.get(c.func.value.id)
        return isinstance(d, ast.Call) and norm(d.func) == "re.compile"
    return False


def gate_value(t, pol, match_vars, mod):
    """None when test `t` is not the well-formedness gate of the tag loop; otherwise whether the field matched on the
    branch taken with polarity `pol` (`if m:`, `if not m:`, `if m is None:`, `if m is not None:` ...)."""
    e, p = t, pol
    while True:
        if isinstance(e, ast.UnaryOp) and isinstance(e.op, ast.Not):
            e, p = e.operand, not p
        elif isinstance(e, ast.Compare) and len(e.ops) == 1 and isinstance(e.comparators[0], ast.Constant) and e.comparators[0].value is None:
            if isinstance(e.ops[0], (ast.Is, ast.Eq)):
                p = not p
            e = e.left
        else:
            break
    mentions = (names_in(e) & set(match_vars)) or any(_is_regex_call(c, mod) or (isinstance(c, ast.Call) and norm(c.func).startswith("re.")) for c in ast.walk(e))
    return p if mentions else None


def tag_loop(ctx, rule):
    """The loop over the optional fields of a GAF line: in GAF.parse_gaf_line, or in a helper it calls.
    Returns (function containing the loop, loop).  The function object carries .optional_arg: the expression the
    caller passes for the iterated parameter (None when the loop is in the parser itself)."""
    repo = ctx.repo
    pf = repo.func("gaftools.gaf", "GAF.parse_gaf_line", rule)
    ctx.analysed_func(pf)
    from ..core import plain_statements

    cands = []
    for f in [plain_statements(pf)] + [plain_statements(h) for c in walk_own(pf.node) if isinstance(c, ast.Call) for h in [repo.resolve_call(pf, c)] if h is not None and h.module is pf.module and h is not pf]:
        for n in f.node.body:
            if isinstance(n, ast.For) and any(_is_regex_call(c, f.module) for c in ast.walk(n)):
                cands.append((f, n))
    if len(cands) != 1:
        if not cands:
            # the fields are gated by a validator of another module: is it the strict per-type SAM grammar?
            for n in pf.node.body:
                if isinstance(n, ast.For):
                    for t in ast.walk(n):
                        if isinstance(t, ast.Call):
                            h = repo.resolve_call(pf, t)
                            if h is not None and h.module is not pf.module and any(isinstance(x, ast.Subscript) and isinstance(x.value, ast.Name) and isinstance(h.module.consts.get(x.value.id), ast.Dict) for x in ast.walk(h.node)) and norm(n.target) in {norm(a) for a in t.args}:
                                ctx.violated("R16.1", pf.where(t), f"optional fields are kept only if `{h.qualname}` accepts them: that is the strict per-type value grammar (types_regex), so a printable value such as `de:f:nan` or a lower-case hex array is dropped instead of being carried through", key_of(pf, f"strict-validator:{h.qualname}"))
            # ... or cut by hand: a field split on ':' without a bound loses (or rejects) every value that contains ':'
            for n in pf.node.body:
                if isinstance(n, ast.For):
                    for c in ast.walk(n):
                        if isinstance(c, ast.Call) and isinstance(c.func, ast.Attribute) and c.func.attr in ("split", "rsplit") and c.args and const_value(c.args[0]) == ":" and norm(c.func.value) == norm(n.target):
                            bound = const_value(c.args[1], None) if len(c.args) > 1 else next((const_value(k.value) for k in c.keywords if k.arg == "maxsplit"), None)
                            if not (c.func.attr == "split" and bound == 2):
                                ctx.violated("R16.1", pf.where(c), f"an optional field is cut with `{norm(c)}`: ':' belongs to the value language (Z values such as times, regions, URLs), so a field whose value contains ':' is mis-split and dropped", key_of(pf, f"tag-split-unbounded:{norm(c)}"))
        raise AnalysisError(rule, pf.where(), f"expected one loop over the optional fields using a regular expression, found {len(cands)}")
    f, loop = cands[0]
    f._repo_modules = repo.modules
    f.optional_arg = None
    if f is not pf:
        ctx.analysed_func(f)
        for c in walk_own(pf.node):
            if isinstance(c, ast.Call) and repo.resolve_call(pf, c) is f and isinstance(loop.iter, ast.Name):
                params = f.params[1:] if (f.cls and not any(norm(d) == "staticmethod" for d in f.node.decorator_list)) else f.params
                if loop.iter.id in params and params.index(loop.iter.id) < len(c.args):
                    f.optional_arg = c.args[params.index(loop.iter.id)]
    return f, loop


def tag_regex_info(pf, loop, rule):
    """The regex that gates/captures a tag, the variable holding the key and the variable holding the value."""
    info = {"patterns": [], "splits": []}
    for c in ast.walk(loop):
        if isinstance(c, ast.Call) and norm(c.func) in ("re.match", "re.fullmatch", "re.findall", "re.search") and c.args:
            pat = None
            if isinstance(c.args[0], ast.Constant):
                pat = c.args[0].value
            elif isinstance(c.args[0], (ast.Name, ast.Attribute)):
                pat = _lookup_module_const(pf, norm(c.args[0]))
            if isinstance(pat, str):
                info["patterns"].append((norm(c.func), pat, c))
        elif isinstance(c, ast.Call) and _is_regex_call(c, pf.module) and c.args:
            d = pf.module.consts.get(c.func.value.id)
            if d.args and isinstance(d.args[0], ast.Constant) and isinstance(d.args[0].value, str):
                # normalise to the re.<fn>(pattern, subject) shape the rules look at
                shim = ast.Call(func=ast.Attribute(value=ast.Name(id="re", ctx=ast.Load()), attr=c.func.attr, ctx=ast.Load()), args=[d.args[0]] + list(c.args), keywords=[])
                ast.copy_location(shim, c)
                info["patterns"].append(("re." + c.func.attr, d.args[0].value, shim))
        if isinstance(c, ast.Call) and isinstance(c.func, ast.Attribute) and c.func.attr in ("split", "rsplit", "partition") and c.args and const_value(c.args[0]) == ":" and norm(c.func.value) == norm(loop.target):
            info["splits"].append(c)
    if not info["patterns"]:
        raise AnalysisError(rule, pf.where(loop), "no constant regular expression in the tag loop")
    # key/value variables: `key, val = m.groups()` or findall(...)[0] assignments
    key_var = val_var = None
    for st in walk_stmts(loop.body):
        if isinstance(st, ast.Assign) and isinstance(st.targets[0], ast.Tuple) and len(st.targets[0].elts) >= 2 and isinstance(st.value, ast.Call) and isinstance(st.value.func, ast.Attribute) and st.value.func.attr == "groups":
            key_var, val_var = norm(st.targets[0].elts[0]), norm(st.targets[0].elts[-1])
            info["groups_stmt"] = st
            if len(st.targets[0].elts) == 3:
                # name, type, value captured separately; the key is put together from the first two: key = "%s:%s:" % (name, type)
                nm, ty = norm(st.targets[0].elts[0]), norm(st.targets[0].elts[1])
                for st2 in walk_stmts(loop.body):
                    if isinstance(st2, ast.Assign) and isinstance(st2.targets[0], ast.Name) and st2 is not st and isinstance(st2.value, ast.BinOp) and isinstance(st2.value.op, ast.Mod) and isinstance(st2.value.left, ast.Constant) and isinstance(st2.value.right, ast.Tuple) and [norm(e) for e in st2.value.right.elts] == [nm, ty]:
                        key_var = norm(st2.targets[0])
                        info["key_built"] = st2
                        info["key_from_groups"] = (1, 2)
    if key_var is None:
        # findall idiom: pattern = re.findall(r"(KEY)...", k)[0] ; val = re.findall(r"...(VAL)", k)[0]
        for st in walk_stmts(loop.body):
            if isinstance(st, ast.Assign) and isinstance(st.targets[0], ast.Name) and isinstance(st.value, ast.Subscript) and isinstance(st.value.value, ast.Call) and norm(st.value.value.func) == "re.findall":
                pat = st.value.value.args[0].value if isinstance(st.value.value.args[0], ast.Constant) else ""
                # group at the start => key ; group at the end => value
                if pat.startswith("("):
                    key_var = key_var or norm(st.targets[0])
                    info["key_pattern"] = pat
                else:
                    val_var = norm(st.targets[0])
    if key_var is None and info["splits"]:
        # split idiom: name, type, value = field.split(":" ...) ; key = "%s:%s:" % (name, type)
        for st in walk_stmts(loop.body):
            if isinstance(st, ast.Assign) and isinstance(st.targets[0], ast.Tuple) and len(st.targets[0].elts) == 3 and any(x is info["splits"][0] for x in ast.walk(st.value)):
                nm, ty, val_var = [norm(e) for e in st.targets[0].elts]
                for st2 in walk_stmts(loop.body):
                    if isinstance(st2, ast.Assign) and isinstance(st2.targets[0], ast.Name) and nm in names_in(st2.value) and ty in names_in(st2.value) and st2 is not st:
                        key_var = norm(st2.targets[0])
                        info["key_built"] = st2
    info["key_var"], info["val_var"] = key_var, val_var
    return info


def _lookup_module_const(f, name):
    """String value of a module-level constant referenced as NAME or alias.NAME (None if not a string constant)."""
    mod = f.module
    d = mod.consts.get(name)
    if d is None and "." in name:
        alias, attr = name.split(".", 1)
        tgt = mod.imports.get(alias)
        repo_mods = getattr(f, "_repo_modules", None)
        if tgt and repo_mods and tgt in repo_mods:
            d = repo_mods[tgt].consts.get(attr)
    if isinstance(d, ast.Constant) and isinstance(d.value, str):
        return d.value
    return None


def key_group_items(info):
    """regex items of the group that produces the stored key."""
    if info.get("key_built") is not None and info.get("key_from_groups"):
        # the key is a format over two capture groups: its language is the concatenation of theirs and the literal pieces
        fmt = info["key_built"].value.left.value
        pat = next((p for fn, p, c in info["patterns"] if p.count("(") >= 2), None)
        if pat is None or fmt.count("%s") != 2 or "%" in fmt.replace("%s", ""):
            return None
        g = relang.groups(relang.flatten(relang.parse(pat)))
        pieces = fmt.split("%s")
        items = []
        for i_, lit in enumerate(pieces):
            items += [("char", {ord(ch)}) for ch in lit]
            if i_ < 2:
                gi = g.get(info["key_from_groups"][i_])
                if gi is None:
                    return None
                items += list(gi)
        return items
    if info.get("key_built") is not None:
        v = info["key_built"].value
        fmt = None
        if isinstance(v, ast.BinOp) and isinstance(v.op, ast.Mod) and isinstance(v.left, ast.Constant):
            fmt = v.left.value
        if fmt == "%s:%s:":
            return relang.flatten(relang.parse("[A-Za-z][A-Za-z0-9]:[AifZHB]:"))
        return relang.flatten(relang.parse("[A-Za-z][A-Za-z0-9]:[AifZHB]"))
    pat = info.get("key_pattern")
    gid = 1
    if pat is None:
        for fn, p, c in info["patterns"]:
            if p.count("(") >= 1:
                pat = p
                break
    if pat is None:
        return None
    items = relang.flatten(relang.parse(pat))
    g = relang.groups(items)
    return g.get(gid)


def _member_of_const(t, env, atom_of, mod):
    """value of `atom in NAME` / `atom not in NAME` where NAME is a module-level literal collection of constants
    (frozenset({...}), a set / tuple / list display), else None"""
    if not (isinstance(t, ast.Compare) and len(t.ops) == 1 and isinstance(t.ops[0], (ast.In, ast.NotIn))):
        return None
    a = atom_of(t.left)
    c = t.comparators[0]
    if a is None:
        return None
    d = mod.consts.get(c.id) if isinstance(c, ast.Name) else c
    if isinstance(d, ast.Call) and isinstance(d.func, ast.Name) and d.func.id in ("frozenset", "set", "tuple", "list") and len(d.args) == 1:
        d = d.args[0]
    if isinstance(d, (ast.Set, ast.Tuple, ast.List)) and all(isinstance(x, ast.Constant) for x in d.elts):
        inside = env[a] in {x.value for x in d.elts}
        return inside if isinstance(t.ops[0], ast.In) else not inside
    return None


def r19_1_parser(ctx):
    pf, loop = tag_loop(ctx, "R19.1")
    info = tag_regex_info(pf, loop, "R19.1")
    kv, vv = info["key_var"], info["val_var"]
    if kv is None or vv is None:
        raise AnalysisError("R19.1", pf.where(loop), "cannot identify the variables holding the tag key and the tag value")
    gitems = key_group_items(info)
    if gitems is None:
        raise AnalysisError("R19.1", pf.where(loop), "cannot find the capture group producing the tag key")
    # (a) every string constant compared with the key variable must be in the group's language
    n_cmp = 0
    for n in ast.walk(loop):
        if isinstance(n, ast.Compare) and norm(n.left) == kv:
            for op, c in zip(n.ops, n.comparators):
                consts = [c] if isinstance(c, ast.Constant) else (list(c.elts) if isinstance(c, (ast.Tuple, ast.List, ast.Set)) else [])
                for k in consts:
                    if isinstance(k.value, str):
                        n_cmp += 1
                        ok = relang.matches(gitems, k.value, full=True)
                        ctx.check(ok, "R19.1", pf.where(n), f"constant {k.value!r} compared with the stored tag key can be produced by the key capture group (otherwise the comparison is dead)", key_of(pf, f"key-const:{k.value}"), constant=k.value)
    ctx.require_count("R19.1", n_cmp, 2, pf.where(loop), "comparisons of the stored tag key with constants")
    # (b) decision table of is_primary
    # the flag handed to the record as is_primary: `flag` itself, or `not flag` when the parser tracks "secondary" instead
    mark_val = False
    flag_name = None
    for r_ in walk_own(pf.node):
        if isinstance(r_, ast.Return) and isinstance(r_.value, ast.Call):
            ctor_ = ctx.repo.resolve_call(pf, r_.value)
            if ctor_ is not None and ctor_.name == "__init__" and "is_primary" in ctor_.params:
                ba_ = ctx.repo.bound_args(pf, r_.value) or {}
                a_ = ba_.get("is_primary")
                if isinstance(a_, ast.Name):
                    flag_name = a_.id
                elif isinstance(a_, ast.UnaryOp) and isinstance(a_.op, ast.Not) and isinstance(a_.operand, ast.Name):
                    flag_name, mark_val = a_.operand.id, True
    prim_false = [st for st in walk_stmts(loop.body) if isinstance(st, ast.Assign) and isinstance(st.value, ast.Constant) and st.value.value is mark_val and isinstance(st.targets[0], ast.Name) and (flag_name is None or st.targets[0].id == flag_name)]
    prim_var = None
    for st in prim_false:
        prim_var = norm(st.targets[0])
    if prim_var is None:
        ctx.violated("R19.1", pf.where(loop), "the parser never marks a record as not primary", key_of(pf, "no-primary-false"))
        return
    init = [st for st in pf.node.body if isinstance(st, ast.Assign) and norm(st.targets[0]) == prim_var]
    ctx.check(len(init) == 1 and const_value(init[0].value) is (not mark_val), "R19.1", pf.where(), "records are primary unless a tp:A tag says otherwise (flag initialised True once per record)", key_of(pf, "primary-init"))
    others = [st for st in walk_stmts(loop.body) if isinstance(st, ast.Assign) and norm(st.targets[0]) == prim_var and st not in prim_false]
    ctx.check(not others, "R19.1", pf.where(loop), "the primary flag is never set back to True by a later field", key_of(pf, "primary-reset"))
    paths = enum_paths(loop.body, rule="R19.1", where=pf.where(loop))
    match_vars = set()
    for st in walk_stmts(loop.body):
        if isinstance(st, ast.Assign) and _is_regex_call(st.value, pf.module):
            match_vars.add(norm(st.targets[0]))

    def atom_of(e):
        s = norm(e)
        if s == kv:
            return "key"
        if s == vv:
            return "val"
        return None

    rows = []
    bad = None
    for key in ("tp:A:", "NM:i:", "tp:Z:", "cg:Z:"):
        for val in TP_VALUES:
            env = {"key": key, "val": val}
            outcomes = set()
            for p in paths:
                consistent = True
                for t, pol in p.tests():
                    gv_ = gate_value(t, pol, match_vars, pf.module)
                    if gv_ is not None:
                        # the well-formedness gate (decided by C16's grammar rules): the table is over well-formed fields
                        if gv_ is not True:
                            consistent = False
                        continue
                    try:
                        v = _member_of_const(t, env, atom_of, pf.module)
                        if v is None:
                            v = ordtab.Evaluator(env, atom_of).truth(t)
                    except ordtab.Unsupported as ex_:
                        mentioned = {norm(x) for x in ast.walk(t) if isinstance(x, (ast.Name, ast.Attribute, ast.Subscript))}
                        if vv in mentioned or (kv in mentioned and not (isinstance(t, ast.Compare) and isinstance(t.ops[0], (ast.In, ast.NotIn)))):
                            raise AnalysisError("R19.1", pf.where(loop), f"a test on the field's key / value is outside the fragment of the decision table: `{norm(t)[:60]}` ({ex_})")
                        continue  # condition on something else (e.g. `key not in tags`): both outcomes possible
                    if v != pol:
                        consistent = False
                        break
                if consistent:
                    outcomes.add(any(s in prim_false for s in p.stmts()))
            want = key == "tp:A:" and val != "P"
            rows.append((key, val, sorted(outcomes)))
            if outcomes != {want} and bad is None:
                bad = {"tag": key + val, "marks_not_primary": sorted(outcomes), "required": want}
    ctx.check(bad is None, "R19.1", pf.where(loop), "decision table of the primary flag: a field marks the record not primary exactly when it is tp:A with a value other than P", key_of(pf, f"primary-table:{bad['tag'] if bad else ''}"), rows=len(rows), **({"witness": bad} if bad else {}))


# ---------------------------------------------------------------------------------------------
# stat side
# ---------------------------------------------------------------------------------------------


class StatModel:
    pass


def stat_model(ctx):
    repo = ctx.repo
    mod = repo.module("gaftools.cli.stat", "R19.2")
    m = StatModel()
    m.f = None
    from ..core import desugar_dict_get, expand_table_dispatch, inline_pure_temps, tail_inlined

    def _entry_or_none(f_):
        # `read = reads.get(name); if read is None: ... else: read.x = ...` is the membership test it abbreviates — unless the
        # entry is handed to one of its own methods (`read.update(...)`), which R19.4 follows through the local name
        gets = {st_.targets[0].id for st_ in walk_own(f_.node) if isinstance(st_, ast.Assign) and len(st_.targets) == 1 and isinstance(st_.targets[0], ast.Name) and isinstance(st_.value, ast.Call) and isinstance(st_.value.func, ast.Attribute) and st_.value.func.attr == "get"}
        if any(isinstance(c_, ast.Call) and isinstance(c_.func, ast.Attribute) and isinstance(c_.func.value, ast.Name) and c_.func.value.id in gets for c_ in walk_own(f_.node)):
            return f_
        return desugar_dict_get(f_)

    for f in [inline_pure_temps(_entry_or_none(expand_table_dispatch(tail_inlined(repo, f0)))) for f0 in mod.funcs.values()]:
        for n in f.node.body:
            if isinstance(n, ast.For) and "read_file" in norm(n.iter):
                m.f, m.loop = f, n
    if m.f is None:
        raise AnalysisError("R19.2", mod.relpath, "cannot find the record loop of stat (for ... in <GAF>.read_file())")
    ctx.analysed_func(m.f)
    it = m.loop.iter
    m.enum = isinstance(it, ast.Call) and norm(it.func) == "enumerate"
    if m.enum and isinstance(m.loop.target, ast.Tuple):
        m.count_var, m.rec = [norm(e) for e in m.loop.target.elts]
        m.enum_start = const_value(it.args[1]) if len(it.args) > 1 else next((const_value(k.value) for k in it.keywords if k.arg == "start"), 0)
    else:
        m.count_var, m.rec, m.enum_start = None, norm(m.loop.target), None
    # the secondary guard: the first If of the loop body that ends in continue
    m.sec_if = None
    for st in m.loop.body:
        if isinstance(st, ast.If) and st.body and isinstance(st.body[-1], ast.Continue):
            m.sec_if = st
            break
    if m.sec_if is None:
        raise AnalysisError("R19.2", m.f.where(m.loop), "cannot find the secondary filter (if ...: <count>; continue)")
    m.paths = enum_paths(m.loop.body, expand_loop=lambda n: False, rule="R19.2", where=m.f.where(m.loop))
    # counters
    incs = [st for st in m.sec_if.body if isinstance(st, ast.AugAssign)]
    m.sec_counter = norm(incs[0].target) if len(incs) == 1 else None
    # printed labels
    m.prints = []
    for n in walk_own(m.f.node):
        if isinstance(n, ast.Call) and isinstance(n.func, ast.Name) and n.func.id == "print" and n.args and isinstance(n.args[0], ast.Constant) and isinstance(n.args[0].value, str):
            m.prints.append((n.args[0].value, n.args[1:], n))
    return m


def r19_1_stat(ctx, m):
    f = m.f
    test = m.sec_if.test
    rec = m.rec
    # stat reads the records, it does not edit them: a column stored into before the filter changes what the filter sees
    for st_ in walk_own(f.node):
        tg_ = st_.targets[0] if isinstance(st_, ast.Assign) and len(st_.targets) == 1 else (st_.target if isinstance(st_, ast.AugAssign) else None)
        if isinstance(tg_, ast.Attribute) and norm(tg_.value) == rec and tg_.attr in ("mapping_quality", "is_primary") and any(x_ is st_ for x_ in ast.walk(m.loop)) and f.before(st_, m.sec_if):
            ctx.violated("R19.1", f.where(st_), f"`{norm(st_)[:60]}` changes the record's {tg_.attr} before the secondary filter reads it: records with the replaced value (mapping quality 255 = 'not available' set to 0) change sides of the filter and drop out of primary, reads and aligned bases", key_of(f, f"record-edited-before-filter:{tg_.attr}"))

    def atom_of(e):
        s = norm(e)
        if s == f"{rec}.is_primary":
            return "prim"
        if s == f"{rec}.mapping_quality":
            return "mapq"
        return None

    # options of the command: the table is decided on the default command line (a feasible world of the property)
    dcl = ctx.repo.default_command_line(f)
    used = sorted({n.id for n in ast.walk(test) if isinstance(n, ast.Name) and n.id in dcl and isinstance(dcl[n.id], (int, float)) and not isinstance(dcl[n.id], bool)})
    if used:
        import copy

        class _Sub(ast.NodeTransformer):
            def visit_Name(self, n):
                return ast.copy_location(ast.Constant(value=dcl[n.id]), n) if n.id in used else n

        test = ast.fix_missing_locations(_Sub().visit(copy.deepcopy(test)))
    bad = None
    rows = 0
    for prim in (True, False):
        for env, scale in ordtab.weak_orderings(["mapq"], sorted({0} | {dcl[u] for u in used})):
            env = dict(env)
            rows += 1
            ev = ordtab.Evaluator(env, atom_of, scale, bool_atoms={"prim": prim})
            try:
                v = ev.truth(test)
            except ordtab.Unsupported as e:
                # the filter reads the mapping quality through a helper that replaces some values by a constant (255 "missing" -> 0):
                # records with that value change sides of the filter
                for nm_ in {x_.id for x_ in ast.walk(test) if isinstance(x_, ast.Name)}:
                    for a_ in walk_own(f.node):
                        if isinstance(a_, ast.Assign) and len(a_.targets) == 1 and norm(a_.targets[0]) == nm_ and isinstance(a_.value, ast.Call):
                            h_ = ctx.repo.resolve_call(f, a_.value)
                            if h_ is not None:
                                rets_ = [r_.value for r_ in walk_own(h_.node) if isinstance(r_, ast.Return) and r_.value is not None]
                                if any(isinstance(r_, ast.Constant) and isinstance(r_.value, (int, float)) for r_ in rets_) and any(isinstance(r_, ast.Attribute) and r_.attr == "mapping_quality" for r_ in rets_):
                                    cst_ = next(r_.value for r_ in rets_ if isinstance(r_, ast.Constant))
                                    ctx.violated("R19.1", f.where(m.sec_if), f"the secondary filter tests `{nm_}`, which `{h_.qualname}` sets to {cst_!r} for some mapping qualities instead of the record's own value: primary records with such a mapping quality (255 = not available) are counted as secondary and drop out of reads, aligned bases and the per-read maxima", key_of(f, f"mapq-edited-before-filter:{h_.qualname}"))
                                    return
                from .c09 import guards_of as _gof19

                for nm_ in {x_.id for x_ in ast.walk(test) if isinstance(x_, ast.Name)}:
                    defs_ = [a_ for a_ in walk_own(f.node) if isinstance(a_, ast.Assign) and len(a_.targets) == 1 and norm(a_.targets[0]) == nm_]
                    consts_ = [a_ for a_ in defs_ if isinstance(a_.value, ast.Constant) and isinstance(a_.value.value, (int, float)) and not isinstance(a_.value.value, bool) and any("mapping_quality" in norm(t_) for t_, _p in _gof19(f.node, a_))]
                    if consts_ and any(isinstance(a_.value, ast.Attribute) and a_.value.attr == "mapping_quality" for a_ in defs_):
                        g_ = [norm(t_) for t_, _p in _gof19(f.node, consts_[0]) if "mapping_quality" in norm(t_)][0]
                        ctx.violated("R19.1", f.where(m.sec_if), f"the secondary filter tests `{nm_}`, which is set to {consts_[0].value.value!r} when `{g_[:50]}` instead of the record's own mapping quality: primary records with such a mapping quality (255 = not available) are counted as secondary and drop out of reads, aligned bases and the per-read maxima", key_of(f, f"mapq-edited-before-filter:{nm_}"))
                        return
                raise AnalysisError("R19.1", f.where(m.sec_if), f"secondary test outside the fragment: {e}")
            mq = env["mapq"]
            if mq < 0:
                continue  # mapping quality is a non-negative column
            want = (not prim) or mq == 0
            if v != want:
                bad = {"is_primary": prim, "mapq_sign": (mq > 0) - (mq < 0), "secondary": v, "required": want, **({"default_command_line": {u: dcl[u] for u in used}} if used else {})}
    ctx.check(bad is None, "R19.1", f.where(m.sec_if), "decision table of the secondary test: secondary exactly when the record is not primary or has mapping quality 0", key_of(f, f"secondary-table:{norm(test)}"), rows=rows, **({"witness": bad} if bad else {}))


def r19_2_3(ctx, m):
    f = m.f
    # primary counter: incremented by 1 on non-secondary paths, printed under a 'Primary' label
    prim_counter = None
    for label, args, n in m.prints:
        if "rimary" in label and args:
            prim_counter = norm(args[0])
    sec_print = None
    for label, args, n in m.prints:
        if "econdary" in label and args:
            sec_print = norm(args[0])
    total_print = None
    for label, args, n in m.prints:
        if label.lower().startswith("total alignments") and args:
            total_print = norm(args[0])
    if prim_counter is None or m.sec_counter is None:
        raise AnalysisError("R19.2", f.where(m.loop), "cannot identify the primary/secondary counters")
    ctx.check(sec_print == m.sec_counter, "R19.2", f.where(), "the figure printed as secondary is the counter incremented by the secondary filter", key_of(f, f"secondary-print:{sec_print}"), printed=sec_print, counter=m.sec_counter)
    ok_total = m.enum and isinstance(m.enum_start, int) and total_print in ((m.count_var,) if m.enum_start == 1 else (f"{m.count_var} + {1 - m.enum_start}", f"{1 - m.enum_start} + {m.count_var}") if m.enum_start < 1 else ())
    ctx.check(ok_total, "R19.2", f.where(m.loop), "the total printed is the 1-based enumerate counter of the record loop (number of records)", key_of(f, f"total:{total_print}:{m.enum_start}"), printed=total_print, start=m.enum_start)
    bad = None
    bad3 = None
    accs = accumulators(m)
    for p in m.paths:
        if p.term not in ("fall", "continue"):
            bad = (p, f"record loop left by {p.term}")
            break
        incs = {}
        for e in p.events:
            if e.kind == "stmt" and isinstance(e.node, ast.AugAssign) and norm(e.node.target) in (prim_counter, m.sec_counter):
                k = norm(e.node.target)
                incs[k] = incs.get(k, 0) + (1 if (isinstance(e.node.op, ast.Add) and const_value(e.node.value) == 1) else 99)
        if sum(incs.values()) != 1:
            bad = (p, f"counters incremented: {incs}")
            break
        sec_taken = any(e.kind == "test" and e.node is m.sec_if.test and e.pol for e in p.events)
        if sec_taken != (m.sec_counter in incs):
            bad = (p, "the counter incremented does not match the outcome of the secondary test")
            break
        if sec_taken:
            touched = [norm(e.node)[:60] for e in p.events if e.kind in ("stmt", "loop") and writes_any(e.node, accs - {m.sec_counter})]
            if touched:
                bad3 = (p, touched)
    ctx.check(bad is None, "R19.2", f.where(m.loop), "every path through one record increments exactly one of {primary, secondary} by one, according to the secondary test", key_of(f, f"one-counter:{bad[1] if bad else ''}"), paths=len(m.paths), **({"path": bad[0].show(), "why": bad[1]} if bad else {}))
    ctx.check(bad3 is None, "R19.3", f.where(m.sec_if), "a secondary record changes no figure other than the secondary count (reads, aligned bases, identities, CIGAR counts are primary-only)", key_of(f, "secondary-touches"), **({"path": bad3[0].show(), "touched": bad3[1]} if bad3 else {}))
    # nothing that feeds a primary-only figure is updated before the filter
    idx = m.loop.body.index(m.sec_if)
    early = [norm(st)[:60] for st in walk_stmts(m.loop.body[:idx]) if writes_any(st, accs)]
    ctx.check(not early, "R19.3", f.where(m.loop), "no accumulator is updated before the secondary filter", key_of(f, f"early-update:{early}"), found=early)
    m.prim_counter = prim_counter


def accumulators(m):
    """Names (and attribute paths) that are written inside the record loop and defined before it."""
    f = m.f
    pre = set()
    for st in f.node.body:
        if st is m.loop:
            break
        for s in walk_stmts([st]):
            if isinstance(s, ast.Assign):
                for t in s.targets:
                    pre |= names_in(t)
    accs = set()
    for s in walk_stmts(m.loop.body):
        if isinstance(s, ast.AugAssign):
            t = s.target
            root = t
            while isinstance(root, (ast.Attribute, ast.Subscript)):
                root = root.value
            if isinstance(root, ast.Name) and root.id in pre:
                accs.add(norm(t) if isinstance(t, ast.Name) else root.id)
        elif isinstance(s, ast.Assign):
            for t in s.targets:
                root = t
                while isinstance(root, (ast.Attribute, ast.Subscript)):
                    root = root.value
                if isinstance(root, ast.Name) and root.id in pre and not isinstance(t, ast.Name):
                    accs.add(root.id)
    return accs


def writes_any(node, accs):
    for s in ast.walk(node) if not isinstance(node, ast.stmt) else walk_stmts([node]):
        if isinstance(s, (ast.AugAssign, ast.Assign)):
            tgts = [s.target] if isinstance(s, ast.AugAssign) else s.targets
            for t in tgts:
                root = t
                while isinstance(root, (ast.Attribute, ast.Subscript)):
                    root = root.value
                if isinstance(root, ast.Name) and root.id in accs and not (isinstance(t, ast.Name) and isinstance(s, ast.Assign) and False):
                    if isinstance(t, ast.Name) and isinstance(s, ast.Assign):
                        continue  # plain local rebinding is not an accumulator update unless the name is an accumulator itself
                    return True
    return False


def r19_4(ctx, m):
    f = m.f
    accs = accumulators(m)
    rec = m.rec
    # locals computed per record (pure functions of the record)
    per_record = set()
    for st in m.loop.body:
        if isinstance(st, ast.Assign) and isinstance(st.targets[0], ast.Name) and names_in(st.value) <= ({rec} | per_record | {"float", "int", "len", "itertools", "str", "x", "_"}):
            per_record.add(st.targets[0].id)
    n = 0
    max_updates = {}  # attr text -> (if node, assign)
    # a local bound to one entry of a per-read table (`read = reads[name]`) is that table for the purpose of this rule
    accs = set(accs)
    for s in walk_stmts(m.loop.body):
        if isinstance(s, ast.Assign) and len(s.targets) == 1 and isinstance(s.targets[0], ast.Name) and isinstance(s.value, ast.Subscript) and isinstance(s.value.value, ast.Name) and s.value.value.id in accs:
            accs.add(s.targets[0].id)
    for s in walk_stmts(m.loop.body):
        if isinstance(s, ast.Assign) and isinstance(s.targets[0], ast.Tuple) and all(isinstance(e, (ast.Attribute, ast.Subscript)) for e in s.targets[0].elts):
            roots = []
            for e in s.targets[0].elts:
                r_ = e
                while isinstance(r_, (ast.Attribute, ast.Subscript)):
                    r_ = r_.value
                roots.append(r_.id if isinstance(r_, ast.Name) else None)
            if any(r_ in accs for r_ in roots):
                n += 1
                if isinstance(s.value, ast.Call) and norm(s.value.func) in ("max", "min") and all(isinstance(a, ast.Tuple) for a in s.value.args):
                    ctx.violated("R19.4", f.where(s), f"`{norm(s)[:90]}` takes the {norm(s.value.func)}imum of the tuples as a whole (lexicographic): the second component is the one that travels with the best first component, not its own {norm(s.value.func)}imum (best map ratio and best identity of a read come from different records)", key_of(f, f"tuple-max:{norm(s.value)[:60]}"))
                else:
                    raise AnalysisError("R19.4", f.where(s), f"several per-read values are assigned at once from `{norm(s.value)[:60]}`")
            continue
        if isinstance(s, ast.AugAssign):
            root = s.target
            while isinstance(root, (ast.Attribute, ast.Subscript)):
                root = root.value
            if not (isinstance(root, ast.Name) and root.id in accs):
                continue
            n += 1
            dep = names_in(s.value) - {rec} - per_record - {"int", "float", "len"}
            ok = isinstance(s.op, ast.Add) and not (dep & accs) and norm(s.target) not in norm(s.value)
            ctx.check(ok, "R19.4", f.where(s), f"accumulator `{norm(s.target)}` is updated by adding a value that depends only on the current record (commutative, associative)", key_of(f, f"acc-add:{norm(s)}"), update=norm(s))
        elif isinstance(s, ast.Assign) and not isinstance(s.targets[0], ast.Name):
            t = s.targets[0]
            root = t
            while isinstance(root, (ast.Attribute, ast.Subscript)):
                root = root.value
            if not (isinstance(root, ast.Name) and root.id in accs):
                continue
            n += 1
            if isinstance(t, ast.Subscript) and isinstance(s.value, ast.Call):
                # insert: must be guarded by absence
                guard = enclosing_if(m.loop, s)
                ok = guard is not None and isinstance(guard[0].test, ast.Compare) and isinstance(guard[0].test.ops[0], (ast.NotIn, ast.In)) and norm(guard[0].test.comparators[0]) == norm(t.value)
                if ok:
                    polarity_absent = isinstance(guard[0].test.ops[0], ast.NotIn) == guard[1]
                    ok = polarity_absent and norm(guard[0].test.left) == norm(t.slice)
                ctx.check(ok, "R19.4", f.where(s), f"per-read entry `{norm(t)}` is created only when the read is absent (insert-if-absent)", key_of(f, f"insert:{norm(s)[:80]}"))
                m.insert = s
            else:
                # guarded maximum
                guard = enclosing_if(m.loop, s)
                ok = False
                why = "store is not guarded"
                if guard is not None:
                    g, pol = guard
                    tt = g.test
                    if isinstance(tt, ast.Compare) and len(tt.ops) == 1:
                        l, r = norm(tt.left), norm(tt.comparators[0])
                        tgt, val = norm(t), norm(s.value)
                        if isinstance(tt.ops[0], ast.Lt) and pol:
                            ok = (l, r) == (tgt, val)
                        elif isinstance(tt.ops[0], ast.Gt) and pol:
                            ok = (l, r) == (val, tgt)
                        elif isinstance(tt.ops[0], ast.LtE) and pol:
                            ok = (l, r) == (tgt, val)
                        elif isinstance(tt.ops[0], ast.GtE) and pol:
                            ok = (l, r) == (val, tgt)
                        why = f"guard `{norm(tt)}` is not `{tgt} < {val}`"
                    max_updates[norm(t)] = (g, s)
                ctx.check(ok, "R19.4", f.where(s), f"`{norm(t)}` is a running maximum: assigned only under `{norm(t)} < value` with the same value (last-writer-wins would depend on record order)", key_of(f, f"max:{norm(s)}"), why=None if ok else why)
    ctx.require_count("R19.4", n, 4, f.where(m.loop), "accumulator updates in the record loop")
    from .shared import groupby_tables

    groupby_tables(ctx, [f], "R19.4")
    # every per-read value that the report reads after the loop is kept up to date inside it
    after = []
    seen_loop = False
    for st in f.node.body:
        if st is m.loop:
            seen_loop = True
        elif seen_loop:
            after.append(st)
    entry_vars = set()
    for st in after:
        for lp_ in ast.walk(st):
            if isinstance(lp_, ast.For) and isinstance(lp_.iter, ast.Call) and isinstance(lp_.iter.func, ast.Attribute) and lp_.iter.func.attr in ("items", "values") and norm(lp_.iter.func.value) in accs:
                tg_ = lp_.target.elts[-1] if isinstance(lp_.target, ast.Tuple) else lp_.target
                if isinstance(tg_, ast.Name):
                    entry_vars.add(tg_.id)
    read_attrs = sorted({x.attr for st in after for x in ast.walk(st) if isinstance(x, ast.Attribute) and isinstance(x.ctx, ast.Load) and isinstance(x.value, ast.Name) and x.value.id in entry_vars})
    updated = {k.rsplit(".", 1)[-1] for k in max_updates} | {norm(s_.target).rsplit(".", 1)[-1] for s_ in walk_stmts(m.loop.body) if isinstance(s_, ast.AugAssign)}
    def root_name(e):
        while isinstance(e, (ast.Attribute, ast.Subscript)):
            e = e.value
        return e.id if isinstance(e, ast.Name) else None

    opaque = [c for c in ast.walk(m.loop) if isinstance(c, ast.Call) and not (isinstance(c.func, ast.Name) and c.func.id in ("len", "float", "int", "str", "print", "round", "max", "min")) and (any(root_name(a_) in accs and isinstance(a_, (ast.Name, ast.Subscript)) for a_ in c.args) or (isinstance(c.func, ast.Attribute) and isinstance(c.func.value, (ast.Name, ast.Subscript)) and root_name(c.func.value) in accs and c.func.attr not in ("get", "items", "values", "keys"))) and ctx.repo.resolve_call(f, c) is not None]
    for a in read_attrs:
        if a not in updated and opaque:
            raise AnalysisError("R19.4", f.where(opaque[0]), f"the per-read entry is handed to `{norm(opaque[0].func)}`, which is not inlined: whether `{a}` is kept up to date is not decided")
        ctx.check(a in updated, "R19.4", f.where(m.loop), f"the per-read value `{a}` that the report averages is updated for every later record of the read", key_of(f, f"per-read-not-updated:{a}"))
    # every maximum guard is evaluated on every path of the 'read already seen' branch
    if max_updates:
        seen_paths = [p for p in m.paths if not any(e.kind == "test" and e.node is m.sec_if.test and e.pol for e in p.events)]
        ins = getattr(m, "insert", None)
        bad = None
        for p in seen_paths:
            if ins is not None and any(e.kind == "stmt" and e.node is ins for e in p.events):
                continue
            for tgt, (g, s) in max_updates.items():
                if not any(e.kind == "test" and e.node is g.test for e in p.events):
                    bad = (p, f"the maximum of `{tgt}` is not evaluated on this path")
        ctx.check(bad is None, "R19.4", f.where(m.loop), "for a read seen before, every running-maximum guard is evaluated on every path (no maximum hidden behind another one's outcome)", key_of(f, f"max-skipped:{bad[1] if bad else ''}"), maxima=sorted(max_updates), **({"path": bad[0].show(), "why": bad[1]} if bad else {}))
        # the initial values stored by the insert are the same per-record values the maxima compare with
        if ins is not None and isinstance(ins.value, ast.Call):
            ctor = ctx.repo.resolve_call(f, ins.value)
            if ctor is not None:
                ctx.analysed_func(ctor)
                params = ctor.params[1:]
                amap = {params[i]: norm(a) for i, a in enumerate(ins.value.args) if i < len(params)}
                init = {}
                for st in walk_own(ctor.node):
                    if isinstance(st, ast.Assign) and isinstance(st.targets[0], ast.Attribute) and isinstance(st.value, ast.Name):
                        init[st.targets[0].attr] = amap.get(st.value.id)
                for tgt, (g, s) in max_updates.items():
                    attr = tgt.rsplit(".", 1)[-1]
                    ctx.check(init.get(attr) == norm(s.value), "R19.4", f.where(ins), f"the first record of a read initialises `{attr}` with the same per-record value `{norm(s.value)}` that later records are compared with", key_of(f, f"max-init:{attr}:{init.get(attr)}"), initial=init.get(attr))
    if getattr(m, "insert", None) is None and not any(i.verdict == "violated" and i.rule == "R19.4" for i in ctx.instances):
        raise AnalysisError("R19.4", f.where(m.loop), "cannot find where the per-read table gets a new entry inside the record loop (insert-if-absent): the per-read maxima are not decided")


def enclosing_if(loop, stmt):
    """Innermost If containing stmt (below loop) and the polarity of the branch stmt is in."""
    best = None
    for n in ast.walk(loop):
        if isinstance(n, ast.If):
            if any(x is stmt for b in n.body for x in ast.walk(b)):
                if best is None or any(x is n for x in ast.walk(best[0])):
                    best = (n, True)
            elif any(x is stmt for b in n.orelse for x in ast.walk(b)):
                # stmt is in the else part; if the else part is itself a single If (elif) that contains stmt, a deeper one will win
                if best is None or any(x is n for x in ast.walk(best[0])):
                    best = (n, False)
    return best


OP_LABEL = {"D": "deletion", "I": "insertion", "X": "substitution", "=": "match"}


def r19_5(ctx, m):
    f = m.f
    cl = None
    lst = len_expr = op_expr = None
    for n in ast.walk(m.loop):
        if not (isinstance(n, ast.For) and n is not m.loop and isinstance(n.iter, ast.Call)):
            continue
        fn = norm(n.iter.func)
        args = n.iter.args
        if fn == "range":
            ok_range = False
            if len(args) == 3 and const_value(args[0]) in (0, 1) and const_value(args[2]) == 2:
                # the grouped list has even length 2k: pairs (0,1) .. (2k-2, 2k-1); from 0: stop 2k-1 or 2k; from 1: stop 2k or 2k+1
                mm = re.fullmatch(r"len\((\w+)\)( - 1)?" if const_value(args[0]) == 0 else r"len\((\w+)\)( \+ 1)?", norm(args[1]))
                if mm:
                    cl, lst = n, mm.group(1)
                    iv = norm(n.target)
                    len_expr, op_expr = (f"{lst}[{iv}]", f"{lst}[{iv} + 1]") if const_value(args[0]) == 0 else (f"{lst}[{iv} - 1]", f"{lst}[{iv}]")
                    ok_range = True
            if cl is None:
                cl = n
            ctx.check(ok_range, "R19.5", f.where(n), "the (length, operation) pairs are walked with stride 2 over the whole grouped CIGAR", key_of(f, f"cigar-range:{norm(n.iter)}"), range=norm(n.iter))
            if not ok_range:
                return
        elif fn == "zip" and len(args) == 2 and isinstance(n.target, ast.Tuple) and len(n.target.elts) == 2:
            def _sl(e_):
                # a name bound once to the expression; itertools.islice(x, k, None, 2) is x[k::2]
                if isinstance(e_, ast.Name):
                    ds_ = [a_.value for a_ in walk_own(f.node) if isinstance(a_, ast.Assign) and len(a_.targets) == 1 and norm(a_.targets[0]) == e_.id]
                    if len(ds_) == 1:
                        e_ = ds_[0]
                if isinstance(e_, ast.Call) and norm(e_.func) in ("itertools.islice", "islice") and len(e_.args) == 4 and isinstance(e_.args[0], ast.Name) and const_value(e_.args[1], None) in (0, 1) and isinstance(e_.args[2], ast.Constant) and e_.args[2].value is None and const_value(e_.args[3], None) == 2:
                    return f"{e_.args[0].id}[{const_value(e_.args[1])}::2]"
                return norm(e_)

            a0, a1 = _sl(args[0]), _sl(args[1])
            mm0 = re.fullmatch(r"(\w+)\[(?:0)?::2\]", a0)
            mm1 = re.fullmatch(r"(\w+)\[1::2\]", a1)
            ok_zip = bool(mm0 and mm1 and mm0.group(1) == mm1.group(1))
            cl = n
            ctx.check(ok_zip, "R19.5", f.where(n), "the (length, operation) pairs are the even / odd elements of the whole grouped CIGAR (zip(x[0::2], x[1::2]))", key_of(f, f"cigar-zip:{norm(n.iter)}"), iter=norm(n.iter))
            if not ok_zip:
                return
            lst = mm0.group(1)
            len_expr, op_expr = norm(n.target.elts[0]), norm(n.target.elts[1])
    if cl is None or lst is None:
        raise AnalysisError("R19.5", f.where(m.loop), "cannot find the loop over the (length, operation) pairs of the grouped CIGAR")
    # grouped list definition: groupby on str.isdigit
    defs = [st for st in walk_stmts(m.loop.body) if isinstance(st, ast.Assign) and norm(st.targets[0]) == lst]
    ok_def = len(defs) == 1 and "groupby" in norm(defs[0].value) and "isdigit" in norm(defs[0].value) and f"{m.rec}.cigar" in (norm(defs[0].value) + " ".join(norm(s.value) for s in walk_stmts(m.loop.body) if isinstance(s, ast.Assign) and norm(s.targets[0]) in names_in(defs[0].value)))
    ctx.check(ok_def, "R19.5", f.where(cl), "the list walked is the record's CIGAR grouped into digit / non-digit runs", key_of(f, "cigar-groupby"))
    counters = {}
    larges = {}
    cur = cl.body[0] if cl.body and isinstance(cl.body[0], ast.If) else None
    while cur is not None:
        t = cur.test
        op = None
        if isinstance(t, ast.Compare) and len(t.ops) == 1 and isinstance(t.ops[0], ast.Eq) and norm(t.left) == op_expr:
            op = const_value(t.comparators[0])
        if op is None:
            raise AnalysisError("R19.5", f.where(cur), f"branch test `{norm(t)}` is not a comparison of the operation element {op_expr} with an operation letter")
        incs = [s for s in cur.body if isinstance(s, ast.AugAssign) and isinstance(s.op, ast.Add) and const_value(s.value) == 1]
        if len(incs) == 1:
            counters[op] = norm(incs[0].target)
        for s in cur.body:
            if isinstance(s, ast.If):
                tt = s.test
                ok_len = isinstance(tt, ast.Compare) and norm(tt.left) == f"int({len_expr})" and isinstance(tt.ops[0], (ast.GtE, ast.Gt)) and isinstance(const_value(tt.comparators[0]), int)
                li = [x for x in s.body if isinstance(x, ast.AugAssign) and const_value(x.value) == 1]
                if ok_len and len(li) == 1:
                    larges[op] = (norm(li[0].target), norm(tt))
                else:
                    ctx.violated("R19.5", f.where(s), f"the 'large' threshold for {op!r} does not compare the length element int({len_expr})", key_of(f, f"cigar-large:{op}:{norm(tt)}"))
        if len(cur.orelse) == 1 and isinstance(cur.orelse[0], ast.If):
            cur = cur.orelse[0]
        else:
            cur = None
    if not counters:
        raise AnalysisError("R19.5", f.where(cl), "cannot find the per-operation branches of the run-counting loop")
    ctx.check(set(counters) == set(OP_LABEL) and len(set(counters.values())) == 4, "R19.5", f.where(cl), "each operation letter D, I, X, = has exactly one run counter, incremented once per run", key_of(f, f"cigar-counters:{sorted(counters.items())}"), counters=counters)
    ctx.check(set(larges) == set(OP_LABEL) and len({v[0] for v in larges.values()}) == 4 and len({v[1].split(' ', 1)[1] for v in larges.values()}) == 1, "R19.5", f.where(cl), "each operation has its own 'large run' counter with one common length threshold", key_of(f, f"cigar-large-counters:{sorted((k, v[0]) for k, v in larges.items())}"), large={k: v[0] for k, v in larges.items()})
    # report labels
    from ..core import make_resolver

    res = make_resolver(m.loop.body)
    for n in walk_own(f.node):
        if isinstance(n, ast.Call) and isinstance(n.func, ast.Name) and n.func.id == "print" and n.args and isinstance(n.args[0], ast.BinOp) and isinstance(n.args[0].op, ast.Mod):
            parts = tmpl.of_expr(n.args[0])
            label = ""
            pairs = []
            for p in parts:
                if p[0] == "lit":
                    label = p[1]
                elif p[0] == "hole":
                    pairs.append((label, norm(p[1])))
            bad = None
            known = set(counters.values()) | {v[0] for v in larges.values()}

            def source(h):
                """the run counter a printed figure stands for: itself, or the one counter whose per-record value it sums"""
                if h in known:
                    return h
                adds = [s_ for s_ in walk_stmts(m.loop.body) if isinstance(s_, ast.AugAssign) and isinstance(s_.op, ast.Add) and norm(s_.target) == h]
                if len(adds) == 1:
                    src = norm(res(adds[0].value))
                    if src in known:
                        return src
                raise AnalysisError("R19.5", f.where(n), f"cannot trace the printed figure `{h}` to one of the run counters {sorted(known)}")

            for op, word in OP_LABEL.items():
                hits = [h for l, h in pairs if word in l.lower()]
                if hits and counters.get(op) and source(hits[0]) != counters[op]:
                    bad = (word, hits[0], counters[op])
                # the hole that follows "(" after the label is the large counter
                idx = [i for i, (l, h) in enumerate(pairs) if word in l.lower()]
                if idx and idx[0] + 1 < len(pairs) and larges.get(op) and source(pairs[idx[0] + 1][1]) != larges[op][0]:
                    bad = (word + " (large)", pairs[idx[0] + 1][1], larges[op][0])
            for a in tmpl.arity_errors(parts):
                bad = ("arity", a[2], "")
            ctx.check(bad is None, "R19.5", f.where(n), "the report prints each run counter under the label of its own operation", key_of(f, f"cigar-labels:{bad}"), **({"mismatch": bad} if bad else {}))


def r19_6(ctx, m):
    """Averages over the per-read table: the table is empty when the file has no primary record, so a division by
    its size must be guarded (the report must exist for every GAF)."""
    from .c09 import guards_of

    f = m.f
    tables = set()
    for s in walk_stmts(m.loop.body):
        if isinstance(s, ast.Assign) and isinstance(s.targets[0], ast.Subscript) and isinstance(s.value, ast.Call):
            tables.add(norm(s.targets[0].value))
    n = 0
    for s in walk_stmts(f.node.body):
        if any(x is s for x in ast.walk(m.loop)):
            continue
        divs = []
        if isinstance(s, ast.AugAssign) and isinstance(s.op, (ast.Div, ast.FloorDiv)):
            divs.append(s.value)
        for b in ast.walk(s) if not isinstance(s, (ast.If, ast.For, ast.While, ast.With, ast.Try)) else []:
            if isinstance(b, ast.BinOp) and isinstance(b.op, (ast.Div, ast.FloorDiv)):
                divs.append(b.right)
        for d in divs:
            for t in tables:
                if norm(d) == f"len({t})":
                    n += 1
                    g = guards_of(f.node, s)
                    ok = any(canon_test(x, pol) in ((f"len({t}) > 0", True), (f"len({t}) != 0", True), (f"len({t}) == 0", False), (t, True), (f"len({t})", True)) for x, pol in g)
                    ctx.check(ok, "R19.6", f.where(s), f"the division by len({t}) is guarded: a file without primary records leaves the per-read table empty and must still be reported", key_of(f, f"div-by-len:{norm(s)[:60]}"), guards=[(norm(x), pol) for x, pol in g])
    if n == 0:
        ctx.holds("R19.6", f.where(), "no division by the size of the per-read table (nothing to guard; R19.7 decides the denominators)", nontrivial=False)


def r19_7(ctx, m):
    """(a) the per-read averages are sums over the per-read table divided by the size of that same table;
    (b) with --cigar every primary record reaches the run-counting loop (no shortcut around it)."""
    f = m.f
    # (a)
    agg_loops = [l for l in f.node.body if isinstance(l, ast.For) and norm(l.iter).endswith((".items()", ".values()")) and l is not m.loop]
    n = 0
    for l in agg_loops:
        table = norm(l.iter).rsplit(".", 1)[0]
        sums = [norm(s.target) for s in walk_stmts(l.body) if isinstance(s, ast.AugAssign) and isinstance(s.op, ast.Add)]
        for acc in sums:
            divs = [s for s in walk_stmts(f.node.body) if isinstance(s, ast.AugAssign) and isinstance(s.op, (ast.Div, ast.FloorDiv)) and norm(s.target) == acc]
            inline = [b for st in walk_stmts(f.node.body) for b in ast.walk(st) if isinstance(b, ast.BinOp) and isinstance(b.op, ast.Div) and norm(b.left) == acc and not isinstance(st, (ast.For, ast.If, ast.While))]
            for d in divs:
                n += 1
                ctx.check(norm(d.value) == f"len({table})", "R19.7", f.where(d), f"the average `{acc}` sums one value per entry of `{table}` and is divided by the number of entries of that same table", key_of(f, f"avg-denominator:{acc}:{norm(d.value)}"), denominator=norm(d.value))
            for b in inline:
                n += 1
                ctx.check(norm(b.right) == f"len({table})", "R19.7", f.where(b), f"the average `{acc}` is divided by the number of entries of `{table}`", key_of(f, f"avg-denominator:{acc}:{norm(b.right)}"), denominator=norm(b.right))
        # each entry contributes exactly once, unfiltered
        from ..core import own_loop_jumps

        skip = [s for s in walk_stmts(l.body) if isinstance(s, ast.If)] + own_loop_jumps(l.body)
        ctx.check(not skip, "R19.7", f.where(l), f"every entry of `{table}` contributes to the averages", key_of(f, f"agg-filter:{table}"))
    ctx.require_count("R19.7", n, 2, f.where(), "averages over the per-read table")
    # the figures printed as averages are those accumulators
    # (b) run loop reached on every primary path when cigar statistics are requested
    run_loops = [n_ for n_ in ast.walk(m.loop) if isinstance(n_, ast.For) and n_ is not m.loop and isinstance(n_.iter, ast.Call) and norm(n_.iter.func) in ("range", "zip")]
    if run_loops:
        rl = run_loops[0]
        flag = None
        for t in ast.walk(m.loop):
            if isinstance(t, ast.If) and any(x is rl for x in ast.walk(t)) and isinstance(t.test, ast.Name):
                flag = t.test.id
        bad = None
        for p in m.paths:
            sec = any(e.kind == "test" and e.node is m.sec_if.test and e.pol for e in p.events)
            if sec:
                continue
            wants = flag is None or any(e.kind == "test" and isinstance(e.node, ast.Name) and e.node.id == flag and e.pol for e in p.events)
            # the option may also be tested in a guard clause (`if not cigar_stat: continue`): a path on which an option of
            # the command (a bare parameter name) is false did not ask for the statistics
            for e in p.events:
                if e.kind == "test":
                    t_, pol_ = e.node, e.pol
                    while isinstance(t_, ast.UnaryOp) and isinstance(t_.op, ast.Not):
                        t_, pol_ = t_.operand, not pol_
                    if isinstance(t_, ast.Name) and t_.id in f.params and not pol_:
                        wants = False
                    # an empty CIGAR has no runs: skipping the loop for it counts nothing less
                    if isinstance(t_, ast.Compare) and len(t_.ops) == 1 and isinstance(t_.ops[0], ast.Eq) and const_value(t_.comparators[0], None) == "" and pol_ and ("cigar" in norm(t_.left)):
                        wants = False
                    # fewer than two pieces: there is no (length, operation) pair, the loop would not run once
                    if isinstance(t_, ast.Compare) and len(t_.ops) == 1 and isinstance(t_.left, ast.Call) and norm(t_.left.func) == "len" and t_.left.args and norm(t_.left.args[0]) in norm(rl.iter) and isinstance(const_value(t_.comparators[0], None), int):
                        k_ = const_value(t_.comparators[0])
                        small = (isinstance(t_.ops[0], ast.Lt) and k_ <= 2 and pol_) or (isinstance(t_.ops[0], ast.LtE) and k_ <= 1 and pol_) or (isinstance(t_.ops[0], ast.Eq) and k_ in (0, 1) and pol_) or (isinstance(t_.ops[0], ast.GtE) and k_ <= 2 and not pol_) or (isinstance(t_.ops[0], ast.Gt) and k_ <= 1 and not pol_)
                        if small:
                            wants = False
            if not wants:
                continue
            if not any(e.kind == "loop" and e.node is rl for e in p.events):
                bad = p
        ctx.check(bad is None, "R19.7", f.where(rl), "with --cigar every primary record reaches the run-counting loop (no shortcut that skips the counts for some CIGARs)", key_of(f, "cigar-loop-reached"), **({"path": bad.show()} if bad else {}))



def r19_8(ctx, m):
    """Every counter that is summed over the records starts at zero: its only binding outside the loop is the literal 0
    (0.0); and the averages that are summed after the loop start at zero as well."""
    f = m.f
    accs = accumulators(m)
    n = 0
    for name in sorted(a for a in accs if a.isidentifier()):
        inits = [st for st in walk_own(f.node) if isinstance(st, ast.Assign) and any(norm(t) == name for t in st.targets) and not any(x is st for x in ast.walk(m.loop))]
        vals = [const_value(st.value, "?") for st in inits]
        if not inits or not any(isinstance(s_, ast.AugAssign) and norm(s_.target) == name for s_ in walk_stmts(m.loop.body)):
            continue
        if not all(isinstance(v, (int, float)) and not isinstance(v, bool) or v == "?" for v in vals):
            continue  # not a numeric counter (a table)
        if any(v == "?" for v in vals):
            continue
        n += 1
        ok = all(v == 0 for v in vals)
        ctx.check(ok, "R19.8", f.where(inits[0]), f"counter `{name}` starts at zero", key_of(f, f"counter-init:{name}:{vals}"), initial=vals)
    ctx.require_count("R19.8", n, 4, f.where(), "numeric counters initialised before the record loop")


def r19_9(ctx, m):
    """The two per-record ratios are what the report says they are: map ratio = aligned part of the read / read length,
    sequence identity = matches / alignment block length (both as true divisions)."""
    f = m.f
    rec = m.rec
    schema, extras = gaf_schema(ctx.repo, "R19.9")
    P = {c: a for a, c in schema.items()}

    def strip_float(e):
        while isinstance(e, ast.Call) and isinstance(e.func, ast.Name) and e.func.id == "float" and len(e.args) == 1:
            e = e.args[0]
        return e

    want = {
        "map": (f"{rec}.{P[3]} - {rec}.{P[2]}", f"{rec}.{P[1]}"),
        "identity": (f"{rec}.{P[9]}", f"{rec}.{P[10]}"),
    }
    seen = {}
    for st in walk_stmts(m.loop.body):
        if isinstance(st, ast.Assign) and isinstance(st.targets[0], ast.Name) and isinstance(st.value, ast.BinOp) and isinstance(st.value.op, (ast.Div, ast.Mult, ast.FloorDiv)):
            num, den = norm(strip_float(st.value.left)).strip("()"), norm(strip_float(st.value.right)).strip("()")
            for k, (wn, wd) in want.items():
                if {P[9], P[10]} & set(names_attr(st.value)) and k == "identity" or {P[1], P[2], P[3]} & set(names_attr(st.value)) and k == "map":
                    seen[k] = st
                    ok = isinstance(st.value.op, ast.Div) and num == wn and den == wd
                    ctx.check(ok, "R19.9", f.where(st), f"{'map ratio' if k == 'map' else 'sequence identity'} of a record is ({wn}) / {wd}", key_of(f, f"ratio:{k}:{norm(st.value)[:60]}"), formula=norm(st.value))
    if len(seen) < 2:
        raise AnalysisError("R19.9", f.where(m.loop), f"cannot find the two per-record ratios (found {sorted(seen)})")


def names_attr(e):
    return [x.attr for x in ast.walk(e) if isinstance(x, ast.Attribute)]
