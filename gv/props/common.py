"""Helpers shared by the property modules: role-based anchor location and the GAF column schema."""

from __future__ import annotations

import ast

from ..core import AnalysisError, Func, Repo, const_value, norm, walk_own


# ---------------------------------------------------------------------------------------------
# GAF column schema, extracted from the parser (never hard-coded)
# ---------------------------------------------------------------------------------------------


def gaf_schema(repo: Repo, rule="schema"):
    """attr name of the parsed record -> column index, read off GAF.parse_gaf_line:
    the record constructor call in the return statement, the constructor's `self.x = param`
    assignments, and the `fields[i]` subscripts feeding each argument."""
    from ..core import tail_inlined, unroll_const_loops, delist_unpack

    f0 = tail_inlined(repo, repo.func("gaftools.gaf", "GAF.parse_gaf_line", rule))
    try:
        return _gaf_schema_of(repo, f0, rule)
    except AnalysisError:
        # columns validated in a loop over their indices and unpacked from the collected list
        f1 = delist_unpack(unroll_const_loops(f0))
        if f1 is f0:
            raise
        return _gaf_schema_of(repo, f1, rule)


def _gaf_schema_of(repo, f, rule):
    from ..core import local_defs

    # name of the list of columns: variable assigned from <...>.split("\t")
    fields_var = None
    for n in walk_own(f.node):
        if isinstance(n, ast.Assign) and isinstance(n.value, ast.Call) and isinstance(n.value.func, ast.Attribute) and n.value.func.attr == "split":
            if n.value.args and const_value(n.value.args[0]) == "\t" and isinstance(n.targets[0], ast.Name):
                fields_var = n.targets[0].id
    if fields_var is None:
        raise AnalysisError(rule, f.where(), "cannot find the variable holding the tab-split columns")
    # per-column tables: `for c in (1, 2, ...): ... T[c] = g(fields[c])` makes T[k] a view of column k
    tables = {}
    for lp in walk_own(f.node):
        if isinstance(lp, ast.For) and isinstance(lp.target, ast.Name):
            it = lp.iter
            if isinstance(it, ast.Name) and it.id in f.module.consts:
                it = f.module.consts[it.id]
            if isinstance(it, (ast.Tuple, ast.List)) and all(isinstance(const_value(e), int) for e in it.elts):
                c = lp.target.id
                for st in ast.walk(lp):
                    if isinstance(st, ast.Assign) and isinstance(st.targets[0], ast.Subscript) and isinstance(st.targets[0].value, ast.Name) and norm(st.targets[0].slice) == c:
                        subs = {norm(x) for x in ast.walk(st.value) if isinstance(x, ast.Subscript) and isinstance(x.value, ast.Name) and x.value.id == fields_var}
                        if subs == {f"{fields_var}[{c}]"}:
                            tables[st.targets[0].value.id] = {const_value(e) for e in it.elts}

    def cols_of(expr):
        cols = set()
        for s in ast.walk(expr):
            if isinstance(s, ast.Subscript) and isinstance(s.value, ast.Name):
                c = const_value(s.slice)
                if s.value.id == fields_var and isinstance(c, int):
                    cols.add(c)
                elif s.value.id in tables and c in tables[s.value.id]:
                    cols.add(c)
        return cols

    # local var -> column index
    var_col = {}
    for name, ds in local_defs(f.node).items():
        for d in ds:
            if d is None:
                continue
            cols = cols_of(d)
            if len(cols) == 1:
                var_col.setdefault(name, set()).update(cols)
    ret = None
    for n in walk_own(f.node):
        if isinstance(n, ast.Return) and isinstance(n.value, ast.Call):
            ctor = repo.resolve_call(f, n.value)
            if ctor is not None and ctor.name == "__init__":
                ret = (n.value, ctor)
    if ret is None:
        raise AnalysisError(rule, f.where(), "parser does not return a record constructed from a program class")
    call, ctor = ret
    params = ctor.params[1:]
    param_attr = {}
    for n in walk_own(ctor.node):
        if isinstance(n, ast.Assign) and isinstance(n.targets[0], ast.Attribute) and isinstance(n.targets[0].value, ast.Name) and n.targets[0].value.id == "self" and isinstance(n.value, ast.Name):
            param_attr[n.value.id] = n.targets[0].attr
    schema = {}
    argmap = {}
    for i, a in enumerate(call.args):
        if i < len(params):
            argmap[params[i]] = a
    for k in call.keywords:
        argmap[k.arg] = k.value
    for p, a in argmap.items():
        attr = param_attr.get(p)
        if attr is None:
            continue
        if isinstance(a, ast.Name) and a.id in var_col and len(var_col[a.id]) == 1:
            schema[attr] = next(iter(var_col[a.id]))
    need = {0, 1, 2, 3, 4, 5, 6, 7, 8, 9, 10, 11}
    if set(schema.values()) & need != need:
        raise AnalysisError(rule, f.where(), f"could not recover all 12 mandatory columns from the parser (got {sorted(schema.items(), key=lambda x: x[1])})")
    # column variables that are bound again to something that is not their column (R16.9 reports them)
    rebound = {}
    used = {a.id for a in argmap.values() if isinstance(a, ast.Name) and a.id in var_col}
    for name, ds in local_defs(f.node).items():
        if name in used:
            # (a None bound in the "not a number" arm of an inlined validation helper is a sentinel, not a value)
            extra = [d for d in ds if d is not None and not cols_of(d) and not (isinstance(d, ast.Constant) and d.value is None)]
            if extra:
                rebound[name] = [norm(d) for d in extra]
    if rebound:
        # path-sensitive refinement: a binding counts only when it can still be the variable's value where the record is built
        # (`x = SENTINEL` in the "not a number" arm of a validation helper, followed by `if x is SENTINEL: return None`)
        try:
            from ..paths import enum_paths

            paths = enum_paths(f.node.body, rule=rule, where=f.where())
        except AnalysisError:
            paths = None
        if paths is not None:
            live = {}
            for p in paths:
                if p.term != "return" or not any(x is call for x in ast.walk(p.term_node)) if p.term_node is not None else True:
                    continue
                last = {}
                feasible = True
                for e in p.events:
                    if e.kind == "stmt" and isinstance(e.node, ast.Assign) and len(e.node.targets) == 1 and isinstance(e.node.targets[0], ast.Name):
                        last[e.node.targets[0].id] = e.node.value
                    elif e.kind == "loop":
                        for x in ast.walk(e.node):
                            if isinstance(x, ast.Name) and isinstance(x.ctx, ast.Store):
                                last.pop(x.id, None)
                    elif e.kind == "test":
                        t, pol = e.node, e.pol
                        while isinstance(t, ast.UnaryOp) and isinstance(t.op, ast.Not):
                            t, pol = t.operand, not pol
                        if isinstance(t, ast.Compare) and len(t.ops) == 1 and isinstance(t.left, ast.Name) and t.left.id in last and isinstance(t.ops[0], (ast.Is, ast.IsNot, ast.Eq, ast.NotEq)):
                            v, c = last[t.left.id], t.comparators[0]
                            same = norm(v) == norm(c) and isinstance(c, (ast.Name, ast.Constant))
                            other_const = isinstance(v, ast.Call) and isinstance(v.func, ast.Name) and v.func.id == "int" and (isinstance(c, ast.Name) or (isinstance(c, ast.Constant) and c.value is None)) and isinstance(t.ops[0], (ast.Is, ast.IsNot))
                            if same or other_const:
                                truth = isinstance(t.ops[0], (ast.Is, ast.Eq)) == same
                                if truth != pol:
                                    feasible = False
                                    break
                if not feasible:
                    continue
                for name in rebound:
                    d = last.get(name)
                    if d is not None and norm(d) in rebound[name]:
                        live.setdefault(name, []).append(norm(d))
            rebound = live
    extras = {"tags_attr": param_attr.get("tags", "tags"), "cigar_attr": param_attr.get("cigar", "cigar"), "class": ctor.cls, "fields_var": fields_var, "rebound": rebound, "n_col_vars": len(used), "parser_nf": f}
    return schema, extras


def record_hole_col(expr, schema, record_names):
    """If expr is `<record>.<attr>` for a record variable, the column the attr was parsed from."""
    if isinstance(expr, ast.Attribute) and isinstance(expr.value, ast.Name) and expr.value.id in record_names:
        return schema.get(expr.attr)
    return None


def record_params(func: Func, schema):
    """Names in func that are used as parsed records: variables on which >= 3 schema attributes are read."""
    uses = {}
    for n in walk_own(func.node):
        if isinstance(n, ast.Attribute) and isinstance(n.value, ast.Name) and n.attr in schema:
            uses.setdefault(n.value.id, set()).add(n.attr)
    return {v for v, attrs in uses.items() if len(attrs) >= 3}


def loop_over(func: Func, pred):
    """for-loops of func whose iterable satisfies pred(iter_expr)."""
    return [n for n in walk_own(func.node) if isinstance(n, ast.For) and pred(n.iter)]


def calls_in(node, name_pred):
    out = []
    for n in ast.walk(node):
        if isinstance(n, ast.Call) and name_pred(norm(n.func)):
            out.append(n)
    return out


def key_of(func: Func, construct):
    return f"{func.module.name}.{func.qualname}::{norm(construct) if not isinstance(construct, str) else construct}"


# which properties depend on which source file (used to scope the model-free lints and the benign corpus)
FILE_PROPS = {
    "gaftools/conversion.py": ["C01", "C02", "C03", "C04", "C16"],
    "gaftools/utils.py": ["C01", "C02", "C03", "C07", "C09", "C14", "C16", "C17"],
    "gaftools/gaf.py": ["C01", "C02", "C03", "C04", "C05", "C11", "C12", "C16", "C17", "C19", "C20"],
    "gaftools/gfa.py": ["C01", "C02", "C03", "C04", "C05", "C06", "C07", "C08", "C09", "C10", "C12", "C14", "C15", "C17", "C18"],
    "gaftools/cli/view.py": ["C01", "C02", "C03", "C04", "C05", "C17"],
    "gaftools/cli/index.py": ["C03", "C04", "C05", "C17"],
    "gaftools/cli/sort.py": ["C08", "C09", "C10", "C17"],
    "gaftools/cli/realign.py": ["C11", "C12", "C13", "C16"],
    "gaftools/cli/order_gfa.py": ["C06", "C07", "C18"],
    "gaftools/cli/stat.py": ["C19"],
    "gaftools/cli/phase.py": ["C16", "C20"],
    "gaftools/cli/find_path.py": ["C14"],
}
