"""C03 — the view index lists exactly the records that traverse each node.

R03.1  offset belongs to the record: tell() immediately before the readline() that returns the record
R03.2  every traversed node is indexed: the store loop iterates the whole node list of the record
R03.3  stable records: the overlap filter of convert_coord is exact (same table as to_unstable's)
R03.4  the per-contig segment tables of index and view are built alike (get_path mode agreement)
R03.5  key shape agreement between the index writer and the readers in view
R03.6  the handle whose tell() is stored and the handle that is later seeked are opened alike
"""

from __future__ import annotations

import ast

from ..core import regex_call, AnalysisError, const_value, names_in, norm, walk_own, walk_stmts
from ..paths import enum_paths, canon_test
from .. import relang
from . import conv_common as cc
from . import c01
from .c09 import handle_ops_on_path
from .common import key_of

META = {
    "explanation": "Static decision of the index construction in gaftools index: a typestate walk over every path of one iteration of the indexing loop "
    "shows that the offset stored for a record is the tell() taken immediately before the readline() that returned it; the store loop covers "
    "every element of the record's node list (path split on both orientation characters, only the leading empty element dropped; for stable "
    "records the converted node list, whose overlap filter is decided exhaustively over all 13 interval orderings and must equal the "
    "converter's); both places that build per-contig segment tables call GFA.get_path in the same mode, so haplotype contigs with separated "
    "segments are tabulated; the 4-tuple index key built by the writer is read by view with positions in matching roles; the file is opened "
    "with the same sniff -> (BGZFile 'rb' | text open) pair as the reader that later seeks the stored offsets.",
    "technique": "static analysis: handle typestate on enumerated paths, order-type decision table, sibling call-site agreement, tuple-shape provenance, regex alternation facts",
    "exhaustive": True,
}


def index_run(ctx, rule):
    repo = ctx.repo
    mod = repo.module("gaftools.cli.index", rule)
    from ..core import normal

    for f in mod.funcs.values():
        if any(isinstance(n, ast.Call) and norm(n.func).endswith("dump") for n in walk_own(f.node)) and f.cls is None:
            g_ = normal(repo, f, keep=lambda callee: any(isinstance(x, ast.Call) and "search" in norm(x.func) for x in ast.walk(callee.node)))
            if any(isinstance(st_, ast.Assign) and isinstance(st_.value, ast.Call) and isinstance(st_.value.func, ast.Attribute) and st_.value.func.attr == "tell" for st_ in g_.node.body):
                from ..core import inline_pure_temps, rotate_primed_loops

                g_ = inline_pure_temps(rotate_primed_loops(g_))  # `nxt = h.tell()` before the loop and at the end of its body: the tell() at the top of each iteration
            return g_
    raise AnalysisError(rule, mod.relpath, "cannot find the function that writes the index (pickle dump)")


def check(ctx):
    run = index_run(ctx, "R03")
    ctx.analysed_func(run)
    from .shared import groupby_tables

    ctx.run(lambda c_: groupby_tables(c_, [f_ for f_ in c_.repo.all_funcs() if f_.module.name in ("gaftools.cli.index", "gaftools.cli.view")], "R03.7"))
    info = r03_1(ctx, run)
    ctx.run(r03_2, run, info)
    ctx.run(r03_3, run, info)
    ctx.run(r03_4, run)
    ctx.run(r03_7)
    ctx.run(r03_5, run, info)
    ctx.run(r03_6, run, info)
    ctx.not_decided.append("BGZF virtual-offset behaviour across 64 KiB blocks inside pysam (tell/seek contract)")
    ctx.assumptions.append("pysam BGZFile.tell() before a readline() returns a virtual offset that seek() resolves to the start of that line")
    # mechanisms this property rests on (see shared.py): a change there is reported here as well
    from . import shared as _sh

    ctx.run_shared(_sh.path_tokenisers)
    ctx.run_shared(_sh.gaf_reader)
    ctx.run_shared(_sh.graph_loader)
    ctx.run_shared(_sh.contig_paths)
    ctx.run_shared(_sh.cli_layer, "gaftools.cli.index")


def r03_1(ctx, run):
    # the loop: contains <h>.tell() and <h>.readline()
    loop = None
    h = None
    for n in walk_own(run.node):
        if isinstance(n, (ast.While, ast.For)):
            tells = [c for c in ast.walk(n) if isinstance(c, ast.Call) and isinstance(c.func, ast.Attribute) and c.func.attr == "tell"]
            if tells:
                loop, h = n, norm(tells[0].func.value)
    info = {}
    if loop is None:
        # offsets not taken with tell(): find the dictionary store and report what is stored
        stores = [c for c in walk_own(run.node) if isinstance(c, ast.Call) and isinstance(c.func, ast.Attribute) and c.func.attr == "append" and isinstance(c.func.value, ast.Subscript)]
        src = norm(stores[0].args[0]) if stores else "?"
        ctx.violated("R03.1", run.where(), f"the offset stored in the index (`{src}`) is not obtained from tell() on the GAF handle", key_of(run, f"offset-not-tell:{src}"))
        raise AnalysisError("R03.1", run.where(), "indexing loop without tell(): remaining rules cannot be located")
    info["loop"], info["handle"] = loop, h
    paths = enum_paths(loop.body, rule="R03.1", where=run.where(loop))
    info["paths"] = paths
    tell_st = [st for st in walk_stmts(loop.body) if isinstance(st, ast.Assign) and isinstance(st.value, ast.Call) and isinstance(st.value.func, ast.Attribute) and st.value.func.attr == "tell"]
    if len(tell_st) != 1:
        raise AnalysisError("R03.1", run.where(loop), "expected one `offset = handle.tell()` in the indexing loop")
    off = norm(tell_st[0].targets[0])
    info["off"] = off
    other = [norm(st) for st in walk_stmts(loop.body) if isinstance(st, (ast.Assign, ast.AugAssign)) and st is not tell_st[0] and off in {norm(t) for t in (st.targets if isinstance(st, ast.Assign) else [st.target])}]
    ctx.check(not other, "R03.1", run.where(loop), f"inside the indexing loop `{off}` is assigned only from {h}.tell()", key_of(run, f"offset-writes:{other}"), found=other)
    bad = None
    for p in paths:
        ops = handle_ops_on_path(p, h)
        kinds = [o[0] for o in ops]
        if p.term == "break":
            continue
        if kinds[:2] != ["tell", "readline"] or len(kinds) != 2:
            bad = (p, f"operations on the GAF handle in one iteration: {kinds} (expected tell() then readline(), nothing else)")
            break
    ctx.check(bad is None, "R03.1", run.where(loop), "on every path of one iteration the offset is taken by tell() immediately before the readline() that returns the record being indexed", key_of(run, f"tell-readline:{bad[1] if bad else ''}"), paths=len(paths), **({"path": bad[0].show(), "why": bad[1]} if bad else {}))
    brk = [p for p in paths if p.term == "break"]
    ok_eof = bool(brk) and all(any(e.kind == "test" and e.pol and norm(e.node).startswith("not ") for e in p.events) for p in brk)
    ctx.check(ok_eof, "R03.1", run.where(loop), "the indexing loop ends only on an empty read (end of file)", key_of(run, "eof"))
    # the record is cut into columns like the parser cuts it: on tabs only (a read name may contain blanks)
    rl = [st for st in walk_stmts(loop.body) if isinstance(st, ast.Assign) and isinstance(st.value, ast.Call) and isinstance(st.value.func, ast.Attribute) and st.value.func.attr == "readline" and isinstance(st.targets[0], ast.Name)]
    if rl:
        lv = rl[0].targets[0].id
        splits = [c for c in ast.walk(loop) if isinstance(c, ast.Call) and isinstance(c.func, ast.Attribute) and c.func.attr in ("split", "rsplit", "partition") and lv in names_in(c.func.value)]
        if not splits:
            raise AnalysisError("R03.8", run.where(loop), "cannot find where the indexed line is split into columns")
        for c in splits:
            sep = const_value(c.args[0], None) if c.args else None
            okc = c.func.attr == "split" and sep == "\t" and len(c.args) == 1 and not c.keywords
            ctx.check(okc, "R03.8", run.where(c), "the indexer splits a record on tabs only, as the parser does (a read name with a blank keeps the path in column 6)", key_of(run, f"column-split:{norm(c)[-30:]}"), call=norm(c)[-60:])
    return info


def r03_2(ctx, run, info):
    loop = info["loop"]
    off = info["off"]
    # the store loop: for a in <list>: out[...KEY...].append(off) / = [off]
    store_loops = []
    for n in ast.walk(loop):
        if isinstance(n, ast.For) and n is not loop:
            apps = [c for c in ast.walk(n) if isinstance(c, ast.Call) and isinstance(c.func, ast.Attribute) and c.func.attr == "append" and c.args and norm(c.args[0]) == off]
            if apps:
                store_loops.append((n, apps))
    ctx.require_count("R03.2", len(store_loops), 1, run.where(loop), "loop storing the record's offset under each of its nodes")
    sl, apps = store_loops[0]
    info["store_loop"] = sl
    lst = norm(sl.iter)
    info["node_list"] = lst
    paths = enum_paths(sl.body, rule="R03.2", where=run.where(sl))
    bad = None
    for p in paths:
        if p.term == "raise":
            continue
        n_app = sum(1 for e in p.events if e.kind == "stmt" and any(isinstance(c, ast.Call) and isinstance(c.func, ast.Attribute) and c.func.attr == "append" and c.args and norm(c.args[0]) == off for c in ast.walk(e.node)))
        n_new = sum(1 for e in p.events if e.kind == "stmt" and isinstance(e.node, ast.Assign) and isinstance(e.node.value, ast.List) and [norm(x) for x in e.node.value.elts] == [off])
        completed = sum(1 for e in p.events if e.kind == "stmt" and not any(x.kind == "exc" and x.node is e.node for x in p.events))
        # an append that raised does not count: drop appends that are followed by an exc event at the same statement
        raised = sum(1 for e in p.events if e.kind == "exc")
        total = n_app + n_new
        if p.term in ("fall", "continue") and total != 1:
            bad = (p, f"{total} stores of the offset for one traversed node")
            break
    ctx.check(bad is None, "R03.2", run.where(sl), "every element of the record's node list stores the record's offset exactly once (append to an existing entry, or create the entry)", key_of(run, f"store-once:{bad[1] if bad else ''}"), paths=len(paths), **({"path": bad[0].show(), "why": bad[1]} if bad else {}))
    from ..core import own_loop_jumps

    skip = own_loop_jumps(sl.body)
    ctx.check(not skip and isinstance(sl.iter, ast.Name), "R03.2", run.where(sl), "the store loop iterates the whole node list (no filter, no early exit)", key_of(run, f"store-loop-filter:{norm(sl.iter)}"))
    # unstable branch: how the node list is derived from the path column
    defs = [st for st in walk_stmts(loop.body) if isinstance(st, ast.Assign) and norm(st.targets[0]) == lst]
    info["list_defs"] = defs
    n_split = 0
    for d in defs:
        for c in ast.walk(d.value):
            rc = regex_call(run.module, c)
            if rc is not None and rc[0] == "split" and rc[2]:
                n_split += 1
                pat = rc[1]
                c = ast.Call(func=c.func, args=[ast.Constant(value=pat)] + rc[2], keywords=[])
                items = relang.flatten(relang.parse(pat))
                both = all(relang.matches(items, ch, full=True) for ch in (">", "<"))
                other = any(relang.matches(items, ch, full=True) for ch in ("s", "1", ":", "-", "_"))
                col_ok = norm(c.args[1]).endswith("[5]")
                ctx.check(both and not other and col_ok, "R03.2", run.where(d), "the path column (column 6) is split on both orientation characters and on nothing else", key_of(run, f"split:{pat}:{norm(c.args[1])}"), pattern=pat)
                src = norm(d.value)
                ok_slice = src.endswith("[1:]") and "filter" not in src
                if not ok_slice and isinstance(d.value, ast.Call) and norm(d.value.func) in ("islice", "itertools.islice") and len(d.value.args) == 3 and const_value(d.value.args[1], None) == 1 and isinstance(d.value.args[2], ast.Constant) and d.value.args[2].value is None and "filter" not in src:
                    # islice(x, 1, None) walks x[1:]; that the iterator is walked once is the store loop's rule above (a name)
                    loads_ = sum(1 for x_ in ast.walk(loop) if isinstance(x_, ast.Name) and x_.id == lst and isinstance(x_.ctx, ast.Load))
                    if loads_ == 1:
                        ok_slice = True
                    else:
                        raise AnalysisError("R03.2", run.where(d), f"the node list `{lst}` is a lazy slice (`{src[:50]}`) read {loads_} times: whether a later reader still finds it full is not decided")
                ctx.check(ok_slice, "R03.2", run.where(d), "only the leading empty element of the split is dropped ([1:])", key_of(run, f"split-slice:{src}"), expr=src)
    ctx.require_count("R03.2", n_split, 1, run.where(loop), "split of the path column for unstable records")


def _drops_only_empty(test, v):
    """the test keeps every non-empty token: a conjunction of `v`, `v is not None`, `v != ""`, `len(v) != 0`, `len(v) > 0`"""
    atoms = test.values if isinstance(test, ast.BoolOp) and isinstance(test.op, ast.And) else [test]
    ok = {v, f"{v} is not None", f"{v} != ''", f"len({v}) != 0", f"len({v}) > 0", f"len({v}) >= 1", f"len({v})", f"bool({v})"}
    return all(norm(a) in ok for a in atoms)


def r03_3(ctx, run, info):
    repo = ctx.repo
    conv = None
    for d in info["list_defs"]:
        if isinstance(d.value, ast.Call):
            c = repo.resolve_call(run, d.value)
            if c is not None:
                conv = (c, d)
    if conv is None:
        for st in walk_stmts(info["loop"].body):
            if isinstance(st, ast.Assign) and norm(st.targets[0]) == info["node_list"] and isinstance(st.value, ast.Call):
                c = repo.resolve_call(run, st.value)
                if c is not None:
                    conv = (c, st)
    if conv is None:
        raise AnalysisError("R03.3", run.where(), "cannot find the stable->node-list conversion used by the index")
    f, d = conv
    ctx.analysed_func(f)
    from ..core import normal_loops

    m = cc.build(ctx, "R03.3")
    f = normal_loops(repo, f, keep=lambda callee: callee.qualname == m.search.qualname)
    site = c01.r01_1_filter(ctx, m, f, "R03.3")
    c01.r01_1_search(ctx, m)  # the window handed to the filter comes from the same binary search as in the converter
    # the query columns for a bare contig are the path start / end columns (8, 9)
    p0 = f.params[0]
    # sibling equality of the two filters is implied by both being equal to the specification table
    ctx.holds("R03.3", f.where(site.loop), "the index's filter and the converter's filter have the same decision table (both equal to overlap)")
    # bare contig: query is columns 8/9 of the record
    from ..core import local_defs

    ldefs = local_defs(f.node)

    def source_cols(name, seen=()):
        out = set()
        for d in ldefs.get(name, []):
            if d is None:
                continue
            d0 = cc.strip_int(d)
            if isinstance(d0, ast.Subscript) and norm(d0.value) == p0 and isinstance(const_value(d0.slice), int):
                out.add(const_value(d0.slice))
            elif isinstance(d0, ast.Name) and d0.id not in seen:
                out |= source_cols(d0.id, seen + (name,))
        return out

    cols = sorted(source_cols(site.qs) | source_cols(site.qe))
    if not cols:
        raise AnalysisError("R03.3", f.where(), f"cannot trace the bounds `{site.qs}` / `{site.qe}` searched for a bare contig path back to columns of the record (they may be handed in by the caller)")
    ctx.check(cols == [7, 8], "R03.3", f.where(), "for a bare contig path the interval searched is [path start, path end) (columns 8 and 9)", key_of(f, f"bare-contig-query:{cols}"), columns=cols)
    # every path element is converted: the loop over the split path has no filter other than skipping the orientation signs
    outer = [n for n in f.node.body if isinstance(n, ast.For)]
    if outer:
        # element filters of the loops over the split path: `if <test>: continue` guards and `if <test>: keep.append(x)` filters
        filt = []
        for lp in outer:
            for st in lp.body:
                if isinstance(st, ast.If) and not any(x is site.loop for x in ast.walk(st)):
                    skips = any(isinstance(x, (ast.Continue, ast.Break)) for x in ast.walk(st))
                    keeps = len(st.body) == 1 and isinstance(st.body[0], ast.Expr) and isinstance(st.body[0].value, ast.Call) and isinstance(st.body[0].value.func, ast.Attribute) and st.body[0].value.func.attr == "append" and not st.orelse
                    if keeps and _drops_only_empty(st.test, norm(lp.target)):
                        continue  # `[t for t in re.split(...) if t is not None and t != ""]`: what filter(None, ...) does
                    if skips or keeps:
                        filt.append(st)
        consts = [set(c.value for c in ast.walk(st.test) if isinstance(c, ast.Constant)) for st in filt]
        ok = bool(filt) and all(cs == {">", "<"} for cs in consts)
        ctx.check(ok, "R03.3", f.where(outer[0]), "every interval of a stable path is converted (only the orientation signs are skipped)", key_of(f, f"interval-loop-filter:{[sorted(map(str, cs)) for cs in consts]}"))


def r03_4(ctx, run):
    repo = ctx.repo
    gp = repo.find_func("gaftools.gfa", "GFA.get_path")
    if gp is None:
        raise AnalysisError("R03.4", "gaftools/gfa.py", "GFA.get_path vanished")
    sites = []
    for f in repo.all_funcs():
        if f.module.name in ("gaftools.cli.index", "gaftools.cli.view"):
            for c in walk_own(f.node):
                if isinstance(c, ast.Call) and isinstance(c.func, ast.Attribute) and c.func.attr == "get_path":
                    ba = repo.bound_args(f, c)
                    if ba is None or len(gp.params) < 3:
                        raise AnalysisError("R03.4", f.where(c), "cannot bind the arguments of the get_path call")
                    mode_param = gp.params[2]  # (self, contig, <strictness flag>)
                    mode = const_value(ba.get(mode_param), "?") if ba.get(mode_param) is not None else "?"
                    sites.append((f, c, mode))
    ctx.require_count("R03.4", len(sites), 2, "gaftools/cli", "segment-table builders calling GFA.get_path")
    modes = {str(m) for _, _, m in sites}
    for f, c, mode in sites:
        ctx.check(mode is False, "R03.4", f.where(c), "the per-contig segment table is built with get_path(..., throw_warning=False): contigs whose segments are not adjacent in the graph (haplotype contigs) still get a table", key_of(f, f"get_path-mode:{norm(c)}"), mode=str(mode), all_modes=sorted(modes))
    # the mode parameter really changes only the non-linear case: default mode returns an empty list there
    rets = [r for r in walk_own(gp.node) if isinstance(r, ast.Return)]
    ctx.holds("R03.4", gp.where(), f"GFA.get_path has {len(rets)} return sites; the default mode returns an empty list for non-linear contigs", nontrivial=False)


def r03_7(ctx):
    """Per-contig segment tables are SO-sorted: every builder fills them from GFA.get_path(...), and get_path returns
    the SO-sorted list on every non-empty return; the binary search relies on it."""
    repo = ctx.repo
    gp = repo.func("gaftools.gfa", "GFA.get_path", "R03.7")
    ctx.analysed_func(gp)
    from ..core import inlined, tail_inlined

    gp = inlined(repo, tail_inlined(repo, gp, keep=lambda c: not c.name.startswith("_")))  # private helpers (a sorting helper) read in place
    def key_text(key):
        """text of the value a sort key computes from its argument; None = no key; "?" = not resolved"""
        if key is None:
            return None
        if isinstance(key, ast.Lambda):
            return norm(key.body)
        if isinstance(key, ast.Call) and norm(key.func) in ("operator.itemgetter", "itemgetter") and len(key.args) == 1 and isinstance(const_value(key.args[0], None), int):
            return f"item[{const_value(key.args[0])}]"
        kf = repo.resolve_callable(gp, key)
        if kf is not None:
            kr = [r for r in walk_own(kf.node) if isinstance(r, ast.Return) and r.value is not None]
            if len(kr) == 1:
                from ..core import resolve_expr

                return resolve_expr(kf.node, kr[0].value)
        return "?"

    def numeric_so(t):
        return t is not None and t.startswith("int(") and "tags['SO'][1]" in t

    sorted_vars, text_sorted, reversed_sorted, unknown_sort = set(), [], [], []
    decorated = {}  # list of (int(SO), id) pairs -> True
    for st in walk_stmts(gp.node.body):
        if isinstance(st, ast.Assign) and len(st.targets) == 1 and isinstance(st.targets[0], ast.Name) and isinstance(st.value, ast.ListComp) and isinstance(st.value.elt, ast.Tuple) and len(st.value.elt.elts) == 2 and numeric_so(norm(st.value.elt.elts[0])) and norm(st.value.elt.elts[1]) == norm(st.value.generators[0].target) and not st.value.generators[0].ifs:
            decorated[st.targets[0].id] = False  # pairs (numeric SO, id), not yet sorted
    for st in walk_stmts(gp.node.body):
        call = tgt = None
        if isinstance(st, ast.Assign) and len(st.targets) == 1 and isinstance(st.targets[0], ast.Name) and isinstance(st.value, ast.Call) and norm(st.value.func) == "sorted" and st.value.args:
            call, tgt, src = st.value, st.targets[0].id, norm(st.value.args[0])
        elif isinstance(st, ast.Expr) and isinstance(st.value, ast.Call) and isinstance(st.value.func, ast.Attribute) and st.value.func.attr == "sort" and isinstance(st.value.func.value, ast.Name):
            call, tgt, src = st.value, st.value.func.value.id, st.value.func.value.id
        if call is None:
            continue
        key = [k.value for k in call.keywords if k.arg == "key"]
        rev = [k for k in call.keywords if k.arg == "reverse" and const_value(k.value, "?") is not False]
        kt = key_text(key[0] if key else None)
        if src in decorated:
            # a list of (int(SO), id) pairs: sorted by the pair or by its first item
            if rev:
                reversed_sorted.append(st)
            elif kt in (None, "item[0]") or (kt or "").endswith("[0]"):
                decorated[tgt] = True
            else:
                unknown_sort.append(st)
            continue
        if rev:
            reversed_sorted.append(st)
        elif numeric_so(kt):
            sorted_vars.add(tgt)
        elif kt is not None and kt != "?" and "tags['SO'][1]" in kt and "int(" not in kt and "float(" not in kt:
            text_sorted.append(st)
        elif kt is not None and kt != "?" and "tags['SO']" not in kt and any(f"tags['{o_}']" in kt for o_ in ("SR", "LN", "SN", "BO", "NO")):
            other_ = next(o_ for o_ in ("SR", "LN", "SN", "BO", "NO") if f"tags['{o_}']" in kt)
            ctx.violated("R03.7", gp.where(st), f"`{norm(st)[:70]}` orders the contig's segments by their {other_} tag, not by the offset SO: all segments of a contig share one rank, the stable sort leaves them in file order, and the interval search then bisects an unsorted list", key_of(gp, f"sorted-by-other-tag:{other_}"))
            unknown_sort.append(st)
        else:
            unknown_sort.append(st)
    # undecorate: [x for _, x in pairs] / [p[1] for p in pairs]
    for st in walk_stmts(gp.node.body):
        if isinstance(st, ast.Assign) and len(st.targets) == 1 and isinstance(st.targets[0], ast.Name) and isinstance(st.value, ast.ListComp) and len(st.value.generators) == 1 and not st.value.generators[0].ifs:
            g_ = st.value.generators[0]
            if isinstance(g_.iter, ast.Name) and decorated.get(g_.iter.id) is True:
                t_ = g_.target
                second = (isinstance(t_, ast.Tuple) and len(t_.elts) == 2 and norm(st.value.elt) == norm(t_.elts[1])) or (isinstance(t_, ast.Name) and norm(st.value.elt) == f"{t_.id}[1]")
                if second:
                    sorted_vars.add(st.targets[0].id)
    rets = [r for r in walk_own(gp.node) if isinstance(r, ast.Return) and r.value is not None]
    srcs = {norm(st.value) for st in walk_stmts(gp.node.body) if isinstance(st, ast.Assign) and "contig_to_nodes" in norm(st.value)} | {norm(st.targets[0]) for st in walk_stmts(gp.node.body) if isinstance(st, ast.Assign) and "contig_to_nodes" in norm(st.value)}
    bad, unknown = [], []
    for r in rets:
        t = norm(r.value)
        if t in sorted_vars or t in ("list()", "[]"):
            continue
        if t in srcs or "contig_to_nodes" in t or (isinstance(r.value, ast.Call) and norm(r.value.func) == "list" and r.value.args and norm(r.value.args[0]) in srcs):
            bad.append(t)  # the contig's segment list in file order
        else:
            unknown.append(t)
    # with the strictness flag off, only a contig without segments gives an empty table
    if len(gp.params) >= 3:
        mode_p = gp.params[2]
        try:
            gpaths = enum_paths(gp.node.body, rule="R03.7", where=gp.where())
        except AnalysisError:
            gpaths = []
        for p_ in gpaths:
            if p_.term != "return" or p_.term_node is None or p_.term_node.value is None or norm(p_.term_node.value) not in ("list()", "[]"):
                continue
            tests = [canon_test(t_, pol_) for t_, pol_ in p_.tests()]
            strict = any(t_ == mode_p and pol_ is True for t_, pol_ in tests) or any(mode_p in t_ and t_ != mode_p for t_, pol_ in tests)
            empty_src = any((pol_ is True and (t_.endswith("== []") or t_.endswith("== 0"))) or (pol_ is False and (t_ in srcs or t_.startswith("len("))) for t_, pol_ in tests)
            if not strict and not empty_src:
                ctx.violated("R03.7", gp.where(p_.term_node), f"GFA.get_path returns an empty list for a contig that has segments even when `{mode_p}` is off ({[t_ + ('' if pol_ else ' is false') for t_, pol_ in tests][-2:]}): the per-contig tables of view / index are built with that flag off precisely to get the sorted segments of contigs that are not one linear path (haplotype contigs), and stable coordinates on them can then not be converted", key_of(gp, "get-path-empty-nonstrict"), path=p_.show())
                break
    for st in text_sorted:
        ctx.violated("R03.7", gp.where(st), f"`{norm(st)[:80]}` orders the contig's segments by the text of their SO tag: '1000' sorts before '200', so the table handed to the binary search is not in numeric order", key_of(gp, "get-path-sorted:text-key"))
    for st in reversed_sorted:
        ctx.violated("R03.7", gp.where(st), f"`{norm(st)[:80]}` orders the contig's segments in descending order: the binary search expects ascending SO", key_of(gp, "get-path-sorted:reversed"))
    if bad:
        ctx.violated("R03.7", gp.where(), f"GFA.get_path returns `{bad[0]}`, the contig's segments in file order, on some non-empty return: the binary search expects them sorted by SO", key_of(gp, f"get-path-sorted:{bad}"), returns=[norm(r.value) for r in rets])
    if not (text_sorted or reversed_sorted or bad):
        if unknown or unknown_sort or not sorted_vars:
            raise AnalysisError("R03.7", gp.where(), f"cannot establish that GFA.get_path returns the contig's segments sorted numerically by SO (returns not traced: {unknown}; sorts not read: {[norm(x)[:50] for x in unknown_sort]})")
        ctx.holds("R03.7", gp.where(), "GFA.get_path returns the contig's segments sorted numerically by their SO tag on every non-empty return (also for contigs that are not a linear path)", returns=[norm(r.value) for r in rets])
    from .shared import groupby_tables

    if ctx.prop != "C03":
        groupby_tables(ctx, [f_ for f_ in repo.all_funcs() if f_.module.name in ("gaftools.cli.index", "gaftools.cli.view")], "R03.7")
    n = 0
    for f in repo.all_funcs():
        if f.module.name not in ("gaftools.cli.index", "gaftools.cli.view"):
            continue
        for st in walk_own(f.node):
            if isinstance(st, ast.Expr) and isinstance(st.value, ast.Call) and isinstance(st.value.func, ast.Attribute) and st.value.func.attr == "append" and isinstance(st.value.func.value, ast.Subscript) and st.value.args and isinstance(st.value.args[0], ast.Subscript):
                loop = None
                for l in walk_own(f.node):
                    if isinstance(l, ast.For) and any(x is st for x in l.body):
                        loop = l
                # X[contig].append(G[node]) with node the variable of the enclosing loop and contig that of an outer loop
                if loop is None or norm(st.value.args[0].slice) != norm(loop.target):
                    continue
                outer = [l for l in walk_own(f.node) if isinstance(l, ast.For) and l is not loop and any(x is loop for x in ast.walk(l)) and norm(l.target) == norm(st.value.func.value.slice)]
                if not outer:
                    continue
                n += 1
                src = None
                if loop is not None:
                    it = loop.iter
                    if isinstance(it, ast.Name):
                        d = [a for a in walk_own(f.node) if isinstance(a, ast.Assign) and norm(a.targets[0]) == it.id and f.before(a, loop)]
                        src = d[-1].value if d else None
                    else:
                        src = it
                ok = isinstance(src, ast.Call) and isinstance(src.func, ast.Attribute) and src.func.attr == "get_path" and loop is not None and not any(isinstance(x, (ast.If, ast.Continue, ast.Break)) for x in ast.walk(loop))
                ctx.check(ok, "R03.7", f.where(st), "the per-contig segment table is filled, unfiltered, from GFA.get_path (SO order), not from the file-order registry", key_of(f, f"table-source:{norm(src) if src is not None else None}"), source=norm(src) if src is not None else None)
    # comprehension spelling: table[contig] = [G[node] for node in SRC]
    for f in repo.all_funcs():
        if f.module.name not in ("gaftools.cli.index", "gaftools.cli.view"):
            continue
        for st in walk_own(f.node):
            if isinstance(st, ast.Assign) and isinstance(st.targets[0], ast.Subscript) and isinstance(st.value, ast.ListComp) and len(st.value.generators) == 1 and isinstance(st.value.elt, ast.Subscript) and norm(st.value.elt.slice) == norm(st.value.generators[0].target):
                outer = [l for l in walk_own(f.node) if isinstance(l, ast.For) and any(x is st for x in ast.walk(l)) and norm(l.target) == norm(st.targets[0].slice)]
                if not outer:
                    continue
                n += 1
                src = st.value.generators[0].iter
                if isinstance(src, ast.Name):
                    d = [a for a in walk_own(f.node) if isinstance(a, ast.Assign) and norm(a.targets[0]) == src.id and f.before(a, st)]
                    src = d[-1].value if d else src
                ok = isinstance(src, ast.Call) and isinstance(src.func, ast.Attribute) and src.func.attr == "get_path" and not st.value.generators[0].ifs
                ctx.check(ok, "R03.7", f.where(st), "the per-contig segment table is filled, unfiltered, from GFA.get_path (SO order), not from the file-order registry", key_of(f, f"table-source:{norm(src)}"), source=norm(src))
    # by role: a table that is handed to the converters / searched by the binary search, filled straight from the node
    # registry (file order) and never sorted
    for f in repo.all_funcs():
        if f.module.name not in ("gaftools.cli.index", "gaftools.cli.view"):
            continue
        tables = set()
        for c in walk_own(f.node):
            if isinstance(c, ast.Call):
                callee = repo.resolve_call(f, c)
                if callee is not None and callee.module.name == "gaftools.conversion":
                    tables |= {a.id for a in c.args if isinstance(a, ast.Name)}
                if callee is not None and len(callee.params) == 5 and c.args and isinstance(c.args[0], ast.Subscript) and isinstance(c.args[0].value, ast.Name):
                    tables.add(c.args[0].value.id)
        for st in walk_own(f.node):
            if not (isinstance(st, ast.Expr) and isinstance(st.value, ast.Call) and isinstance(st.value.func, ast.Attribute) and st.value.func.attr == "append" and isinstance(st.value.func.value, ast.Subscript) and isinstance(st.value.func.value.value, ast.Name) and st.value.func.value.value.id in tables):
                continue
            tname = st.value.func.value.value.id
            loops = [l for l in walk_own(f.node) if isinstance(l, ast.For) and any(x is st for x in ast.walk(l))]
            inner = None
            for l in loops:
                if inner is None or any(x is l for x in ast.walk(inner)):
                    inner = l
            if inner is None:
                continue
            it = norm(inner.iter)
            from_registry = it.endswith(".nodes.values()") or it.endswith(".nodes") or it.endswith(".nodes.items()") or it.endswith(".nodes.keys()")
            sorted_later = any(isinstance(c, ast.Call) and ((isinstance(c.func, ast.Attribute) and c.func.attr == "sort" and norm(c.func.value).startswith(tname)) or (isinstance(c.func, ast.Name) and c.func.id == "sorted" and c.args and tname in norm(c.args[0]))) for c in walk_own(f.node))
            if from_registry and not sorted_later:
                n += 1
                ctx.violated("R03.7", f.where(st), f"the per-contig segment table `{tname}` is filled in one pass over the node registry (`{it}`: the order of the S lines in the file) and never sorted: the binary search over a contig's segments needs them in SO order, so in a graph whose S lines are not in SO order segments are not found (records missing from the index, nodes missing from converted paths)", key_of(f, f"table-source:{it}"))
    ctx.require_count("R03.7", n, 2, "gaftools/cli", "builders of per-contig segment tables")


def r03_5(ctx, run, info):
    repo = ctx.repo
    sl = info["store_loop"]
    keys = []
    a = norm(sl.target)
    for n in ast.walk(sl):
        if isinstance(n, ast.Subscript) and isinstance(n.slice, ast.Tuple) and len(n.slice.elts) >= 3:
            keys.append(n.slice)
        elif isinstance(n, ast.Subscript) and isinstance(n.slice, ast.Call):
            # key built by a helper: inline its returned tuple with the parameter replaced by the argument
            h = repo.resolve_call(run, n.slice)
            if h is not None:
                rets = [r for r in walk_own(h.node) if isinstance(r, ast.Return) and isinstance(r.value, ast.Tuple)]
                hp = [p_ for p_ in h.params if p_ != "self"]
                if len(rets) == 1 and len(hp) == len(n.slice.args) == 1:
                    import copy
                    import re as _re

                    from ..core import resolve_expr

                    src = resolve_expr(h.node, rets[0].value)
                    src = _re.sub(rf"(?<![\w.]){_re.escape(hp[0])}(?![\w])", norm(n.slice.args[0]), src)
                    keys.append(ast.parse(src, mode="eval").body)
    ctx.require_count("R03.5", len(keys), 2, run.where(sl), "index key tuples in the writer")
    for k in keys:
        e = [norm(x) for x in k.elts]
        ok = len(e) == 4 and e[0].endswith(".id") and "tags['SN'][1]" in e[1] and e[2].startswith("int(") and "tags['SO'][1]" in e[2] and "tags['SO'][1]" in e[3] and "tags['LN'][1]" in e[3] and "+" in e[3] and all(f"[{a}]" in x for x in e)
        ctx.check(ok, "R03.5", run.where(k), "the index key is (node id, contig name SN, start SO, end SO+LN) of the traversed node", key_of(run, f"key:{e}"), key=e)
    ctx.check(len({norm(k) for k in keys}) == 1, "R03.5", run.where(sl), "the entry created and the entry appended to use the same key", key_of(run, "key-agreement"))
    # readers in view
    view = repo.module("gaftools.cli.view", "R03.5")
    uses = []
    for f in view.funcs.values():
        for n in walk_own(f.node):
            if isinstance(n, ast.Lambda):
                arg = n.args.args[0].arg if n.args.args else None
                import re as _re

                body_txt = _re.sub(rf"(?<![\w.]){_re.escape(arg)}(?![\w])", "x", norm(n.body)) if arg else norm(n.body)
                for s in ast.walk(n.body):
                    if isinstance(s, ast.Subscript) and isinstance(s.value, ast.Name) and s.value.id == arg and isinstance(const_value(s.slice), int):
                        uses.append((f, n, const_value(s.slice), body_txt))
            if isinstance(n, (ast.ListComp, ast.GeneratorExp, ast.DictComp, ast.SetComp)) and len(n.generators) == 1 and isinstance(n.generators[0].target, ast.Name):
                import re as _re

                arg = n.generators[0].target.id
                exprs = list(n.generators[0].ifs) + ([n.key, n.value] if isinstance(n, ast.DictComp) else [n.elt])
                for ex in exprs:
                    for sub in ast.walk(ex):
                        if isinstance(sub, ast.Compare) or sub is ex:
                            txt = _re.sub(rf"(?<![\w.]){_re.escape(arg)}(?![\w])", "x", norm(sub))
                            for s2 in ast.walk(sub):
                                if isinstance(s2, ast.Subscript) and isinstance(s2.value, ast.Name) and s2.value.id == arg and isinstance(const_value(s2.slice), int):
                                    uses.append((f, n, const_value(s2.slice), txt))
    ok_all = all(0 <= i <= 3 for _, _, i, _ in uses)
    ctx.check(ok_all and len(uses) >= 3, "R03.5", view.relpath, "every positional read of an index key in view uses a position 0..3 of the 4-tuple", key_of(next(iter(view.funcs.values())), f"key-reads:{sorted({i for _, _, i, _ in uses})}"), reads=[(f.qualname, i, b) for f, _, i, b in uses])
    # role checks: sort by (contig, start) = (x[1], x[2]); per-contig filter x[1] == contig; sort by start x[2]
    bodies = {b for _, _, _, b in uses}
    roles_ok = any(b.replace(" ", "") in ("(x[1],x[2])",) for b in bodies) and any("x[1] == " in b for b in bodies) and any(b in ("x[2]",) for b in bodies)
    ctx.check(roles_ok, "R03.5", view.relpath, "view reads position 1 as contig name and position 2 as start, as the writer stores them", key_of(next(iter(view.funcs.values())), f"key-roles:{sorted(bodies)}"), bodies=sorted(bodies))
    # the extra non-tuple entry is keyed by a string and holds the rank-0 contigs
    extra = [st for st in walk_own(run.node) if isinstance(st, ast.Assign) and isinstance(st.targets[0], ast.Subscript) and isinstance(st.targets[0].slice, ast.Constant) and isinstance(st.targets[0].slice.value, str)]
    ctx.check(len(extra) <= 1, "R03.5", run.where(), "at most one non-node entry is stored in the index", key_of(run, "extra-entries"))


def _calls_sniffer(f, test):
    from ..core import find_sniffer, same_func

    repo = getattr(f.module, "repo", None)
    if repo is None:
        return "is_file_gzipped" in norm(test)
    sn = getattr(repo, "_sniffer", None)
    if sn is None:
        sn = repo._sniffer = find_sniffer(repo, "R03.6")
    return any(isinstance(c, ast.Call) and same_func(repo.resolve_call(f, c), sn) for c in ast.walk(sniff_test(f, test)))


def sniff_test(f, test):
    """the test itself, or - for a test on a local that holds the sniffer's answer (`gz = is_file_gzipped(p); if gz:`) -
    the test with that local written out (the local is bound once, to a call)"""
    import copy

    names = [n for n in ast.walk(test) if isinstance(n, ast.Name)]
    if not names:
        return test
    defs = {}
    for st in walk_own(f.node):
        if isinstance(st, ast.Assign) and len(st.targets) == 1 and isinstance(st.targets[0], ast.Name):
            defs.setdefault(st.targets[0].id, []).append(st.value)
    env = {k: v[0] for k, v in defs.items() if len(v) == 1 and isinstance(v[0], ast.Call) and k not in f.params}
    if not any(n.id in env for n in names):
        return test

    class R(ast.NodeTransformer):
        def visit_Name(self, n):
            return copy.deepcopy(env[n.id]) if n.id in env and isinstance(n.ctx, ast.Load) else n

    return ast.fix_missing_locations(R().visit(copy.deepcopy(test)))


def opener_shape(f):
    """(sniff test text, then-open text, else-open text) of the `if is_file_gzipped(p): h = BGZFile(p,'rb') else: h = open(p, mode)` idiom in f."""
    from ..paths import canon_test

    out = []
    stored = {x.id for x in walk_own(f.node) if isinstance(x, ast.Name) and isinstance(x.ctx, ast.Store)}
    if any(isinstance(x, ast.Call) and isinstance(x.func, ast.Name) and x.func.id in stored for x in walk_own(f.node)) or any(isinstance(x, ast.With) and any(isinstance(i.context_expr, ast.IfExp) for i in x.items) for x in walk_own(f.node)):
        from ..core import inline_callable_aliases, sink_into_branches, desugar_ifexp

        f = inline_callable_aliases(sink_into_branches(desugar_ifexp(f)))  # `opener = A if gz else B; h = opener(path)`
    for n in walk_own(f.node):
        if isinstance(n, ast.If) and _calls_sniffer(f, n.test):
            t, pol = canon_test(n.test, True)
            then, other = n.body, n.orelse
            if not other and then and isinstance(then[-1], (ast.Return, ast.Raise, ast.Continue, ast.Break)):
                # early-exit form: the other branch is what follows the If in its statement list
                for nd in ast.walk(f.node):
                    for fld in ("body", "orelse", "finalbody"):
                        lst = getattr(nd, fld, None)
                        if isinstance(lst, list) and any(x is n for x in lst):
                            other = lst[lst.index(n) + 1 :]
            gz, plain = (then, other) if pol else (other, then)
            a = [st for st in gz if isinstance(st, ast.Assign) and isinstance(st.value, ast.Call)]
            b = [st for st in plain if isinstance(st, ast.Assign) and isinstance(st.value, ast.Call)]
            if a and b:
                out.append((OpenerIf(n, gz, plain), a[0], b[0]))
    return out


class OpenerIf:
    """The sniffing If with its branches normalised: .body = compressed branch, .orelse = plain branch."""

    def __init__(self, node, gz, plain):
        self.node = node
        self.body = gz
        self.orelse = plain
        t = node.test
        while isinstance(t, ast.UnaryOp) and isinstance(t.op, ast.Not):
            t = t.operand
        self.test = t
        self.lineno = node.lineno


def r03_6(ctx, run, info):
    repo = ctx.repo
    h = info["handle"]
    shapes = [s for s in opener_shape(run) if norm(s[1].targets[0]) == h]
    if not shapes:
        # opened through a helper of the program (a shared opener): the helper is read instead
        for st in walk_own(run.node):
            if isinstance(st, ast.Assign) and norm(st.targets[0]) == h:
                for c in ast.walk(st.value):
                    cal = repo.resolve_call(run, c) if isinstance(c, ast.Call) else None
                    if cal is not None:
                        hs = opener_shape(cal)
                        if hs:
                            shapes = hs[:1]
                            run = cal
                        else:
                            raise AnalysisError("R03.6", run.where(st), f"the indexed file is opened through `{norm(c)[:50]}`, whose opener idiom is not recognised")
    if not shapes:
        # how is the handle opened at all?
        defs = [norm(st.value) for st in walk_own(run.node) if isinstance(st, ast.Assign) and norm(st.targets[0]) == h]
        if any(isinstance(st, ast.Assign) and norm(st.targets[0]) == h and isinstance(st.value, ast.Call) and isinstance(st.value.func, ast.Name) and st.value.func.id in {x.id for x in walk_own(run.node) if isinstance(x, ast.Name) and isinstance(x.ctx, ast.Store)} for st in walk_own(run.node)):
            raise AnalysisError("R03.6", run.where(), f"the handle is opened through a local callable ({defs}) this rule cannot resolve")
        if not defs:
            # bound by a `with helper(path) as h:` of a program context manager: the helper is read instead
            for w_ in walk_own(run.node):
                if isinstance(w_, ast.With):
                    for it_ in w_.items:
                        if it_.optional_vars is not None and norm(it_.optional_vars) == h and isinstance(it_.context_expr, ast.Call):
                            cal = repo.resolve_call(run, it_.context_expr)
                            if cal is not None and opener_shape(cal) and any(isinstance(y_, ast.Yield) and y_.value is not None and norm(y_.value) == norm(opener_shape(cal)[0][1].targets[0]) for y_ in walk_own(cal.node)):
                                shapes = opener_shape(cal)[:1]
                                run = cal
                            else:
                                raise AnalysisError("R03.6", run.where(w_), f"the indexed file is opened by the context manager `{norm(it_.context_expr)[:50]}`, which this rule cannot follow to the opener")
        if not shapes and not defs:
            raise AnalysisError("R03.6", run.where(), f"cannot find where the handle `{h}` whose tell() is stored is opened")
    if not shapes:
        if any("BGZFile(" in d for d in defs) and any(d.startswith("open(") for d in defs):
            raise AnalysisError("R03.6", run.where(), f"the handle is opened as {defs} under a test this rule does not read as the compression sniff of the same path")
        ctx.violated("R03.6", run.where(), f"the handle whose tell() is stored is opened as {defs}, not with the sniff -> (BGZFile | open) pair the seeking reader uses", key_of(run, f"opener:{defs}"), opened=defs)
        return
    n, a, b = shapes[0]
    init = repo.func("gaftools.gaf", "GAF.__init__", "R03.6")
    ref = opener_shape(init)
    if not ref:
        raise AnalysisError("R03.6", init.where(), "the seeking reader's opener idiom was not recognised")
    rn, ra, rb = ref[0]

    def sig(call):
        return (norm(call.func).split(".")[-1], tuple(const_value(x, "?") for x in call.args[1:]))

    def textmode(mode):
        return mode in ("r", "rt", ())

    ok_gz = sig(a.value) == sig(ra.value)
    m1 = sig(b.value)
    m2 = sig(rb.value)
    ok_plain = m1[0] == m2[0] == "open" and all(x in ("r", "rt") for x in (m1[1] or ("r",))) and all(x in ("r", "rt") for x in (m2[1] or ("r",)))
    ctx.check(ok_gz and ok_plain, "R03.6", run.where(n), "the indexed file is opened exactly like the reader that later seeks the stored offsets: sniffed, BGZFile(path, 'rb') for compressed input, text-mode open otherwise", key_of(run, f"opener-agreement:{sig(a.value)}/{m1}"), index=(sig(a.value), m1), reader=(sig(ra.value), m2))
    # both sniff the same path they open
    nt = sniff_test(run, n.test)  # the test, with a local that holds the sniffer's answer written out
    ok_path = norm(nt.args[0]) == norm(a.value.args[0]) == norm(b.value.args[0]) if isinstance(nt, ast.Call) and nt.args else False
    if not isinstance(nt, ast.Call):
        raise AnalysisError("R03.6", run.where(n), f"cannot read which path the sniffing test `{norm(n.test)[:50]}` looks at")
    ctx.check(ok_path, "R03.6", run.where(n), "the path sniffed is the path opened", key_of(run, "sniff-path"))
