"""Shared model of gaftools/cli/realign.py for C11, C12, C13: worker, result channel, collection loops."""

from __future__ import annotations

import ast

from ..core import AnalysisError, const_value, norm, walk_own, walk_stmts
from ..paths import enum_paths


class Model:
    pass


def build(ctx, rule):
    repo = ctx.repo
    mod = repo.module("gaftools.cli.realign", rule)
    m = Model()
    m.mod = mod
    # parent: the function that creates processes with mp.Process(target=<program function>)
    m.parent = None
    m.worker = None
    m.proc_ctor_calls = []
    for f in mod.funcs.values():
        for n in walk_own(f.node):
            if isinstance(n, ast.Call) and norm(n.func).endswith("Process"):
                tgt = [k.value for k in n.keywords if k.arg == "target"]
                if tgt:
                    w = repo.resolve_callable(f, tgt[0])
                    if w is not None:
                        m.parent = f
                        m.worker = w
                        m.proc_ctor_calls.append(n)
    if m.parent is None or m.worker is None:
        raise AnalysisError(rule, mod.relpath, "cannot find the parent that creates worker processes (mp.Process(target=...))")
    ctx.analysed_func(m.parent)
    ctx.analysed_func(m.worker)
    pf = m.parent
    # channel variables: assigned from <mp>.Queue()
    m.channels = set()
    m.pqueues = set()
    for n in walk_own(pf.node):
        if isinstance(n, ast.Assign) and isinstance(n.value, ast.Call) and len(n.targets) == 1:
            fn = norm(n.value.func)
            if fn.endswith("PriorityQueue"):
                m.pqueues.add(norm(n.targets[0]))
            elif fn.endswith(".Queue") and not fn.startswith("queue."):
                m.channels.add(norm(n.targets[0]))
    if not m.channels:
        raise AnalysisError(rule, pf.where(), "cannot find the multiprocessing result queue")
    # process list variable: X.append(mp.Process(...))
    m.proc_lists = set()
    for n in walk_own(pf.node):
        if isinstance(n, ast.Call) and isinstance(n.func, ast.Attribute) and n.func.attr == "append" and n.args and any(n.args[0] is c for c in m.proc_ctor_calls):
            m.proc_lists.add(norm(n.func.value))
    # collection loops: while loops whose body contains <channel>.get(...)
    m.loops = []
    m.channel_gets = []
    for n in walk_own(pf.node):
        if isinstance(n, ast.Call) and isinstance(n.func, ast.Attribute) and n.func.attr in ("get", "get_nowait") and norm(n.func.value) in m.channels:
            m.channel_gets.append(n)
    for n in walk_own(pf.node):
        if isinstance(n, ast.While):
            gets = [g for g in m.channel_gets if any(x is g for x in ast.walk(n))]
            inner = [w for w in ast.walk(n) if isinstance(w, ast.While) and w is not n and any(x is g for g in gets for x in ast.walk(w))]
            if gets and not inner:
                m.loops.append(CollectionLoop(m, n, gets))
    return m


class CollectionLoop:
    def __init__(self, model, node, gets):
        self.model = model
        self.node = node
        self.gets = gets
        pf = model.parent
        # the statement `v = channel.get(...)`
        self.get_stmt = None
        self.var = None
        for st in walk_stmts(node.body):
            if isinstance(st, ast.Assign) and any(st.value is g for g in gets) and isinstance(st.targets[0], ast.Name):
                self.get_stmt = st
                self.var = st.targets[0].id
        self.paths = enum_paths(node.body, rule="R11.1", where=pf.where(node))

    def where(self):
        return self.model.parent.where(self.node)


def helper_kind(repo, func, call):
    """Classify a helper `h(processes)` of the form
         for p in processes: if C(p): return K1
         return K2
    -> ('alive_any' | 'alive_all' | 'exit_all_zero' | 'exit_any_nonzero' | None, polarity)
    meaning: helper(...) is True  <=>  <kind> has value `polarity`."""
    h = repo.resolve_call(func, call)
    if h is None:
        return None
    body = [st for st in h.node.body if not (isinstance(st, ast.Expr) and isinstance(st.value, ast.Constant))]
    if len(body) != 2 or not isinstance(body[0], ast.For) or not isinstance(body[1], ast.Return):
        return None
    loop, final = body
    if len(loop.body) != 1 or not isinstance(loop.body[0], ast.If) or loop.orelse:
        return None
    iff = loop.body[0]
    if len(iff.body) != 1 or not isinstance(iff.body[0], ast.Return) or iff.orelse:
        return None
    k1 = const_value(iff.body[0].value)
    k2 = const_value(final.value)
    if not isinstance(k1, bool) or not isinstance(k2, bool) or k1 == k2:
        return None
    pvar = norm(loop.target)
    test = iff.test
    neg = False
    while isinstance(test, ast.UnaryOp) and isinstance(test.op, ast.Not):
        test = test.operand
        neg = not neg
    src = norm(test)
    # predicate on one process
    if src == f"{pvar}.is_alive()":
        pred, ppol = "alive", not neg
    elif isinstance(test, ast.Compare) and norm(test.left) == f"{pvar}.exitcode" and len(test.ops) == 1 and const_value(test.comparators[0]) == 0:
        if isinstance(test.ops[0], ast.NotEq):
            pred, ppol = "exit_zero", neg  # exitcode != 0  <=> not zero
        elif isinstance(test.ops[0], ast.Eq):
            pred, ppol = "exit_zero", not neg
        else:
            return None
    else:
        return None
    # helper == k1 iff exists p: pred(p) == ppol ; helper == k2 iff forall p: pred(p) != ppol
    # express as a quantified fact that is True iff helper returns True
    if k1 is True:
        # True iff exists p with pred==ppol
        if pred == "alive":
            return ("alive_any", True) if ppol else ("alive_all", False)
        return ("exit_any_nonzero", True) if not ppol else ("exit_any_zero", True)
    else:
        # True iff forall p: pred != ppol
        if pred == "alive":
            return ("alive_all", True) if not ppol else ("alive_any", False)
        return ("exit_all_zero", True) if not ppol else ("exit_all_nonzero", True)


def test_facts(repo, func, expr, pol):
    """Facts implied by evaluating `expr` with outcome `pol`:  {'alive_any': bool, 'exit_all_zero': bool}"""
    facts = {}
    while isinstance(expr, ast.UnaryOp) and isinstance(expr.op, ast.Not):
        expr = expr.operand
        pol = not pol
    if isinstance(expr, ast.Call):
        hk = helper_kind(repo, func, expr)
        if hk:
            kind, kpol = hk
            val = pol if kpol else (not pol)
            # normalise kinds
            if kind == "alive_any":
                facts["alive_any"] = val
            elif kind == "exit_all_zero":
                facts["exit_all_zero"] = val
            elif kind == "exit_any_nonzero":
                facts["exit_all_zero"] = not val
            elif kind == "alive_all" and val is True:
                facts["alive_any"] = True
    return facts


def exit_status(st):
    """For a sys.exit(...) statement: the constant status, or '?'."""
    call = st.value
    if not call.args:
        return None  # sys.exit() == status 0
    v = const_value(call.args[0], "?")
    return v
