"""Shared model of gaftools/cli/realign.py for C11, C12, C13: worker, result channel, collection loops."""

from __future__ import annotations

import ast

from ..core import AnalysisError, const_value, norm, walk_own, walk_stmts
from ..paths import enum_paths


class Model:
    pass


class CtorSite:
    """A place in the parent where a worker process is created: node = the call expression in the parent,
    batch / queue = the argument expressions handed to the worker."""

    def __init__(self, node, batch, queue):
        self.node, self.batch, self.queue = node, batch, queue


def _process_ctor(repo, f, call):
    """If `call` is mp.Process(target=<program function>, args=(a, b)) -> (worker, a, b) else None."""
    if isinstance(call, ast.Call) and norm(call.func).endswith("Process"):
        tgt = [k.value for k in call.keywords if k.arg == "target"]
        args = [k.value for k in call.keywords if k.arg == "args"]
        if tgt:
            w = repo.resolve_callable(f, tgt[0])
            if w is not None:
                a = args[0].elts if args and isinstance(args[0], ast.Tuple) else []
                return w, (a[0] if len(a) > 0 else None), (a[1] if len(a) > 1 else None)
    return None


def build(ctx, rule):
    repo = ctx.repo
    mod = repo.module("gaftools.cli.realign", rule)
    m = Model()
    m.mod = mod
    # parent: the function whose while-loops read a multiprocessing queue created in that same function
    m.parent = None
    from ..core import de_enumerate, tail_inlined, inline_single_use_generators

    for f in [inline_single_use_generators(de_enumerate(tail_inlined(repo, f0))) for f0 in mod.funcs.values()]:
        chans = set()
        for n in walk_own(f.node):
            if isinstance(n, ast.Assign) and isinstance(n.value, ast.Call) and len(n.targets) == 1:
                fn = norm(n.value.func)
                if fn.endswith(".Queue") and not fn.startswith("queue."):
                    chans.add(norm(n.targets[0]))
        if chans and any(isinstance(w, ast.While) and any(isinstance(c, ast.Call) and isinstance(c.func, ast.Attribute) and c.func.attr in ("get", "get_nowait") and norm(c.func.value) in chans for c in ast.walk(w)) for w in walk_own(f.node)):
            m.parent = f
            m.channels = chans
    if m.parent is None:
        raise AnalysisError(rule, mod.relpath, "cannot find the parent (function whose loops read a multiprocessing queue it created)")
    pf = m.parent
    # worker and constructor sites (directly, or through a helper that returns the Process)
    m.worker = None
    m.ctor_sites = []
    for n in walk_own(pf.node):
        if not isinstance(n, ast.Call):
            continue
        d = _process_ctor(repo, pf, n)
        if d:
            m.worker = d[0]
            m.ctor_sites.append(CtorSite(n, d[1], d[2]))
            continue
        h = repo.resolve_call(pf, n)
        if h is not None and h.module is mod and h is not pf:
            rets = [r for r in walk_own(h.node) if isinstance(r, ast.Return) and r.value is not None]
            if len(rets) == 1:
                d = _process_ctor(repo, h, rets[0].value)
                if d:
                    params = h.params
                    amap = {p_: a for p_, a in zip(params, n.args)}
                    for k in n.keywords:
                        amap[k.arg] = k.value
                    b = amap.get(norm(d[1])) if d[1] is not None else None
                    q = amap.get(norm(d[2])) if d[2] is not None else None
                    m.worker = d[0]
                    m.ctor_sites.append(CtorSite(n, b, q))
                    ctx.analysed_func(h)
    if m.worker is None:
        raise AnalysisError(rule, pf.where(), "cannot find where worker processes are created (mp.Process(target=...))")
    m.proc_ctor_calls = [c.node for c in m.ctor_sites]
    from ..core import hoist_calls

    from ..core import fold_consts

    m.worker = fold_consts(tail_inlined(repo, hoist_calls(repo, m.worker)))  # helpers of the worker (tallies, formatting) are read inlined
    from ..core import guard_clauses_to_else

    m.worker = guard_clauses_to_else(m.worker)  # `if too_long: pass it on; continue` + realignment is the if / else it abbreviates
    if any(isinstance(c, ast.Call) and isinstance(c.func, ast.Attribute) and c.func.attr == "get" and isinstance(c.func.value, ast.Name) and isinstance(m.worker.module.consts.get(c.func.value.id), ast.Dict) for c in walk_own(m.worker.node)):
        from ..core import expand_table_dispatch

        m.worker = fold_consts(expand_table_dispatch(m.worker))  # `kind = OPS.get(code)`: the case analysis it abbreviates
    from ..core import fuse_split_loops, inline_pure_temps

    if len([l for l in walk_own(m.worker.node) if isinstance(l, ast.For) and "cigartuples" in norm(l.iter)]) > 1:
        m.worker = fuse_split_loops(m.worker)  # a tallies pass and a spelling pass over the same operations
    m.worker = inline_pure_temps(m.worker)  # `span = rec.query_end - rec.query_start`, `matches = totals__match` read in place
    ctx.analysed_func(m.parent)
    ctx.analysed_func(m.worker)
    m.pqueues = set()
    for n in walk_own(pf.node):
        if isinstance(n, ast.Assign) and isinstance(n.value, ast.Call) and len(n.targets) == 1:
            if norm(n.value.func).endswith("PriorityQueue"):
                m.pqueues.add(norm(n.targets[0]))
    # process list variable: X.append(<ctor site>)
    m.proc_lists = set()
    for n in walk_own(pf.node):
        if isinstance(n, ast.Call) and isinstance(n.func, ast.Attribute) and n.func.attr == "append" and n.args and any(n.args[0] is c for c in m.proc_ctor_calls):
            m.proc_lists.add(norm(n.func.value))
    # collection loops: while loops whose body contains <channel>.get(...)
    m.loops = []
    m.channel_gets = []
    for n in walk_own(pf.node):
        if isinstance(n, ast.Call) and isinstance(n.func, ast.Attribute) and n.func.attr in ("get", "get_nowait") and norm(n.func.value) in m.channels:
            m.channel_gets.append(n)
    for n in walk_own(pf.node):
        if isinstance(n, ast.While):
            gets = [g for g in m.channel_gets if any(x is g for x in ast.walk(n))]
            inner = [w for w in ast.walk(n) if isinstance(w, ast.While) and w is not n and any(x is g for g in gets for x in ast.walk(w))]
            if gets and not inner:
                m.loops.append(CollectionLoop(m, n, gets))
    return m


class CollectionLoop:
    def __init__(self, model, node, gets):
        self.model = model
        self.node = node
        self.gets = gets
        pf = model.parent
        # the statement `v = channel.get(...)`
        self.get_stmt = None
        self.var = None
        for st in walk_stmts(node.body):
            if isinstance(st, ast.Assign) and any(st.value is g for g in gets) and isinstance(st.targets[0], ast.Name):
                self.get_stmt = st
                self.var = st.targets[0].id
        self.paths = enum_paths(node.body, rule="R11.1", where=pf.where(node))

    def where(self):
        return self.model.parent.where(self.node)


# abstract process states: (is_alive, exitcode)
PSTATES = {"alive": (True, None), "ok": (False, 0), "failed": (False, 1), "killed": (False, -9)}


class _PredUnsupported(Exception):
    pass


def _eval_pred(e, pvar, state):
    alive, code = state
    if isinstance(e, ast.Constant):
        return e.value
    if isinstance(e, ast.UnaryOp) and isinstance(e.op, ast.Not):
        return not _eval_pred(e.operand, pvar, state)
    if isinstance(e, ast.UnaryOp) and isinstance(e.op, ast.USub):
        return -_eval_pred(e.operand, pvar, state)
    if isinstance(e, ast.BoolOp):
        vals = [_eval_pred(v, pvar, state) for v in e.values]
        if isinstance(e.op, ast.And):
            for v in vals:
                if not v:
                    return v
            return vals[-1]
        for v in vals:
            if v:
                return v
        return vals[-1]
    if isinstance(e, ast.Call) and isinstance(e.func, ast.Attribute) and norm(e.func.value) == pvar and e.func.attr == "is_alive" and not e.args:
        return alive
    if isinstance(e, ast.Attribute) and norm(e.value) == pvar:
        if e.attr == "exitcode":
            return code
        if e.attr == "is_alive":
            return True  # a bound method object is always truthy
        raise _PredUnsupported(norm(e))
    if isinstance(e, (ast.Tuple, ast.List, ast.Set)):
        return tuple(_eval_pred(x, pvar, state) for x in e.elts)
    if isinstance(e, ast.Compare):
        left = _eval_pred(e.left, pvar, state)
        for op, r in zip(e.ops, e.comparators):
            right = _eval_pred(r, pvar, state)
            try:
                if isinstance(op, ast.Eq):
                    ok = left == right
                elif isinstance(op, ast.NotEq):
                    ok = left != right
                elif isinstance(op, ast.Is):
                    ok = left is right
                elif isinstance(op, ast.IsNot):
                    ok = left is not right
                elif isinstance(op, ast.In):
                    ok = left in right
                elif isinstance(op, ast.NotIn):
                    ok = left not in right
                elif isinstance(op, ast.Lt):
                    ok = left < right
                elif isinstance(op, ast.LtE):
                    ok = left <= right
                elif isinstance(op, ast.Gt):
                    ok = left > right
                elif isinstance(op, ast.GtE):
                    ok = left >= right
                else:
                    raise _PredUnsupported(type(op).__name__)
            except TypeError:
                return "TYPEERROR"
            if not ok:
                return False
            left = right
        return True
    raise _PredUnsupported(norm(e))


def helper_shape(h):
    """-> (negated, pvar, pred_expr, iterable_param) with  helper(ps) == negated XOR (exists p in ps: pred(p)),
    or None if the function is not a quantifier over its parameter."""
    body = [st for st in h.node.body if not (isinstance(st, ast.Expr) and isinstance(st.value, ast.Constant))]
    if not h.params:
        return None
    par = h.params[0]
    # form (b): return any(...)/all(...)/not any(...)
    if len(body) == 1 and isinstance(body[0], ast.Return) and body[0].value is not None:
        e = body[0].value
        neg = False
        while isinstance(e, ast.UnaryOp) and isinstance(e.op, ast.Not):
            e = e.operand
            neg = not neg
        if isinstance(e, ast.Call) and isinstance(e.func, ast.Name) and e.func.id in ("any", "all") and len(e.args) == 1 and isinstance(e.args[0], (ast.GeneratorExp, ast.ListComp)):
            g = e.args[0]
            if len(g.generators) == 1 and not g.generators[0].ifs and norm(g.generators[0].iter) == par:
                pvar = norm(g.generators[0].target)
                if e.func.id == "any":
                    return (neg, pvar, g.elt, par)
                # all(P) == not exists(not P)
                return (not neg, pvar, ast.UnaryOp(op=ast.Not(), operand=g.elt), par)
        return None
    # form (a): for p in ps: if C(p): return K1 ; return K2
    if len(body) != 2 or not isinstance(body[0], ast.For) or not isinstance(body[1], ast.Return):
        return None
    loop, final = body
    if norm(loop.iter) != par or len(loop.body) != 1 or not isinstance(loop.body[0], ast.If) or loop.orelse:
        return None
    iff = loop.body[0]
    if len(iff.body) != 1 or not isinstance(iff.body[0], ast.Return) or iff.orelse:
        return None
    k1 = const_value(iff.body[0].value)
    k2 = const_value(final.value)
    if not isinstance(k1, bool) or not isinstance(k2, bool) or k1 == k2:
        return None
    # helper == k1 iff exists p: C(p)
    return ((not k1), norm(loop.target), iff.test, par)


def helper_kind(repo, func, call):
    """Classify a process-list predicate by evaluating its per-process condition on the four abstract
    process states.  -> dict(kind=..., polarity=..., problem=None|str) or None if `call` is not such a helper.
    kind/polarity: the helper returns True  <=>  <kind> == polarity, with kind in
      'alive_any'      some process is alive
      'exit_all_zero'  every process has exit code 0 (meaningful when no process is alive)
      'dead_any'       some process is not alive"""
    h = repo.resolve_call(func, call)
    if h is None:
        return None
    sh = helper_shape(h)
    if sh is None:
        return helper_kind_by_evaluation(h)
    neg, pvar, pred, par = sh
    try:
        val = {name: _eval_pred(pred, pvar, st) for name, st in PSTATES.items()}
    except _PredUnsupported:
        return None
    tv = {k: (bool(v) if v != "TYPEERROR" else "TYPEERROR") for k, v in val.items()}
    out = {"helper": h, "table": tv, "problem": None}
    dead = ("ok", "failed", "killed")
    if all(tv[k] is True for k in tv) or all(tv[k] is False for k in tv):
        out.update(kind="constant", polarity=True, problem=f"the per-process condition `{norm(pred)}` has the same value for every process state (alive / exit 0 / exit 1 / killed by signal): {tv}")
        return out
    if tv["alive"] is True and all(tv[k] is False for k in dead):
        out.update(kind="alive_any", polarity=not neg)
        return out
    if tv["alive"] is False and all(tv[k] is True for k in dead):
        out.update(kind="dead_any", polarity=not neg)
        return out
    # exit-code predicates: look at the dead states only
    dv = tuple(tv[k] for k in dead)
    if "TYPEERROR" in tv.values():
        out.update(kind="exitcode", polarity=True, problem=f"the per-process condition `{norm(pred)}` raises TypeError for some process state: {tv}")
        return out
    if dv == (False, True, True):
        out.update(kind="exit_all_zero", polarity=neg)  # exists nonzero; helper True <=> (neg xor exists) ; all_zero = not exists
        return out
    if dv == (True, False, False):
        # exists p with exit 0  — not the needed universal statement
        out.update(kind="exit_any_zero", polarity=not neg, problem=None)
        return out
    out.update(kind="exitcode", polarity=True, problem=f"the per-process exit-code condition `{norm(pred)}` does not separate clean exit (0) from abnormal termination (positive code, death by signal): {tv}")
    return out


class _Raise(Exception):
    pass


def _eval_list_fn(h, states):
    """Value of the process-list predicate `h` on a list of abstract processes (tiny interpreter over the statement and
    expression kinds such predicates use: for / if / return, any / all / max / min / sum / len over comprehensions,
    comparisons, `p.exitcode`, `p.is_alive()`).  Raises _PredUnsupported outside that fragment, _Raise for a Python
    exception of the evaluated code (e.g. comparing None with an int)."""
    par = h.params[0]
    depth = [0]

    class Ret(Exception):
        def __init__(self, v):
            self.v = v

    def ev(e, env):
        if isinstance(e, ast.Constant):
            return e.value
        if isinstance(e, ast.Name):
            if e.id in env:
                return env[e.id]
            raise _PredUnsupported(e.id)
        if isinstance(e, ast.UnaryOp):
            v = ev(e.operand, env)
            if isinstance(e.op, ast.Not):
                return not v
            if isinstance(e.op, ast.USub):
                return -v
            raise _PredUnsupported(norm(e))
        if isinstance(e, ast.BoolOp):
            v = None
            for x in e.values:
                v = ev(x, env)
                if isinstance(e.op, ast.And) and not v:
                    return v
                if isinstance(e.op, ast.Or) and v:
                    return v
            return v
        if isinstance(e, ast.Attribute):
            o = ev(e.value, env)
            if isinstance(o, tuple) and len(o) == 2 and e.attr == "exitcode":
                return o[1]
            if isinstance(o, tuple) and len(o) == 2 and e.attr == "sentinel":
                return o  # the handle that becomes ready when the process ends: stands for the process
            raise _PredUnsupported(norm(e))
        if isinstance(e, ast.Call):
            if isinstance(e.func, ast.Attribute) and e.func.attr == "is_alive" and not e.args:
                o = ev(e.func.value, env)
                return o[0]
            fn_name = norm(e.func).split(".")[-1]
            if fn_name == "wait" and e.args:
                # multiprocessing.connection.wait(sentinels, timeout=0): the ones whose process has ended
                return [o for o in ev(e.args[0], env) if isinstance(o, tuple) and not o[0]]
            if isinstance(e.func, ast.Name) and e.func.id in h.module.funcs and len(e.args) == 1 and not e.keywords and depth[0] < 3:
                callee = h.module.funcs[e.func.id]
                if len(callee.params) == 1:
                    depth[0] += 1
                    try:
                        return _eval_list_fn(callee, ev(e.args[0], env))
                    finally:
                        depth[0] -= 1
            if isinstance(e.func, ast.Name) and e.func.id in ("any", "all", "max", "min", "sum", "len", "list", "set", "sorted", "bool", "abs") and e.args:
                args = [ev(a, env) for a in e.args]
                try:
                    fn = {"any": any, "all": all, "max": max, "min": min, "sum": sum, "len": len, "list": list, "set": set, "sorted": sorted, "bool": bool, "abs": abs}[e.func.id]
                    kw = {k.arg: ev(k.value, env) for k in e.keywords if k.arg in ("default",)}
                    return fn(*args, **kw)
                except (TypeError, ValueError) as ex:
                    raise _Raise(type(ex).__name__)
            raise _PredUnsupported(norm(e))
        if isinstance(e, (ast.GeneratorExp, ast.ListComp, ast.SetComp)) and len(e.generators) == 1:
            g_ = e.generators[0]
            out = []
            for item in ev(g_.iter, env):
                env2 = dict(env)
                if not isinstance(g_.target, ast.Name):
                    raise _PredUnsupported(norm(g_.target))
                env2[g_.target.id] = item
                if all(ev(c, env2) for c in g_.ifs):
                    out.append(ev(e.elt, env2))
            return out
        if isinstance(e, (ast.Tuple, ast.List)):
            return [ev(x, env) for x in e.elts]
        if isinstance(e, ast.Compare):
            left = ev(e.left, env)
            for op, r in zip(e.ops, e.comparators):
                right = ev(r, env)
                try:
                    ok = {ast.Eq: lambda a, b: a == b, ast.NotEq: lambda a, b: a != b, ast.Lt: lambda a, b: a < b, ast.LtE: lambda a, b: a <= b, ast.Gt: lambda a, b: a > b, ast.GtE: lambda a, b: a >= b, ast.Is: lambda a, b: a is b, ast.IsNot: lambda a, b: a is not b, ast.In: lambda a, b: a in b, ast.NotIn: lambda a, b: a not in b}[type(op)](left, right)
                except TypeError:
                    raise _Raise("TypeError")
                if not ok:
                    return False
                left = right
            return True
        raise _PredUnsupported(norm(e))

    def run(stmts, env):
        for st in stmts:
            if isinstance(st, ast.Expr) and isinstance(st.value, ast.Constant):
                continue
            if isinstance(st, ast.Return):
                raise Ret(ev(st.value, env) if st.value is not None else None)
            if isinstance(st, ast.If):
                run(st.body if ev(st.test, env) else st.orelse, env)
            elif isinstance(st, ast.For) and isinstance(st.target, ast.Name):
                for item in ev(st.iter, env):
                    env[st.target.id] = item
                    run(st.body, env)
            elif isinstance(st, ast.Assign) and len(st.targets) == 1 and isinstance(st.targets[0], ast.Name):
                env[st.targets[0].id] = ev(st.value, env)
            elif isinstance(st, ast.AugAssign) and isinstance(st.target, ast.Name) and isinstance(st.op, ast.Add):
                env[st.target.id] = env[st.target.id] + ev(st.value, env)
            elif isinstance(st, ast.Pass):
                continue
            else:
                raise _PredUnsupported(norm(st)[:40])

    try:
        run(h.node.body, {par: list(states)})
    except Ret as r:
        return r.v
    return None


def helper_kind_by_evaluation(h):
    """Classify a process-list predicate of any shape by evaluating it on every list of up to three abstract processes."""
    import itertools

    if len(h.params) != 1:
        return None
    names = list(PSTATES)
    table = {}
    try:
        for n in (1, 2, 3):
            for combo in itertools.product(names, repeat=n):
                try:
                    table[combo] = bool(_eval_list_fn(h, [PSTATES[c] for c in combo]))
                except _Raise as ex:
                    table[combo] = "RAISES " + str(ex)
    except _PredUnsupported:
        return None
    out = {"helper": h, "table": {" ".join(k): v for k, v in list(table.items())[:8]}, "problem": None}

    def agrees(spec, domain=None):
        for k, v in table.items():
            if domain is not None and not domain(k):
                continue
            if v != spec(k):
                return k, v
        return None

    dead_only = lambda k: all(x != "alive" for x in k)  # noqa: E731
    for kind, pol, spec, dom in (
        ("alive_any", True, lambda k: any(x == "alive" for x in k), None),
        ("alive_any", False, lambda k: not any(x == "alive" for x in k), None),
        ("dead_any", True, lambda k: any(x != "alive" for x in k), None),
        ("dead_any", False, lambda k: not any(x != "alive" for x in k), None),
        ("exit_all_zero", True, lambda k: all(x == "ok" for x in k), dead_only),
        ("exit_all_zero", False, lambda k: not all(x == "ok" for x in k), dead_only),
    ):
        if agrees(spec, dom) is None:
            out.update(kind=kind, polarity=pol)
            return out
    # none of the facts the parent needs: name the nearest one and a group on which the predicate departs from it
    specs = (
        ("some process is alive", "alive_any", lambda k: any(x == "alive" for x in k), None),
        ("no process is alive", "alive_any", lambda k: not any(x == "alive" for x in k), None),
        ("every process exited with code 0", "exitcode", lambda k: all(x == "ok" for x in k), dead_only),
        ("some process did not exit with code 0", "exitcode", lambda k: not all(x == "ok" for x in k), dead_only),
    )
    best = None
    for label, kind, spec, dom in specs:
        miss = [(k, v) for k, v in table.items() if (dom is None or dom(k)) and v != spec(k)]
        if best is None or len(miss) < len(best[2]):
            best = (label, kind, miss)
    label, kind, miss = best
    k0, v0 = min(miss, key=lambda kv: len(kv[0]))
    out.update(kind=kind, polarity=True, problem=f"`{norm(h.node.body[-1])[:70]}` is not '{label}' (nor any other fact the parent needs): for the group ({', '.join(k0)}) it gives {v0}")
    return out


def test_facts(repo, func, expr, pol):
    """Facts implied by evaluating `expr` with outcome `pol`:  {'alive_any': bool, 'exit_all_zero': bool}"""
    facts = {}
    while isinstance(expr, ast.UnaryOp) and isinstance(expr.op, ast.Not):
        expr = expr.operand
        pol = not pol
    if isinstance(expr, ast.BoolOp):
        # a true conjunction makes every conjunct true; a false disjunction makes every disjunct false
        if isinstance(expr.op, ast.And) == pol:
            for v in expr.values:
                facts.update(test_facts(repo, func, v, pol))
        return facts
    if isinstance(expr, ast.Call):
        hk = helper_kind(repo, func, expr)
        if hk and not hk["problem"]:
            val = pol if hk["polarity"] else (not pol)
            if hk["kind"] == "alive_any":
                facts["alive_any"] = val
            elif hk["kind"] == "exit_all_zero":
                facts["exit_all_zero"] = val
            elif hk["kind"] == "dead_any" and val is False:
                facts["alive_any"] = True  # nobody is dead: (for a non-empty group) somebody is alive
    return facts


def exit_status(st):
    """For a sys.exit(...) statement: the constant status, or '?'."""
    call = st.value
    if not call.args:
        return None  # sys.exit() == status 0
    v = const_value(call.args[0], "?")
    return v


def sentinel_guard(m, L):
    """How the collection loop L counts sentinels: ("up", counter) for `while c != len(procs)` (c incremented per sentinel),
    ("down", counter) for `c = len(procs) ... while c != 0` (c decremented per sentinel), or None when the guard is neither."""
    from ..core import reaching_def

    test = L.node.test
    if not (isinstance(test, ast.Compare) and len(test.ops) == 1):
        return None
    l_, r_ = test.left, test.comparators[0]
    for a, b in ((l_, r_), (r_, l_)):
        nb = norm(b)
        if isinstance(test.ops[0], (ast.NotEq, ast.Lt, ast.Gt)) and nb.startswith("len(") and nb[4:-1] in m.proc_lists and isinstance(a, ast.Name):
            return ("up", a.id)
        if isinstance(test.ops[0], (ast.NotEq, ast.Gt, ast.Lt)) and isinstance(b, ast.Constant) and b.value == 0 and isinstance(a, ast.Name):
            d = reaching_def(m.parent.node, L.node, a.id)
            if d is not None and norm(d).startswith("len(") and norm(d)[4:-1] in m.proc_lists:
                return ("down", a.id)
        # the number of processes held in a local taken right before the loop: n = len(procs); while c != n  (neither n nor
        # the list changes inside the loop)
        if isinstance(test.ops[0], (ast.NotEq, ast.Lt, ast.Gt)) and isinstance(b, ast.Name) and isinstance(a, ast.Name):
            d = reaching_def(m.parent.node, L.node, b.id)
            if d is not None and norm(d).startswith("len(") and norm(d)[4:-1] in m.proc_lists:
                pl = norm(d)[4:-1]
                touched = any((isinstance(x, ast.Name) and isinstance(x.ctx, ast.Store) and x.id in (b.id, pl)) or (isinstance(x, ast.Call) and isinstance(x.func, ast.Attribute) and norm(x.func.value) == pl and x.func.attr in ("append", "pop", "remove", "clear", "extend", "insert")) for x in ast.walk(L.node))
                if not touched:
                    return ("up", a.id)
    return None
