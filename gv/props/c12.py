"""C12 — realign emits a valid global alignment of read slice to path slice (decided part: plumbing).

R12.1  slices: in every iteration the reference is the path sequence of *this* record sliced
       [path start : path end], the query is fetched as (read name, read start, read end) of this record,
       and both travel in the same batch tuple as the record whose columns are re-emitted
R12.2  tallies agree with the emitted CIGAR: match count and block length are accumulated from the same
       aligner run whose string is emitted; '=' counts only under the op code spelled '='; block length
       counts every aligned op; unknown op codes cannot be dropped silently
R12.3  pass-through: guard `read end - read start > 60000`; under it the twelve parsed columns and the
       parsed fields are re-emitted; otherwise columns 1-9 and 12 are parsed, 10/11 are the tallies and
       only cg is replaced
"""

from __future__ import annotations

import ast

from ..core import AnalysisError, const_value, norm, walk_own, walk_stmts, names_in
from ..paths import enum_paths, canon_test
from .. import tmpl
from . import realign_common as rc
from . import emit
from ..core import same_func
from .common import key_of, gaf_schema

META = {
    "explanation": "Static decision of the plumbing around the pyWFA aligner in gaftools realign: reaching definitions with an iteration-fresh bit show "
    "that reference slice, read slice and record of one batch tuple are all computed in the same iteration from the same parsed record "
    "(path sequence of record.path sliced [path_start:path_end]; fetch(query_name, query_start, query_end)); the worker's two emitters are "
    "modelled as string templates (pass-through: all twelve parsed columns and the parsed fields; realigned: columns 10/11 replaced by the "
    "accumulators, cg replaced by the aligner's string); the accumulators are tied to op codes (match only under the code spelled '=', "
    "block length for every aligned op, assert False on an unknown code) and to the same aligner run as the emitted string (tuples taken "
    "from the call result, string from the aligner object: requires clip_cigar=False so that both describe the same, unclipped alignment); "
    "the pass-through guard is compared with the documented 60,000 bp limit.  NOT decided: that the CIGAR returned by pyWFA is a valid, "
    "cost-optimal end-to-end alignment (C extension, no source to analyse).",
    "technique": "static analysis: iteration-fresh reaching definitions on enumerated paths, string templates, accumulator/op-code table",
}


def check(ctx):
    m = rc.build(ctx, "R12")
    schema, extras = gaf_schema(ctx.repo, "R12")
    ctx.run(r12_1, m, schema)
    ctx.run(r12_2, m)
    ctx.run(r12_3, m, schema, extras)
    ctx.run(r12_4, m)
    # the reference slice is cut from the spelled path: the spelling rules are shared with C14
    from . import gfa_common as gc
    from . import c14

    g = gc.build(ctx, "R14")
    ctx.run(c14.r14_1, g)
    ctx.run(c14.r14_2_3, g)
    from . import c16 as _c16
    from .c19 import tag_loop as _tl, tag_regex_info as _ti

    _pf, _loop = _tl(ctx, "R16.1")
    ctx.run(_c16.r16_1, _pf, _loop, _ti(_pf, _loop, "R16.1"))  # optional fields survive: the parser accepts the tag grammar (shared with C16)
    ctx.run(_c16.r16_2, _pf, _loop)
    ctx.not_decided += [
        "validity and optimality of the CIGAR computed by pyWFA's WavefrontAligner (C extension)",
        "the pattern/text role convention of WavefrontAligner(ref)(query) (checked only for being the same at tally and emission)",
    ]
    ctx.assumptions.append("pywfa: with clip_cigar=False, result.cigartuples and aligner.cigarstring describe the same end-to-end alignment")
    # mechanisms this property rests on (see shared.py): a change there is reported here as well
    from . import shared as _sh

    ctx.run_shared(_sh.path_tokenisers)
    ctx.run_shared(_sh.gaf_reader)
    ctx.run_shared(_sh.tag_parser)
    ctx.run_shared(_sh.graph_loader)
    ctx.run_shared(_sh.cli_layer, "gaftools.cli.realign")


def r12_1(ctx, m, schema):
    pf = m.parent
    loops = [n for n in walk_own(pf.node) if isinstance(n, ast.For) and "read_file" in norm(n.iter)]
    ctx.require_count("R12.1", len(loops), 1, pf.where(), "record loop of the parent")
    # the parent hands the parsed record on as it is: it does not write into it before batching (a blanked CIGAR also blanks
    # what the pass-through branch of the worker writes back for alignments that are not realigned)
    if loops and isinstance(loops[0].target, ast.Name):
        rv_ = loops[0].target.id
        for st_ in walk_stmts(loops[0].body):
            if isinstance(st_, (ast.Assign, ast.AugAssign)):
                for tg_ in (st_.targets if isinstance(st_, ast.Assign) else [st_.target]):
                    b_ = tg_
                    while isinstance(b_, (ast.Attribute, ast.Subscript)):
                        b_ = b_.value
                    if isinstance(tg_, (ast.Attribute, ast.Subscript)) and isinstance(b_, ast.Name) and b_.id == rv_:
                        ctx.violated("R12.1", pf.where(st_), f"`{norm(st_)[:60]}` changes the parsed record before it is batched: a record the worker does not realign (read span over the limit) is written back from this changed record, so its columns / optional fields are no longer those of the input", key_of(pf, f"record-changed-before-batch:{norm(tg_)[:40]}"))
    loop = loops[0]
    rec = norm(loop.target)
    appends = [st for st in walk_stmts(loop.body) if isinstance(st, ast.Expr) and isinstance(st.value, ast.Call) and isinstance(st.value.func, ast.Attribute) and st.value.func.attr == "append" and st.value.args and isinstance(st.value.args[0], ast.Tuple)]
    if not appends:
        raise AnalysisError("R12.1", pf.where(loop), "no batch tuple append")
    ap = appends[0]
    elts = ap.value.args[0].elts
    # worker unpack order
    wf = m.worker
    wloop = [n for n in wf.node.body if isinstance(n, ast.For)][0]
    wt = [norm(e) for e in wloop.target.elts]
    ctx.check(len(elts) == len(wt) and norm(elts[0]) == rec, "R12.1", pf.where(ap), "the batch tuple carries the parsed record first and has the arity the worker unpacks", key_of(pf, f"tuple-shape:{[norm(e) for e in elts]}"), tuple=[norm(e) for e in elts], worker=wt)
    # which worker names are used as aligner reference / query
    ref_name = qry_name = None
    for c in walk_own(wf.node):
        if isinstance(c, ast.Call) and norm(c.func).endswith("WavefrontAligner") and c.args:
            ref_name = norm(c.args[0])
    for c in walk_own(wf.node):
        if isinstance(c, ast.Call) and isinstance(c.func, ast.Name) and c.args and norm(c.args[0]) in wt and norm(c.args[0]) != ref_name:
            d = [s for s in walk_own(wf.node) if isinstance(s, ast.Assign) and norm(s.targets[0]) == c.func.id and isinstance(s.value, ast.Call) and norm(s.value.func).endswith("WavefrontAligner")]
            if d:
                qry_name = norm(c.args[0])
    if qry_name is None:
        # WavefrontAligner(ref)(query, ...): constructed and called in one expression
        for c in walk_own(wf.node):
            if isinstance(c, ast.Call) and isinstance(c.func, ast.Call) and norm(c.func.func).endswith("WavefrontAligner") and c.args and norm(c.args[0]) in wt:
                qry_name = norm(c.args[0])
    if ref_name not in wt or qry_name not in wt:
        raise AnalysisError("R12.1", wf.where(), f"cannot identify which batch elements are aligned (reference {ref_name}, query {qry_name})")
    i_ref, i_qry = wt.index(ref_name), wt.index(qry_name)
    ref_var, qry_var = norm(elts[i_ref]), norm(elts[i_qry])
    paths = enum_paths(loop.body, rule="R12.1", where=pf.where(loop))
    P = {c: a for a, c in schema.items()}
    bad = None
    n = 0
    for p in paths:
        i_ap = p.index(lambda e: e.kind == "stmt" and e.node is ap)
        if i_ap < 0:
            continue
        n += 1
        defs = {}
        for e in p.events[:i_ap]:
            if e.kind == "stmt" and isinstance(e.node, ast.Assign) and isinstance(e.node.targets[0], ast.Name):
                defs[e.node.targets[0].id] = e.node.value
        if ref_var not in defs:
            bad = (p, f"`{ref_var}` is not computed in this iteration: the record is aligned against the slice of an earlier record")
            break
        if qry_var not in defs:
            bad = (p, f"`{qry_var}` is not computed in this iteration")
            break
        rv = defs[ref_var]
        # X[span] with span = slice(a, b) computed in this iteration reads X[a:b]
        if isinstance(rv, ast.Subscript) and isinstance(rv.slice, ast.Name) and rv.slice.id in defs:
            sd = defs[rv.slice.id]
            if isinstance(sd, ast.Call) and isinstance(sd.func, ast.Name) and sd.func.id == "slice" and len(sd.args) in (2, 3) and not sd.keywords:
                rv = ast.Subscript(value=rv.value, slice=ast.Slice(lower=sd.args[0], upper=sd.args[1], step=sd.args[2] if len(sd.args) == 3 and const_value(sd.args[2], 1) is not None else None), ctx=ast.Load())
        elif isinstance(rv, ast.Subscript) and isinstance(rv.slice, ast.Call) and isinstance(rv.slice.func, ast.Name) and rv.slice.func.id == "slice" and len(rv.slice.args) == 2:
            rv = ast.Subscript(value=rv.value, slice=ast.Slice(lower=rv.slice.args[0], upper=rv.slice.args[1], step=None), ctx=ast.Load())
        ok_ref = isinstance(rv, ast.Subscript) and isinstance(rv.slice, ast.Slice) and norm(rv.slice.lower) == f"{rec}.{P[7]}" and norm(rv.slice.upper) == f"{rec}.{P[8]}" and rv.slice.step is None
        if not ok_ref:
            bad = (p, f"reference slice is `{norm(rv)}`, expected <path sequence>[{rec}.{P[7]}:{rec}.{P[8]}]")
            break
        seq = norm(rv.value)
        sv = defs.get(seq)
        if sv is None and isinstance(rv.value, ast.Call):
            sv = rv.value  # the extraction is sliced directly: extract_path(rec.path)[a:b]
        if sv is None:
            bad = (p, f"the path sequence `{seq}` sliced for this record was not extracted in this iteration")
            break
        ok_seq = isinstance(sv, ast.Call) and isinstance(sv.func, ast.Attribute) and sv.func.attr == "extract_path" and [norm(a) for a in sv.args][:1] == [f"{rec}.{P[5]}"] and all(isinstance(a, ast.Constant) for a in sv.args[1:])
        if not ok_seq and ((isinstance(sv, ast.Call) and isinstance(sv.func, ast.Attribute) and sv.func.attr in ("get", "setdefault") and sv.args and norm(sv.args[0]) == f"{rec}.{P[5]}") or (isinstance(sv, ast.Subscript) and norm(sv.slice) == f"{rec}.{P[5]}")):
            raise AnalysisError("R12.1", pf.where(), f"the path sequence comes out of a table keyed by the record's path (`{norm(sv)[:50]}`): that the table holds extract_path of that path is not followed by this rule")
        if not ok_seq:
            bad = (p, f"path sequence is `{norm(sv)}`, expected extract_path({rec}.{P[5]})")
            break
        qv = defs[qry_var]
        ok_q = isinstance(qv, ast.Call) and isinstance(qv.func, ast.Attribute) and qv.func.attr == "fetch" and [norm(a) for a in qv.args] == [f"{rec}.{P[0]}", f"{rec}.{P[2]}", f"{rec}.{P[3]}"]
        if not ok_q:
            bad = (p, f"read slice is `{norm(qv)}`, expected fetch({rec}.{P[0]}, {rec}.{P[2]}, {rec}.{P[3]})")
            break
    ctx.check(bad is None, "R12.1", pf.where(loop), "on every path each record is batched with the path sequence of its own path sliced [path start : path end] and its own read slice, all computed in the same iteration", key_of(pf, f"slices:{bad[1] if bad else ''}"), paths=n, **({"path": bad[0].show(), "why": bad[1]} if bad else {}))
    # worker: aligner(ref)(query): same order at construction and call
    ctx.holds("R12.1", wf.where(), f"worker aligns batch element `{qry_name}` (read slice) against `{ref_name}` (path slice) of the same tuple", nontrivial=False)


def r12_2(ctx, m):
    wf = m.worker
    # the operations that are tallied and spelled come from the aligner for every record that is realigned: a branch that
    # builds them some other way gives a valid-looking CIGAR without the aligner's optimality
    for l in walk_own(wf.node):
        if isinstance(l, ast.For) and isinstance(l.iter, ast.Name) and isinstance(l.target, ast.Tuple) and len(l.target.elts) == 2:
            defs_ = [s_ for s_ in walk_own(wf.node) if isinstance(s_, ast.Assign) and norm(s_.targets[0]) == l.iter.id]
            if defs_ and any(".cigartuples" in norm(s_.value) for s_ in defs_):
                other = [s_ for s_ in defs_ if ".cigartuples" not in norm(s_.value)]
                for s_ in other:
                    ctx.violated("R12.2", wf.where(s_), f"on one branch the operations come from `{norm(s_.value)[:70]}`, not from the aligner: such a record gets a CIGAR that consumes both strings but is not an optimal alignment (its cost can exceed the input CIGAR's)", key_of(wf, f"ops-not-from-aligner:{norm(s_.value)[:40]}"))
                if other:
                    return
    # the aligner call result and the aligner object
    res = alg = None
    call = None
    for s in walk_own(wf.node):
        if isinstance(s, ast.Assign) and isinstance(s.value, ast.Call) and norm(s.value.func).endswith("WavefrontAligner"):
            alg = norm(s.targets[0])
    for s in walk_own(wf.node):
        if isinstance(s, ast.Assign) and isinstance(s.value, ast.Call) and alg and norm(s.value.func) == alg:
            res = norm(s.targets[0])
            call = s.value
    if alg is None or res is None:
        raise AnalysisError("R12.2", wf.where(), "cannot find the aligner object and its call result")
    # the op loop
    oploop = None
    for l in walk_own(wf.node):
        if isinstance(l, ast.For) and "cigartuples" in norm(l.iter):
            oploop = l
    if oploop is None:
        raise AnalysisError("R12.2", wf.where(), "cannot find the loop over the aligner's CIGAR tuples")
    if len([l for l in walk_own(wf.node) if isinstance(l, ast.For) and "cigartuples" in norm(l.iter)]) > 1:
        raise AnalysisError("R12.2", wf.where(oploop), "the aligner's CIGAR tuples are walked by more than one loop: the tallies and the spelling are not read from one dispatch")
    tup_src = norm(oploop.iter).split(".cigartuples")[0]
    # emitted string source
    emits = [s for s in walk_own(wf.node) if isinstance(s, ast.Assign) and isinstance(s.targets[0], ast.Subscript) and const_value(s.targets[0].slice) == "cg:Z:"]
    ctx.require_count("R12.2", len(emits), 1, wf.where(), "store of the new CIGAR into the record's fields")
    ev = emits[0].value
    src = ev
    if isinstance(ev, ast.Name):
        d = sorted([s for s in walk_own(wf.node) if isinstance(s, ast.Assign) and norm(s.targets[0]) == ev.id and wf.before(s, emits[0])], key=lambda s: wf.pos(s))
        src = d[-1].value if d else ev
    str_src = None
    built_in_loop = False
    for c in ast.walk(src):
        if isinstance(c, ast.Attribute) and c.attr == "cigarstring":
            str_src = norm(c.value)
    if str_src is None:
        # string built in the op loop
        built_in_loop = any(isinstance(s, ast.AugAssign) and isinstance(ev, ast.Name) and norm(s.target) == ev.id for s in walk_stmts(oploop.body))
    same_run = (str_src in (res, alg) and tup_src in (res, alg)) or built_in_loop
    clip = next((const_value(k.value, "?") for k in call.keywords if k.arg == "clip_cigar"), "default")
    need_unclipped = str_src is not None and str_src != tup_src
    ok = same_run and (not need_unclipped or clip is False)
    ctx.check(ok, "R12.2", wf.where(emits[0]), "the tallied CIGAR tuples and the emitted CIGAR string come from the same alignment run and describe the same (unclipped, end-to-end) alignment", key_of(wf, f"same-run:{tup_src}:{str_src}:{clip}"), tuples_from=tup_src, string_from=str_src or "op loop", clip_cigar=str(clip))
    if str_src is not None:
        ok_m = norm(src).endswith(".replace('M', '=')") or "replace" not in norm(src)
        ctx.check(ok_m, "R12.2", wf.where(emits[0]), "the emitted string spells matches as '=' (M -> =), nothing else is rewritten", key_of(wf, f"cigar-spelling:{norm(src)}"), expr=norm(src))
    # op-code table, by abstract evaluation of the loop body for each op code: which accumulators grow by the operation's
    # length, which letter is spelled, whether an unknown code fails loudly.  Accumulators may be plain names or cells of
    # a table keyed by the op code (`totals[op] += n`); tests may compare the code or look it up in a literal table.
    opv, lenv = [norm(e) for e in oploop.target.elts]
    consts = wf.module.consts

    from ..core import local_defs as _ld0

    wdefs0 = _ld0(wf.node)

    def table_keys(e, depth=0):
        d = consts.get(e.id) if isinstance(e, ast.Name) else e
        if d is None and isinstance(e, ast.Name) and depth < 3:
            ds = [x for x in wdefs0.get(e.id, []) if x is not None]
            if len(ds) == 1:
                d = ds[0]
        if isinstance(d, ast.Call) and norm(d.func) == "dict.fromkeys" and d.args:
            keys, _ = table_keys(d.args[0], depth + 1)
            return keys, {}
        if isinstance(d, ast.DictComp) and len(d.generators) == 1 and norm(d.key) == norm(d.generators[0].target):
            keys, _ = table_keys(d.generators[0].iter, depth + 1)
            return keys, {}
        if isinstance(d, ast.Dict):
            return [const_value(k, "?") for k in d.keys], {const_value(k, "?"): v for k, v in zip(d.keys, d.values)}
        if isinstance(d, (ast.Tuple, ast.List, ast.Set)):
            return [const_value(k, "?") for k in d.elts], {}
        return None, {}

    def truth(t, code):
        if isinstance(t, ast.UnaryOp) and isinstance(t.op, ast.Not):
            v = truth(t.operand, code)
            return None if v is None else (not v)
        if isinstance(t, ast.BoolOp):
            vs = [truth(v, code) for v in t.values]
            if isinstance(t.op, ast.And):
                return False if any(v is False for v in vs) else (True if all(v is True for v in vs) else None)
            return True if any(v is True for v in vs) else (False if all(v is False for v in vs) else None)
        if isinstance(t, ast.Compare) and len(t.ops) == 1 and norm(t.left) == opv:
            c = t.comparators[0]
            if isinstance(t.ops[0], (ast.Eq, ast.NotEq)) and isinstance(c, ast.Constant):
                return (code == c.value) == isinstance(t.ops[0], ast.Eq)
            if isinstance(t.ops[0], (ast.In, ast.NotIn)):
                keys, _ = table_keys(c)
                if keys is not None and "?" not in keys:
                    return (code in keys) == isinstance(t.ops[0], ast.In)
        return None

    paths_op = enum_paths(oploop.body, rule="R12.2", where=wf.where(oploop))
    table = {}
    default_assert = False
    for code in (0, 1, 2, 8, 4, 99):
        incs, letters, loud = set(), [], False
        n_cons = 0
        for p in paths_op:
            if any(truth(t, code) is not None and truth(t, code) != pol for t, pol in p.tests()):
                continue
            n_cons += 1
            if p.term == "raise" or any(e.kind == "stmt" and isinstance(e.node, ast.Assert) and const_value(e.node.test, 1) is False for e in p.events):
                loud = True
            for e in p.events:
                if e.kind != "stmt" or not isinstance(e.node, ast.AugAssign):
                    continue
                st = e.node
                if norm(st.value) == lenv:
                    tg = st.target
                    if isinstance(tg, ast.Subscript) and norm(tg.slice) == opv:
                        incs.add(f"{norm(tg.value)}[{code!r}]")
                    else:
                        incs.add(norm(tg))
                elif isinstance(st.value, ast.BinOp) and isinstance(st.value.op, ast.Add):
                    r = st.value.right
                    if isinstance(r, ast.Constant):
                        letters.append(r.value)
                    elif isinstance(r, ast.Subscript) and norm(r.slice) == opv:
                        _, vals = table_keys(r.value)
                        if code in vals and isinstance(vals[code], ast.Constant):
                            letters.append(vals[code].value)
        if n_cons == 0:
            raise AnalysisError("R12.2", wf.where(oploop), f"no path of the op-code dispatch is consistent with code {code}")
        if code == 99:
            default_assert = loud
        else:
            table[code] = (sorted(incs), letters)
    # which accumulators feed columns 10 and 11
    schema, extras, ems = emit.find_emitters(ctx, "R12.2")
    acc10 = acc11 = None
    from ..core import local_defs as _ld

    wdefs = _ld(wf.node)

    def acc_name(x):
        """canonical accumulator of a column hole: the name itself, or the table cell it was read from"""
        for _ in range(3):
            if isinstance(x, ast.Name):
                ds = [d for d in wdefs.get(x.id, []) if d is not None]
                if len(ds) == 1 and isinstance(ds[0], ast.Name):
                    x = ds[0]
        if isinstance(x, ast.Name):
            ds = [d for d in wdefs.get(x.id, []) if d is not None]
            cells = [d for d in ds if isinstance(d, ast.Subscript) and isinstance(const_value(d.slice, None), int)]
            if cells:
                return f"{norm(cells[0].value)}[{const_value(cells[0].slice)!r}]"
            return x.id
        return None

    for f, rec, n in ems:
        if not same_func(f, wf):
            continue
        parts = emit.candidate_template(n)
        cols = tmpl.columns(parts)
        if len(cols) >= 12 and cols[9] and cols[9][0][0] == "hole" and isinstance(cols[9][0][1], ast.Name):
            acc10 = acc_name(cols[9][0][1])
            acc11 = acc_name(cols[10][0][1]) if cols[10] and cols[10][0][0] == "hole" else None
            acc10_name = cols[9][0][1].id
    if acc10 is None or acc11 is None:
        raise AnalysisError("R12.2", wf.where(), "cannot find the accumulators feeding the match-count and block-length columns")
    # between the op loop and the record template the tallies are not replaced (e.g. by `match or <input column>`: a
    # realigned count of 0 is a count, not "missing")
    for accn in {acc10.split("[")[0], acc11.split("[")[0]}:
        rebinds = [s_ for s_ in walk_own(wf.node) if isinstance(s_, ast.Assign) and any(isinstance(t, ast.Name) and t.id == accn for t in s_.targets) and getattr(s_, "lineno", 0) and not any(x is s_ for x in ast.walk(oploop)) and accn in names_in(s_.value)]
        for rb in rebinds:
            ctx.violated("R12.2", wf.where(rb), f"the tally `{accn}` is replaced by `{norm(rb.value)[:60]}` before it is written: a value of 0 computed from the new alignment is discarded in favour of something else", key_of(wf, f"tally-rebound:{accn}:{norm(rb.value)[:60]}"))
    eq_codes = [c for c, (incs, letters) in table.items() if acc10 in incs]
    if not eq_codes or not any(acc11 in table[c_][0] for c_ in table):
        raise AnalysisError("R12.2", wf.where(oploop), f"the columns are written from `{acc10}` / `{acc11}`, which the loop over the alignment operations does not add to (values carried through other names, or one template shared by both branches): not followed by this rule")
    ok10 = eq_codes == [0] and (not table[0][1] or table[0][1] == ["="])
    ctx.check(ok10, "R12.2", wf.where(oploop), f"the match count `{acc10}` grows only under the op code spelled '=' (code 0: match)", key_of(wf, f"match-tally:{eq_codes}"), codes=eq_codes)
    # block length: grows by the length of every aligned operation (=, X, I, D)
    in_all = all(acc11 in table[c][0] for c in (0, 1, 2, 8))
    ctx.check(in_all, "R12.2", wf.where(oploop), f"the block length `{acc11}` grows by the length of every aligned operation (=, X, I, D)", key_of(wf, f"block-tally:{in_all}"))
    ok_codes = all(table[c][0] for c in (0, 1, 2, 8)) and default_assert
    ctx.check(ok_codes, "R12.2", wf.where(oploop), "the op-code dispatch covers match, insertion, deletion, mismatch and fails loudly on an unknown code", key_of(wf, f"op-codes:{sorted(c for c in table if table[c][0])}:{default_assert}"), codes=sorted(c for c in table if table[c][0]))
    # accumulators start at 0 for every record
    loop = [n for n in wf.node.body if isinstance(n, ast.For)][0]
    base10 = acc10.split("[")[0]
    inits = [s for s in walk_stmts(loop.body) if isinstance(s, ast.Assign) and (base10 in norm(s.targets[0]).replace("(", "").replace(")", "").split(", ")) and s.lineno < oploop.lineno]
    ok_init = bool(inits)
    for s_ in inits:
        vals = s_.value.elts if isinstance(s_.value, ast.Tuple) else [s_.value]
        for v in vals:
            zero = const_value(v, 1) == 0 or (isinstance(v, ast.Call) and norm(v.func) == "dict.fromkeys" and len(v.args) == 2 and const_value(v.args[1], 1) == 0) or (isinstance(v, ast.DictComp) and const_value(v.value, 1) == 0) or (isinstance(v, ast.Dict) and v.keys and all(k_ is not None and const_value(x_, 1) == 0 for k_, x_ in zip(v.keys, v.values)))
            ok_init = ok_init and zero
    if not inits:
        outside = [s for s in walk_stmts(wf.node.body) if isinstance(s, ast.Assign) and base10 in norm(s.targets[0]).replace("(", "").replace(")", "").split(", ") and not any(x is s for x in ast.walk(loop))]
        if not outside:
            raise AnalysisError("R12.2", wf.where(loop), f"cannot find where the tally `{base10}` is initialised")
    ctx.check(ok_init, "R12.2", wf.where(loop), "the tallies are reset to 0 for every record", key_of(wf, "tally-reset"))


def r12_3(ctx, m, schema, extras):
    wf = m.worker
    loop = [n for n in wf.node.body if isinstance(n, ast.For)][0]
    rec = norm(loop.target.elts[0])
    # formatting the record object itself runs Alignment.__str__, which stores the record's *input* CIGAR back into its tags:
    # between the store of the new CIGAR and the emission of the tags that undoes the realignment
    cls_ = extras.get("class")
    str_m = ctx.repo.find_func("gaftools.gaf", f"{cls_}.__str__") if cls_ else None
    if str_m is not None and any(isinstance(a_, ast.Assign) and isinstance(a_.targets[0], ast.Subscript) and "tags" in norm(a_.targets[0].value) for a_ in walk_own(str_m.node)):
        for x_ in walk_own(wf.node):
            bare = None
            if isinstance(x_, ast.FormattedValue) and isinstance(x_.value, ast.Name) and x_.value.id == rec:
                bare = x_
            elif isinstance(x_, ast.Call) and norm(x_.func) in ("str", "repr", "print", "format") and any(isinstance(a_, ast.Name) and a_.id == rec for a_ in x_.args):
                bare = x_
            elif isinstance(x_, ast.Call) and norm(x_.func).split(".")[0] in ("logger", "logging") and any(isinstance(a_, ast.Name) and a_.id == rec for a_ in x_.args[1:]):
                bare = x_
            elif isinstance(x_, ast.BinOp) and isinstance(x_.op, ast.Mod) and ((isinstance(x_.right, ast.Name) and x_.right.id == rec) or (isinstance(x_.right, ast.Tuple) and any(isinstance(e_, ast.Name) and e_.id == rec for e_ in x_.right.elts))):
                bare = x_
            if bare is not None:
                ctx.violated("R12.3", wf.where(bare), f"`{norm(bare)[:50]}` formats the record object itself: {cls_}.__str__ stores the record's input CIGAR back into its tag mapping, so a record formatted after the new CIGAR was stored (a log line) is written with the new match / block counts and the old CIGAR", key_of(wf, "record-formatted-in-worker"))
    P = {c: a for a, c in schema.items()}
    lead = [st for st in loop.body if not (isinstance(st, ast.Assign) and len(st.targets) == 1 and isinstance(st.targets[0], ast.Name) and not any(isinstance(x, ast.Call) and not (isinstance(x.func, ast.Name) and x.func.id in ("len", "int", "float", "abs")) for x in ast.walk(st.value)))]
    guard = lead[0] if lead and isinstance(lead[0], ast.If) else None  # (leading pure temporaries are skipped)
    if guard is None:
        raise AnalysisError("R12.3", wf.where(loop), "cannot find the length guard")
    t = guard.test
    ok = isinstance(t, ast.Compare) and len(t.ops) == 1 and isinstance(t.ops[0], ast.Gt) and norm(t.left) == f"{rec}.{P[3]} - {rec}.{P[2]}" and const_value(t.comparators[0]) == 60000
    if not ok and not (isinstance(t, ast.Compare) and len(t.ops) == 1 and isinstance(const_value(t.comparators[0], None), int)):
        raise AnalysisError("R12.3", wf.where(guard), f"the pass-through decision `{norm(t)[:60]}` is not a comparison of the record's read span with a constant in the worker (a flag computed elsewhere, a parameter): where it is decided is not followed by this rule")
    # documented constant
    doc = None
    try:
        import os
        import re as _re

        with open(os.path.join(ctx.repo.root, "docs", "guide.rst"), encoding="utf-8") as fh:
            txt = fh.read()
        mm = _re.search(r"(\d{1,3}(?:,\d{3})+|\d+)\s*bp", txt[txt.find("gaftools realign") :] if "gaftools realign" in txt else txt)
        doc = int(mm.group(1).replace(",", "")) if mm else None
    except OSError:
        doc = None
    ctx.check(ok and (doc is None or doc == 60000), "R12.3", wf.where(guard), "records are passed through exactly when read end - read start > 60000 (the documented limit)", key_of(wf, f"length-guard:{norm(t)}"), guard=norm(t), documented=doc)
    _, _, ems = emit.find_emitters(ctx, "R12.3")
    mine = [(f, r, n) for f, r, n in ems if same_func(f, wf)]
    ctx.require_count("R12.3", len(mine), 2, wf.where(), "emitters of the worker (pass-through and realigned)")
    for f, r, n in mine:
        in_pass = any(x is n for b in guard.body for x in ast.walk(b))
        st, var, handle, region, out = emit.templates_of(ctx, f, r, n, extras["tags_attr"], "R12.3")
        for p, parts in out[:1]:
            flat = [x for x in parts if x[0] != "rep"]
            cols = tmpl.columns(flat)
            bad = None
            want_cols = range(12) if in_pass else (0, 1, 2, 3, 4, 5, 6, 7, 8, 11)
            for i in want_cols:
                c = cols[i] if i < len(cols) else []
                okc = len(c) >= 1 and c[0][0] == "hole" and isinstance(c[0][1], ast.Attribute) and norm(c[0][1].value) == r and schema.get(c[0][1].attr) == i
                if not okc:
                    bad = (i + 1, tmpl.show(c))
                    break
            kind = "pass-through" if in_pass else "realigned"
            ctx.check(bad is None, "R12.3", wf.where(st), f"{kind} record: columns {'1-12' if in_pass else '1-9 and 12'} are the parsed columns of the same record", key_of(wf, f"{kind}-columns:{bad}"), **({"column": bad[0], "found": bad[1]} if bad else {}))
            reps = [x for x in parts if x[0] == "rep"]
            tail = parts[parts.index(reps[0]) + 1 :] if reps else []
            ok_tail = len(reps) == 1 and tmpl.show(tail) in ("\\n", "")
            ctx.check(ok_tail and len(cols) == 12 + (0 if not tail else 0), "R12.3", wf.where(st), f"{kind} record: the parsed optional fields follow once, then one newline", key_of(wf, f"{kind}-tail:{len(reps)}:{tmpl.show(tail)}"))
        # stores into the tag mapping on this branch
        branch = guard.body if in_pass else guard.orelse
        stores = [s for s in walk_stmts(branch) if isinstance(s, ast.Assign) and isinstance(s.targets[0], ast.Subscript) and norm(s.targets[0].value) == f"{r}.{extras['tags_attr']}"]
        keys = [const_value(s.targets[0].slice) for s in stores]
        want = [] if in_pass else ["cg:Z:"]
        ctx.check(keys == want, "R12.3", wf.where(guard), f"{'pass-through leaves the optional fields untouched' if in_pass else 'realignment replaces the cg field and no other'}", key_of(wf, f"tag-stores:{in_pass}:{keys}"), stores=keys)


def r12_4(ctx, m):
    """The aligner is the exact gap-affine WFA with its default penalties: the constructor receives the reference
    slice and nothing that switches on a heuristic (an inexact mode can return a costlier alignment than the input)."""
    wf = m.worker
    ctors = [c for c in walk_own(wf.node) if isinstance(c, ast.Call) and norm(c.func).endswith("WavefrontAligner")]
    ctx.require_count("R12.4", len(ctors), 1, wf.where(), "aligner constructions")
    # every record gets an aligner built for its own reference slice: the construction is not skipped once an aligner exists
    # (the aligner keeps the pattern it was constructed with: a re-used one aligns later records against the first record's path)
    from .c09 import guards_of as _gof12

    for c in ctors:
        st_ = next((s2 for s2 in walk_stmts(wf.node.body) if isinstance(s2, ast.Assign) and s2.value is c), None)
        if st_ is None:
            continue
        av_ = norm(st_.targets[0])
        for t_, pol_ in _gof12(wf.node, st_):
            if av_ in {x_.id for x_ in ast.walk(t_) if isinstance(x_, ast.Name)}:
                ctx.violated("R12.4", wf.where(st_), f"the aligner is constructed only when `{norm(t_)[:40]}`: it is built once with the first record's reference slice and re-used, so every later record of the batch is aligned against that first slice (its CIGAR no longer spells its own path and read)", key_of(wf, f"aligner-reused:{norm(t_)[:30]}"))
        loops_ = [l_ for l_ in wf.node.body if isinstance(l_, ast.For)]
        if loops_ and not any(x_ is st_ for x_ in ast.walk(loops_[0])):
            ctx.violated("R12.4", wf.where(st_), "the aligner is constructed outside the loop over the records of the batch: one aligner, built for one reference slice, serves all records", key_of(wf, "aligner-outside-loop"))
    for c in ctors:
        kws = {k.arg: norm(k.value) for k in c.keywords}
        heur = kws.get("heuristic")
        risky = {k: v for k, v in kws.items() if k in ("heuristic", "span", "steps_between_cutoffs", "min_wavefront_length", "max_distance_threshold", "min_k", "max_k", "pattern_begin_free", "pattern_end_free", "text_begin_free", "text_end_free", "scope", "distance") and v not in ("None",)}
        ok = len(c.args) == 1 and not risky
        ctx.check(ok, "R12.4", wf.where(c), "the aligner is constructed for exact, end-to-end gap-affine alignment of the reference slice (no heuristic / ends-free / score-only option)", key_of(wf, f"aligner-options:{sorted(kws.items())}"), options=kws)
    calls = [s_ for s_ in walk_own(wf.node) if isinstance(s_, ast.Assign) and isinstance(s_.value, ast.Call) and isinstance(s_.value.func, ast.Name)]
