"""C05 — view --region returns exactly the records of the nodes under the region.

R05.1  termination: every loop of the region->nodes computation is a for-loop over a finite collection, or a
       recognised well-founded bisection / bounded scan
R05.2  bounded scan: an index that is advanced and used as a subscript is compared with the length
R05.3  only nodes under the region: every node added to the result is dominated by guards whose decision
       table over (region start, region end, node start, node end) is interval intersection
R05.4  all nodes under the region are used, for every region: the list found flows as a whole into the
       node list, every region is searched (no region is skipped)
R05.5  format arity of the log lines; region bounds are compared numerically, never as strings
R05.6  the lookup / de-duplication / emptiness rules of C04 apply to the node list built from regions
"""

from __future__ import annotations

import ast

from ..core import AnalysisError, const_value, norm, walk_own, walk_stmts, names_in
from ..paths import enum_paths
from .. import ordtab, tmpl
from . import view_common as vc
from . import c04
from .common import key_of

META = {
    "explanation": "Static decision of view's region search: the functions that turn regions into node ids are analysed loop by loop (only for-loops "
    "over finite collections or recognised well-founded searches are accepted, so the computation terminates and stays inside the node "
    "list); the guards that dominate every insertion of an indexed node into a region's result are evaluated on every weak ordering of "
    "(region start, region end, node start, node end) and must accept exactly the nodes whose interval [start,end) contains a base of the "
    "inclusive region [a,b]; the nodes found flow as a whole into the list handed to the --node machinery for every region (no constant "
    "subscript, no skipped region); bounds taken from the region string are ordered only after int(); %-format arities are checked; the C04 "
    "rules then apply to the node list.",
    "technique": "static analysis: loop well-foundedness classification, order-type decision table, value-flow of the result list, string-taint of region bounds",
    "exhaustive": True,
}


def check(ctx):
    v = vc.build(ctx, "R05")
    if v.regions_fn is None:
        raise AnalysisError("R05", v.run.where(), "cannot find the call that turns regions into node ids")
    g = v.regions_fn
    ctx.analysed_func(g)
    # the per-region search helper(s)
    repo = ctx.repo
    helpers = []
    for c in walk_own(g.node):
        if isinstance(c, ast.Call):
            h = repo.resolve_call(g, c)
            if h is not None and h.module is v.mod and h is not g:
                helpers.append((h, c))
    funcs = [g] + [h for h, _ in helpers]
    for h, _ in helpers:
        ctx.analysed_func(h)
    ctx.run(r05_1_2, funcs)
    ctx.run(r05_3, g, helpers)
    ctx.run(r05_4, v, g, helpers)
    ctx.run(r05_5, funcs, g)
    # the node list then goes through the C04 machinery
    ctx.run(c04.r04_123, v)
    ctx.run(c04.r04_4, v)
    ctx.run(r05_7, v)
    ctx.run(r05_8, g)
    # regions and nodes are mutually exclusive and the region result replaces the node list
    ok = isinstance(v.regions_call.targets[0], ast.Name)
    ctx.check(ok, "R05.6", v.run.where(v.regions_call), "the nodes found under the regions become the node list of the --node machinery", key_of(v.run, f"regions-to-nodes:{norm(v.regions_call)}"))
    # mechanisms this property rests on (see shared.py): a change there is reported here as well
    from . import shared as _sh

    ctx.run_shared(_sh.path_tokenisers)
    ctx.run_shared(_sh.gaf_reader)
    ctx.run_shared(_sh.graph_loader)
    ctx.run_shared(_sh.contig_paths)
    ctx.run_shared(_sh.index_build)
    ctx.run_shared(_sh.cli_layer, "gaftools.cli.view")
    ctx.run_shared(_sh.cli_layer, "gaftools.cli.index")


# ---------------------------------------------------------------------------------------------


def r05_1_2(ctx, funcs):
    for f in funcs:
        for n in walk_own(f.node):
            if isinstance(n, ast.For):
                it = n.iter
                finite = not (isinstance(it, ast.Call) and norm(it.func) in ("iter", "itertools.count", "itertools.cycle", "itertools.repeat"))
                # the iterated collection must not grow inside the loop
                base = norm(it.args[0]) if isinstance(it, ast.Call) and it.args and norm(it.func) in ("enumerate", "reversed", "sorted", "list") else norm(it)
                grows = any(isinstance(c, ast.Call) and isinstance(c.func, ast.Attribute) and c.func.attr in ("append", "extend", "insert") and norm(c.func.value) == base for c in ast.walk(n))
                ctx.check(finite and not grows, "R05.1", f.where(n), f"for-loop over the finite collection `{norm(it)[:50]}` (not modified inside the loop) terminates", key_of(f, f"for:{norm(it)}"), nontrivial=True)
            elif isinstance(n, ast.While):
                ok, why = while_well_founded(n)
                ctx.check(ok, "R05.1", f.where(n), "while-loop has a recognised strictly decreasing measure under its guard", key_of(f, f"while:{norm(n.test)}:{why}"), why=why)
                okb, whyb = while_bounded_subscripts(n)
                ctx.check(okb, "R05.2", f.where(n), "every index advanced in the loop and used as a subscript is compared with the list length on each iteration", key_of(f, f"scan-bound:{norm(n.test)}:{whyb}"), why=whyb)
        # recursion
        for c in walk_own(f.node):
            if isinstance(c, ast.Call) and ctx.repo.resolve_call(f, c) is f:
                ctx.violated("R05.1", f.where(c), "recursive region search: termination not established by this analysis", key_of(f, "recursion"))
    n_loops = sum(1 for f in funcs for n in walk_own(f.node) if isinstance(n, (ast.For, ast.While)))
    ctx.require_count("R05.1", n_loops, 2, funcs[0].where(), "loops in the region->nodes computation")


def while_well_founded(loop):
    """Bisection idiom: guard `lo < hi` / `lo <= hi`; every path either leaves the loop or sets lo = mid + 1 / hi = mid - 1 / hi = mid (with lo < hi)."""
    t = loop.test
    if isinstance(t, ast.Constant) and t.value is True:
        # bounded scan: some path must break, and a counter must move towards a bound tested in the loop
        brk = [s for s in walk_stmts(loop.body) if isinstance(s, (ast.Break, ast.Return))]
        if not brk:
            return False, "while True without break/return"
        return True, "while True with break (bounds checked by R05.2)"
    if not (isinstance(t, ast.Compare) and len(t.ops) == 1):
        if isinstance(t, ast.BoolOp) and isinstance(t.op, ast.And):
            for v in t.values:
                if isinstance(v, ast.Compare) and len(v.ops) == 1 and isinstance(v.ops[0], (ast.Lt, ast.LtE, ast.Gt, ast.GtE)):
                    r = _measure_moves(loop, v)
                    if r[0]:
                        return r
        return False, f"guard `{norm(t)}` is not an order comparison"
    if isinstance(t.ops[0], (ast.NotEq, ast.Eq)):
        return False, f"guard `{norm(t)}` is an (in)equality: the bounds can step past each other and the loop never ends"
    return _measure_moves(loop, t)


def _measure_moves(loop, cmp):
    lo, hi = norm(cmp.left), norm(cmp.comparators[0])
    if isinstance(cmp.ops[0], (ast.Gt, ast.GtE)):
        lo, hi = hi, lo
    paths = enum_paths(loop.body, rule="R05.1", where=f"line {loop.lineno}")
    for p in paths:
        if p.term in ("break", "return", "raise", "exit"):
            continue
        moved = False
        for e in p.events:
            if e.kind == "stmt" and isinstance(e.node, (ast.Assign, ast.AugAssign)):
                tg = norm(e.node.targets[0]) if isinstance(e.node, ast.Assign) else norm(e.node.target)
                src = norm(e.node.value)
                if tg == lo and (isinstance(e.node, ast.AugAssign) and isinstance(e.node.op, ast.Add) or src.endswith("+ 1")):
                    moved = True
                if tg == hi and (isinstance(e.node, ast.AugAssign) and isinstance(e.node.op, ast.Sub) or src.endswith("- 1")):
                    moved = True
                if tg == hi and isinstance(cmp.ops[0], (ast.Lt, ast.Gt)) and "// 2" in " ".join(norm(x.node) for x in p.events if x.kind == "stmt"):
                    moved = True
        if not moved:
            return False, f"a path through the body changes neither `{lo}` upwards nor `{hi}` downwards: {p.show(6)}"
    return True, f"{hi} - {lo} decreases on every iteration"


def while_bounded_subscripts(loop):
    """Index variables incremented in the loop and used as subscripts must be compared with len() on the loop's guard or in a dominating test."""
    inc = set()
    for s in walk_stmts(loop.body):
        if isinstance(s, ast.AugAssign) and isinstance(s.target, ast.Name) and isinstance(s.op, (ast.Add, ast.Sub)):
            inc.add(s.target.id)
    used = {}
    for s in ast.walk(loop):
        if isinstance(s, ast.Subscript) and isinstance(s.slice, ast.Name) and s.slice.id in inc:
            used.setdefault(s.slice.id, set()).add(norm(s.value))
    for idx, lists in used.items():
        for lst in lists:
            tests = [norm(t) for t in ast.walk(loop) if isinstance(t, ast.Compare) and idx in names_in(t) and f"len({lst})" in norm(t)]
            handlers = [h for t in ast.walk(loop) if isinstance(t, ast.Try) for h in t.handlers if h.type is not None and "IndexError" in norm(h.type)]
            if not tests and not handlers:
                return False, f"`{lst}[{idx}]` with `{idx}` advanced in the loop and never compared with len({lst})"
    return True, "indices bounded"


# ---------------------------------------------------------------------------------------------


def r05_3(ctx, g, helpers):
    """Each append of an indexed node to a region's result: decision table = intersection with the inclusive region."""
    n_sites = 0
    partial = []
    for h, call in helpers:
        # roles: first param = the region triple (contig, start, end), second = the node list
        if len(h.params) < 2:
            continue
        reg, lst = h.params[0], h.params[1]
        qs = qe = None
        zero = []  # a bound that is None for an absent text: decided for the regions that give both numbers; 0 joins the table
        for st in h.node.body:
            v_ = st.value if isinstance(st, ast.Assign) else None
            if isinstance(v_, ast.IfExp) and isinstance(v_.orelse, ast.Constant) and v_.orelse.value is None and isinstance(v_.body, ast.Call) and norm(v_.body.func) == "int" and v_.body.args and norm(v_.test) == norm(v_.body.args[0]):
                v_ = v_.body
                zero = [0]
            if isinstance(st, ast.Assign) and isinstance(st.targets[0], ast.Name) and isinstance(v_, ast.Call) and norm(v_.func) == "int":
                a = v_.args[0]
                if isinstance(a, ast.Subscript) and norm(a.value) == reg:
                    if const_value(a.slice) == 1:
                        qs = st.targets[0].id
                    elif const_value(a.slice) == 2:
                        qe = st.targets[0].id
        if qs is None or qe is None:
            # a bound pulled into the span of the list searched (min / max with entries of the list): the list holds the nodes
            # that carry alignments, not the contig, so a region that lies wholly before the first / after the last of them is
            # moved onto that node instead of finding nothing
            for st in walk_stmts(h.node.body):
                if isinstance(st, ast.Assign) and isinstance(st.targets[0], ast.Name):
                    ints = [c_ for c_ in ast.walk(st.value) if isinstance(c_, ast.Call) and norm(c_.func) == "int" and c_.args and isinstance(c_.args[0], ast.Subscript) and norm(c_.args[0].value) == reg and const_value(c_.args[0].slice, None) in (1, 2)]
                    clamps = [c_ for c_ in ast.walk(st.value) if isinstance(c_, ast.Call) and norm(c_.func) in ("min", "max") and any(x_ is i_ for i_ in ints for x_ in ast.walk(c_))]
                    if ints and clamps:
                        ctx.violated("R05.3", h.where(st), f"`{norm(st)[:70]}` pulls a bound of the region into the span of the nodes searched: the list holds only nodes with alignments, so a region that lies entirely in an unaligned head or tail of its contig (correct answer: nothing found) is answered with the records of the nearest aligned node", key_of(h, "region-bound-clamped"))
                        return
            raise AnalysisError("R05.3", h.where(), "cannot find the integer region bounds (int(region[1]), int(region[2]))")
        # result list: returned name
        rets = [r for r in walk_own(h.node) if isinstance(r, ast.Return) and r.value is not None]
        res = norm(rets[-1].value) if rets else None
        appends = [c for c in walk_own(h.node) if isinstance(c, ast.Call) and isinstance(c.func, ast.Attribute) and c.func.attr in ("append",) and norm(c.func.value) == res]
        inits = [st for st in walk_own(h.node) if isinstance(st, ast.Assign) and norm(st.targets[0]) == res]
        for st in inits:
            if not (isinstance(st.value, ast.List) and not st.value.elts):
                ctx.violated("R05.3", h.where(st), f"the result starts as `{norm(st.value)}`: a node enters the result without an intersection test", key_of(h, f"result-init:{norm(st.value)}"))
        comp = [st for st in walk_own(h.node) if isinstance(st, ast.Return) and isinstance(st.value, ast.ListComp)]
        sites = []
        for c in appends:
            loop = None
            for l in walk_own(h.node):
                if isinstance(l, (ast.For, ast.While)) and any(x is c for x in ast.walk(l)):
                    if loop is None or any(x is l for x in ast.walk(loop)):
                        loop = l
            sites.append((c, loop))
        for c, loop in sites:
            n_sites += 1
            elem = norm(c.args[0])
            body = loop.body if loop is not None else h.node.body
            paths = enum_paths(body, rule="R05.3", where=h.where(c))
            stmt = next(st for st in walk_stmts(body) if isinstance(st, ast.Expr) and st.value is c)

            def atom_of(e, elem=elem, qs=qs, qe=qe):
                t = norm(e)
                if t == f"{elem}[2]":
                    return "s"
                if t == f"{elem}[3]":
                    return "e"
                if t == qs:
                    return "qs"
                if t == qe:
                    return "qe"
                return None

            bad = None
            rows = 0
            for env, scale in ordtab.weak_orderings(["s", "e", "qs", "qe"], zero):
                if not (env["s"] < env["e"] and env["qs"] <= env["qe"]) or (zero and min(env.values()) < 0):
                    continue
                rows += 1
                ps = ordtab.consistent_paths(paths, env, atom_of, scale)
                outs = {any(e.kind == "stmt" and e.node is stmt for e in p.events) for p in ps if p.term in ("fall", "continue", "break", "loopback")}
                want = env["s"] <= env["qe"] and env["qs"] < env["e"]
                if want and outs == {False}:
                    bad = {"ordering": order(env), "problem": "a node under the region is not returned"}
                    break
                if not want and True in outs:
                    bad = {"ordering": order(env), "problem": "a node that does not intersect the region can be returned"}
                    break
                if want and outs == {True, False}:
                    # may be legitimate only if the other outcome depends on something outside the table: report as missed node
                    bad = {"ordering": order(env), "problem": "whether a node under the region is returned depends on conditions other than the interval test"}
                    break
            ctx.check(bad is None, "R05.3", h.where(c), f"`{elem}` enters a region's result exactly when its interval [start,end) intersects the inclusive region [a,b] (start <= b and a < end), on all orderings", key_of(h, f"region-filter:{bad['ordering'] if bad else ''}:{bad['problem'] if bad else ''}"), rows=rows, **({"witness": bad} if bad else {}))
            # the loop must look at every indexed node of the contig (or stop only when no later node can intersect)
            if isinstance(loop, ast.For):
                whole = norm(loop.iter) == lst
                brk = [s for s in walk_stmts(loop.body) if isinstance(s, ast.Break)]
                # an early exit is sound when it is taken only for a node that starts beyond the region end:
                # the list is sorted by start, so no later node can intersect either
                brk_ok = True
                for pth in paths:
                    if pth.term != "break":
                        continue
                    for env, scale in ordtab.weak_orderings(["s", "e", "qs", "qe"], []):
                        if not (env["s"] < env["e"] and env["qs"] <= env["qe"]):
                            continue
                        if ordtab.consistent_paths([pth], env, atom_of, scale) and not env["s"] > env["qe"]:
                            brk_ok = False
                if brk and not brk_ok:
                    ctx.violated("R05.3", h.where(loop), "the scan stops early at a node that does not start beyond the region end: later nodes under the region are lost", key_of(h, "early-break"))
                elif not whole:
                    verdict = skipped_prefix(h, loop, lst, qs)
                    if verdict == "sound":
                        ctx.holds("R05.3", h.where(loop), "the scan skips only nodes that start at or before the node holding the region start (clamped bisect on the sorted starts): disjoint intervals left of it end at or before the region start")
                    elif verdict is None:
                        partial.append((h, loop))
                    else:
                        ctx.violated("R05.3", h.where(loop), verdict, key_of(h, f"skipped-prefix:{norm(loop.iter)}"))
                else:
                    ctx.holds("R05.3", h.where(loop), "the search examines every indexed node of the contig" + (" (it stops only at a node that starts beyond the region end; the list is sorted by start)" if brk else ""))
        comp_assign = [st.value for st in walk_own(h.node) if isinstance(st, ast.Assign) and norm(st.targets[0]) == res and isinstance(st.value, ast.ListComp)]
        for lc in [r.value for r in comp] + comp_assign:
            n_sites += 1
            gen = lc.generators[0] if len(lc.generators) == 1 else None
            if gen is None or norm(lc.elt) != norm(gen.target):
                raise AnalysisError("R05.3", h.where(lc), "list-comprehension result of an unrecognised shape")
            elem = norm(gen.target)

            def atom_c(e, elem=elem, qs=qs, qe=qe):
                t = norm(e)
                return {f"{elem}[2]": "s", f"{elem}[3]": "e", qs: "qs", qe: "qe"}.get(t)

            bad = None
            rows = 0
            for env, scale in ordtab.weak_orderings(["s", "e", "qs", "qe"], []):
                if not (env["s"] < env["e"] and env["qs"] <= env["qe"]):
                    continue
                rows += 1
                try:
                    kept = all(ordtab.Evaluator(env, atom_c, scale).truth(c) for c in gen.ifs)
                except ordtab.Unsupported as ex:
                    raise AnalysisError("R05.3", h.where(lc), f"comprehension filter outside the comparison fragment: {ex}")
                want = env["s"] <= env["qe"] and env["qs"] < env["e"]
                if kept != want:
                    bad = {"ordering": order(env), "problem": "a node under the region is not returned" if want else "a node that does not intersect the region is returned"}
                    break
            ctx.check(bad is None, "R05.3", h.where(lc), f"`{elem}` enters a region's result exactly when its interval [start,end) intersects the inclusive region [a,b] (start <= b and a < end), on all orderings", key_of(h, f"region-filter:{bad['ordering'] if bad else ''}:{bad['problem'] if bad else ''}"), rows=rows, **({"witness": bad} if bad else {}))
            ctx.check(norm(gen.iter) == lst, "R05.3", h.where(lc), "the search examines every indexed node of the contig", key_of(h, f"partial-scan:{norm(gen.iter)}"))
    if n_sites == 0:
        # no per-node decision at all: a result cut out of the list as one slice decides membership from one end of the
        # interval only (the indexed nodes of a contig have gaps: the node before a gap ends before the region starts)
        for h, call in helpers:
            lst = h.params[1] if len(h.params) > 1 else None
            for r in walk_own(h.node):
                if isinstance(r, ast.Return) and isinstance(r.value, ast.Subscript) and isinstance(r.value.slice, ast.Slice) and norm(r.value.value) == lst:
                    reads = {const_value(x.slice) for x in walk_own(h.node) if isinstance(x, ast.Subscript) and isinstance(const_value(x.slice), int) and not (isinstance(x.value, ast.Name) and x.value.id == h.params[0])}
                    if 3 not in reads:
                        ctx.violated("R05.3", h.where(r), f"the nodes of a region are returned as one slice `{norm(r.value)}` located from the node starts alone: the end of the first node of the slice is never compared with the region start, so an aligned node that ends before the region (the node in front of a gap) is returned", key_of(h, "slice-without-end-check"))
    ctx.require_count("R05.3", n_sites, 1, g.where(), "insertions of indexed nodes into a region's result")
    if partial and not any(i.verdict == "violated" and i.rule == "R05.3" for i in ctx.instances):
        h, loop = partial[0]
        raise AnalysisError("R05.3", h.where(loop), f"the search scans only `{norm(loop.iter)}`: whether the skipped nodes lie outside the region is not decidable by this analysis")


def skipped_prefix(h, loop, lst, qs):
    """Slice `LIST[lo:]`: 'sound' for lo = max(bisect_right([x[2] for x in LIST], qs) - 1, 0); a violation text for the
    unclamped form (lo may be -1: the slice [-1:] looks at the last node only); None if not recognised."""
    it = loop.iter
    if not (isinstance(it, ast.Subscript) and isinstance(it.slice, ast.Slice) and norm(it.value) == lst and it.slice.upper is None and it.slice.step is None and isinstance(it.slice.lower, ast.Name)):
        return None
    lo = it.slice.lower.id
    defs = [st for st in walk_own(h.node) if isinstance(st, ast.Assign) and norm(st.targets[0]) == lo]
    if len(defs) != 1:
        return None
    v = defs[0].value

    def is_bisect_minus1(e):
        if isinstance(e, ast.BinOp) and isinstance(e.op, ast.Sub) and const_value(e.right) == 1 and isinstance(e.left, ast.Call) and norm(e.left.func).split(".")[-1] == "bisect_right" and len(e.left.args) == 2:
            keys, q = e.left.args
            ksrc = norm(keys)
            if isinstance(keys, ast.Name):
                kd = [st for st in walk_own(h.node) if isinstance(st, ast.Assign) and norm(st.targets[0]) == keys.id]
                ksrc = norm(kd[0].value) if len(kd) == 1 else ksrc
            m_ = re_match_starts(ksrc, lst)
            return m_ and norm(q) == qs
        return False

    if isinstance(v, ast.Call) and isinstance(v.func, ast.Name) and v.func.id == "max" and len(v.args) == 2:
        a, b = v.args
        if (const_value(a) == 0 and is_bisect_minus1(b)) or (const_value(b) == 0 and is_bisect_minus1(a)):
            return "sound"
    if is_bisect_minus1(v):
        return f"the scan starts at `{norm(v)}`, which is -1 when the region starts before the first aligned node of the contig: the slice then examines only the last node and the nodes under the region are lost"
    return None


def re_match_starts(src, lst):
    import re as _re

    return bool(_re.fullmatch(rf"\[(\w+)\[2\] for \1 in {_re.escape(lst)}\]", src))


def order(env):
    names = ["s", "e", "qs", "qe"]
    label = {"s": "node.start", "e": "node.end", "qs": "a", "qe": "b"}
    items = sorted(names, key=lambda n: (env[n], n))
    out = label[items[0]]
    for x, y in zip(items, items[1:]):
        out += (" = " if env[x] == env[y] else " < ") + label[y]
    return out


# ---------------------------------------------------------------------------------------------


def r05_4(ctx, v, g, helpers):
    # the region loop
    loops = [n for n in g.node.body if isinstance(n, ast.For)]
    region_loop = None
    for l in loops:
        if any(any(x is c for x in ast.walk(l)) for _, c in helpers):
            region_loop = l
    if region_loop is None:
        raise AnalysisError("R05.4", g.where(), "cannot find the loop over the regions")
    h, call = next((h, c) for h, c in helpers if any(x is c for x in ast.walk(region_loop)))
    # one region without indexed nodes must not stop the others: the per-region search hands back an empty list
    from .c09 import guards_of as _guards_of

    for scope in [h] + [g]:
        body_ = scope.node if scope is h else region_loop
        for rs in ast.walk(body_):
            if isinstance(rs, ast.Raise) or (isinstance(rs, ast.Expr) and isinstance(rs.value, ast.Call) and norm(rs.value.func) in ("sys.exit", "exit")):
                gs = [(norm(t_), pol_) for t_, pol_ in _guards_of(scope.node, rs)]
                empt = [t_ for t_, pol_ in gs if (pol_ and (("len(" in t_ and ("== 0" in t_ or "< 1" in t_)) or t_.endswith("== []"))) or (not pol_ and t_.isidentifier())]
                if empt:
                    ctx.violated("R05.4", scope.where(rs), f"the search of one region stops the command when it finds no indexed node (`{empt[0][:50]}`): in a list of regions, a region that covers only nodes without alignments makes the records of all the other regions disappear (a --node list with such a node still prints the others)", key_of(scope, f"empty-region-aborts:{empt[0][:40]}"))
    # ... nor does any other function of the command turn a single region away by what the index happens to contain (a contig
    # without indexed nodes, a start beyond the last indexed node): the index lists aligned nodes only
    for fn_ in ctx.repo.module("gaftools.cli.view").funcs.values():
        idx_params = [p_ for p_ in fn_.params if p_ in ("index", "ind", "idx", "index_dict", "ind_dict")]
        reg_params = [p_ for p_ in fn_.params if "region" in p_]
        if not idx_params or not reg_params:
            continue
        tainted = set(idx_params)
        for _ in range(3):
            for st_ in walk_own(fn_.node):
                tg_ = None
                if isinstance(st_, ast.Assign) and any(isinstance(x_, ast.Name) and x_.id in tainted for x_ in ast.walk(st_.value)):
                    tg_ = st_.targets[0]
                elif isinstance(st_, ast.For) and any(isinstance(x_, ast.Name) and x_.id in tainted for x_ in ast.walk(st_.iter)):
                    tg_ = st_.target
                    for s2_ in ast.walk(st_):
                        if isinstance(s2_, ast.Assign) and isinstance(s2_.targets[0], ast.Subscript) and isinstance(s2_.targets[0].value, ast.Name):
                            tainted.add(s2_.targets[0].value.id)
                if tg_ is not None:
                    tainted |= {x_.id for x_ in ast.walk(tg_) if isinstance(x_, ast.Name)} if not isinstance(tg_, ast.Subscript) else ({tg_.value.id} if isinstance(tg_.value, ast.Name) else set())
        for lp_ in walk_own(fn_.node):
            if isinstance(lp_, ast.For) and any(isinstance(x_, ast.Name) and x_.id in reg_params for x_ in ast.walk(lp_.iter)):
                for rs in ast.walk(lp_):
                    if isinstance(rs, ast.Raise):
                        gs = [norm(t_) for t_, _p in _guards_of(fn_.node, rs) if tainted & {x_.id for x_ in ast.walk(t_) if isinstance(x_, ast.Name)}]
                        if gs:
                            ctx.violated("R05.4", fn_.where(rs), f"{fn_.qualname} stops the command for one region because of what the index contains (`{gs[0][:60]}`): the index lists only nodes that carry alignments, so a region over an unaligned stretch (past the last aligned node of its contig, on a contig without alignments) makes the records of the other regions of the same command disappear", key_of(fn_, f"region-rejected-by-index:{gs[0][:40]}"))
    asg = [st for st in walk_stmts(region_loop.body) if isinstance(st, ast.Assign) and st.value is call]
    if not asg:
        raise AnalysisError("R05.4", g.where(call), "the search result is not bound to a variable")
    found = norm(asg[0].targets[0])
    rets = [r for r in walk_own(g.node) if isinstance(r, ast.Return) and r.value is not None]
    res = norm(rets[-1].value)
    paths = enum_paths(region_loop.body, expand_loop=lambda n: False, rule="R05.4", where=g.where(region_loop))
    bad = None
    for p in paths:
        if p.term in ("raise", "exit"):
            continue
        searched = any(e.kind == "stmt" and e.node is asg[0] for e in p.events)
        if not searched:
            memo = [e.node for e in p.events if e.kind == "stmt" and isinstance(e.node, ast.Assign) and norm(e.node.targets[0]) == found and ((isinstance(e.node.value, ast.Call) and isinstance(e.node.value.func, ast.Attribute) and e.node.value.func.attr == "get") or isinstance(e.node.value, ast.Subscript))]
            if memo:
                raise AnalysisError("R05.4", g.where(memo[0]), f"the nodes of a region may come out of a table (`{norm(memo[0].value)[:50]}`) instead of a search in this iteration: that the table holds the search result of the same region is not followed by this rule")
            bad = (p, "a region is skipped without being searched")
            break
        # after the search: the whole found list must flow into res
        flow = False
        for e in p.events:
            if e.kind == "loop" and norm(e.node.iter) == found:
                # for nd in found: res.append(nd[0])
                apps = [c for c in ast.walk(e.node) if isinstance(c, ast.Call) and isinstance(c.func, ast.Attribute) and c.func.attr == "append" and norm(c.func.value) == res]
                if apps and norm(apps[0].args[0]) == f"{norm(e.node.target)}[0]" and not any(isinstance(x, (ast.If, ast.Break, ast.Continue)) for x in ast.walk(e.node)):
                    flow = True
            if e.kind == "stmt" and isinstance(e.node, ast.Expr) and isinstance(e.node.value, ast.Call) and isinstance(e.node.value.func, ast.Attribute) and norm(e.node.value.func.value) == res and e.node.value.func.attr == "extend":
                a = e.node.value.args[0]
                if isinstance(a, (ast.GeneratorExp, ast.ListComp)) and norm(a.generators[0].iter) == found and not a.generators[0].ifs and norm(a.elt) == f"{norm(a.generators[0].target)}[0]":
                    flow = True
            if e.kind == "stmt" and isinstance(e.node, ast.Expr) and isinstance(e.node.value, ast.Call) and isinstance(e.node.value.func, ast.Attribute) and norm(e.node.value.func.value) == res and e.node.value.func.attr == "append":
                a = norm(e.node.value.args[0])
                if a.startswith(f"{found}[") :
                    bad = (p, f"only `{a}` of the nodes found is used (constant subscript): the other nodes under the region are lost")
        if bad:
            break
        if not flow:
            bad = (p, "the nodes found for a region do not flow as a whole into the result")
            break
    ctx.check(bad is None, "R05.4", g.where(region_loop), "every region is searched and all nodes found under it (their ids) are added to the node list", key_of(g, f"region-flow:{bad[1] if bad else ''}"), paths=len(paths), **({"path": bad[0].show(), "why": bad[1]} if bad else {}))
    # the search is handed this region's own contig / start / end and the node list of that contig
    region_triple(ctx, g, region_loop, call)
    # the regions handed over are the user's regions themselves
    rc = getattr(v, "regions_call", None)
    if rc is not None and rc.value.args:
        a0 = rc.value.args[0]
        if not (isinstance(a0, ast.Name) and a0.id in v.run.params):
            # one thing is decidable about a pre-processing helper: an interval merge that overwrites the kept end with
            # the current end (instead of the larger of the two) shrinks a region that contains the next one
            pre = ctx.repo.resolve_call(v.run, a0) if isinstance(a0, ast.Call) else None
            if pre is not None:
                for st in walk_stmts(pre.node.body):
                    w = shrinking_merge(pre, st)
                    if w:
                        ctx.violated("R05.4", pre.where(st), w, key_of(pre, f"merge-shrinks:{norm(st)[:60]}"))
                        return
            raise AnalysisError("R05.4", v.run.where(rc), f"the regions are pre-processed (`{norm(a0)[:60]}`) before the node lookup: outside the rules (every requested region must still be covered)")
    # a per-contig node list that is kept for later regions must be a real list: a one-shot iterator (filter / map /
    # generator) is exhausted by the first region that scans it
    lazy = []
    for st in walk_stmts(region_loop.body):
        if isinstance(st, ast.Assign) and isinstance(st.targets[0], ast.Subscript) and isinstance(st.value, (ast.Call, ast.GeneratorExp, ast.Name)):
            val = st.value
            if isinstance(val, ast.Name):
                ds = [x.value for x in walk_stmts(region_loop.body) if isinstance(x, ast.Assign) and norm(x.targets[0]) == val.id]
                val = ds[-1] if ds else val
            if isinstance(val, ast.GeneratorExp) or (isinstance(val, ast.Call) and norm(val.func) in ("filter", "map", "zip", "iter", "reversed", "itertools.chain", "itertools.islice")):
                lazy.append((st, val))
    for st, val in lazy:
        ctx.violated("R05.4", g.where(st), f"the node list cached for a contig is a one-shot iterator (`{norm(val)[:50]}`): the first region of the contig consumes it, later regions of the same contig find nothing", key_of(g, f"cached-iterator:{norm(val)[:60]}"))
    # ... and a node list looked up (or built) in this very iteration, not one left over from the previous region
    if len(call.args) > 1 and isinstance(call.args[1], ast.Name):
        lv = call.args[1].id
        stale = None
        for p in paths:
            seen = False
            for e in p.events:
                if e.kind == "stmt" and isinstance(e.node, ast.Assign) and any(norm(t) == lv for t in e.node.targets) and not any(x.kind == "exc" and x.node is e.node for x in p.events):
                    seen = True
                if e.kind == "stmt" and any(x is call for x in ast.walk(e.node)):
                    if not seen:
                        stale = p
                    break
        ctx.check(stale is None, "R05.4", g.where(call), f"the node list `{lv}` searched for a region is looked up or built in the same iteration (a cache hit must read the cache, not keep the previous region's list)", key_of(g, f"stale-node-list:{lv}"), **({"path": stale.show()} if stale else {}))
    # the per-contig list: all index keys of that contig (tuple keys), sorted by start
    filt = [n for n in walk_own(g.node) if isinstance(n, ast.Compare) and len(n.ops) == 1 and isinstance(n.ops[0], ast.Eq) and isinstance(n.left, ast.Subscript) and const_value(n.left.slice) == 1 and isinstance(n.comparators[0], ast.Name)]
    ctx.check(len(filt) == 1, "R05.4", g.where(), "the nodes searched for a region are the index entries of the region's contig (key position 1 == contig)", key_of(g, f"contig-filter:{[norm(x) for x in filt]}"))
    for fc in filt:
        for b in walk_own(g.node):
            if isinstance(b, ast.BoolOp) and isinstance(b.op, ast.Or) and any(v is fc for v in b.values):
                alt = [norm(v) for v in b.values if v is not fc]
                ctx.violated("R05.4", g.where(b), f"the per-contig filter also lets through index entries with `{alt[0][:60]}`: nodes of another contig (e.g. `GRCh38#0#chr1` for a region on `chr1`) that lie at the same coordinates are searched too, and their alignments are returned for the region", key_of(g, f"contig-filter-widened:{alt[0][:40]}"))
    # ... and by nothing else: a second way of choosing index entries for the contig (a fall-back on a suffix / prefix / substring
    # of the name when the exact name has no entry) answers a region on a contig without alignments with another contig's records
    if filt:
        cv = filt[0].comparators[0].id
        for n_ in walk_own(g.node):
            other = None
            if isinstance(n_, ast.Compare) and n_ not in filt and len(n_.ops) == 1 and any(isinstance(x, ast.Subscript) and const_value(x.slice, None) == 1 for x in ast.walk(n_)) and cv in {x.id for x in ast.walk(n_) if isinstance(x, ast.Name)}:
                if not (isinstance(n_.ops[0], ast.Eq) and isinstance(n_.left, ast.Subscript) and const_value(n_.left.slice, None) == 1 and norm(n_.comparators[0]) == cv) and not (isinstance(n_.ops[0], ast.Eq) and norm(n_.left) == cv and isinstance(n_.comparators[0], ast.Subscript) and const_value(n_.comparators[0].slice, None) == 1):
                    other = n_
            elif isinstance(n_, ast.Call) and isinstance(n_.func, ast.Attribute) and n_.func.attr in ("endswith", "startswith") and isinstance(n_.func.value, ast.Subscript) and const_value(n_.func.value.slice, None) == 1 and n_.args and norm(n_.args[0]) == cv:
                other = n_
            if other is not None:
                ctx.violated("R05.4", g.where(other), f"index entries are also chosen for the contig by `{norm(other)[:60]}`, not by the exact name: a region on a contig that has no aligned node (correct answer: nothing) is answered with the alignments of another contig whose name resembles it (`GRCh38#0#chr2` for `chr2`)", key_of(g, f"contig-filter-second:{norm(other)[:40]}"))
    # a region of one base (start == end - ... as given: a == b) is a region: the command line does not reject it
    view = ctx.repo.module("gaftools.cli.view", "R05.4")
    from .c09 import guards_of as _gof5

    for fn_ in view.funcs.values():
        for st_ in walk_stmts(fn_.node.body):
            is_exit = isinstance(st_, ast.Raise) or (isinstance(st_, ast.Expr) and isinstance(st_.value, ast.Call) and norm(st_.value.func).split(".")[-1] in ("error", "exit"))
            if not is_exit:
                continue
            for t_, pol_ in _gof5(fn_.node, st_):
                for c_ in ast.walk(t_):
                    if isinstance(c_, ast.Compare) and len(c_.ops) == 1 and isinstance(c_.ops[0], (ast.GtE, ast.LtE)) and pol_:
                        sides = [c_.left, c_.comparators[0]]

                        def _is_bound(e_):
                            if isinstance(e_, ast.Call) and norm(e_.func) == "int":
                                return True
                            if isinstance(e_, ast.Name):
                                return any(isinstance(a_, ast.Assign) and any(norm(x_) == e_.id for tt_ in a_.targets for x_ in (tt_.elts if isinstance(tt_, ast.Tuple) else [tt_])) and any(isinstance(y_, ast.Call) and norm(y_.func) in ("int", "map") for y_ in ast.walk(a_.value)) for a_ in walk_own(fn_.node))
                            return False

                        if all(_is_bound(e_) for e_ in sides) and "region" in " ".join(norm(x_) for x_ in ast.walk(fn_.node) if isinstance(x_, (ast.Name, ast.Attribute)))[:20000]:
                            ctx.violated("R05.4", fn_.where(st_), f"the command stops when `{norm(c_)[:50]}`: a region whose two bounds are equal (one position, `chr1:150-150`) is a valid region and has an answer (the alignments over the node that contains that position)", key_of(fn_, f"one-base-region-rejected:{norm(c_)[:40]}"))


def r05_5(ctx, funcs, g):
    # %-format arities
    n = 0
    for f in funcs:
        for e in walk_own(f.node):
            if isinstance(e, ast.BinOp) and isinstance(e.op, ast.Mod) and isinstance(e.left, ast.Constant) and isinstance(e.left.value, str):
                n += 1
                parts = tmpl.of_expr(e)
                errs = list(tmpl.arity_errors(parts))
                # a single non-tuple argument that is an index key (tuple) is an arity error at run time
                single_tuple = False
                if not isinstance(e.right, ast.Tuple) and e.left.value.count("%") - 2 * e.left.value.count("%%") == 1:
                    src = norm(e.right)
                    if src.endswith("]") and any(isinstance(x, ast.Subscript) for x in ast.walk(e.right)) and "regions" not in src and "[0]" not in src[-4:]:
                        # element of a list of index keys
                        single_tuple = any(isinstance(st, ast.Assign) and norm(st.targets[0]) == norm(e.right.value) and isinstance(st.value, ast.Call) for st in walk_own(f.node)) if isinstance(e.right, ast.Subscript) else False
                ctx.check(not errs and not single_tuple, "R05.5", f.where(e), "log line format: number of placeholders equals number of arguments (a 4-tuple index key is not a single argument)", key_of(f, f"format:{norm(e)[:80]}"), **({"error": errs[0][2]} if errs else {}))
    # string-derived bounds never ordered without int()
    for f in funcs:
        tainted = set()
        for st in walk_own(f.node):
            if isinstance(st, ast.Assign) and isinstance(st.targets[0], ast.Name) and ".split(" in norm(st.value) and "int(" not in norm(st.value):
                tainted.add(st.targets[0].id)
        for c in walk_own(f.node):
            if isinstance(c, ast.Compare) and any(isinstance(o, (ast.Lt, ast.LtE, ast.Gt, ast.GtE)) for o in c.ops):
                for side in [c.left] + c.comparators:
                    root = side
                    while isinstance(root, ast.Subscript):
                        root = root.value
                    if isinstance(root, ast.Name) and root.id in tainted:
                        ctx.violated("R05.5", f.where(c), f"`{norm(c)}` orders region bounds as strings ('10' < '5'): bounds must be compared after int()", key_of(f, f"string-order:{norm(c)}"))
        ctx.holds("R05.5", f.where(), f"no ordering comparison on the {len(tainted)} string-valued names derived from the region text", nontrivial=bool(tainted))
    ctx.require_count("R05.5", n, 1, g.where(), "format expressions in the region functions")


def r05_7(ctx, v):
    """Command line: -n/--node and -r/--region may be given several times and accumulate (action='append')."""
    aa = v.mod.funcs.get("add_arguments")
    if aa is None:
        raise AnalysisError("R05.7", v.mod.relpath, "add_arguments vanished")
    ctx.analysed_func(aa)
    seen = {}
    for c in walk_own(aa.node):
        if isinstance(c, ast.Call) and c.args and any(const_value(a) in ("--region", "--node") for a in c.args):
            kw = {k.arg: k.value for k in c.keywords}
            which = "regions" if any(const_value(a) == "--region" for a in c.args) else "nodes"
            seen[which] = c
            ok = const_value(kw.get("action"), None) == "append" and norm(kw.get("default")) == "[]" and const_value(kw.get("dest"), None) == which and "nargs" not in kw
            ctx.check(ok, "R05.7", aa.where(c), f"the option for {which} accumulates every occurrence (action='append', default [], dest='{which}'): `-r R1 -r R2` searches both regions", key_of(aa, f"argparse:{which}:{ {k: norm(x) for k, x in kw.items() if k in ('action', 'nargs', 'default', 'dest')} }"))
    ctx.require_count("R05.7", len(seen), 2, aa.where(), "--node and --region options")


def r05_8(ctx, g):
    """(decided together with R05.4 by region_triple: the three values handed to the search are, symbolically in the
    region text R of the same iteration, R.split(':')[0], R.split(':')[1].split('-')[0] and ...split('-')[-1])"""
    return


class _Sub(ast.NodeTransformer):
    def __init__(self, names, subs):
        self.names, self.subs = names, subs

    def visit_Subscript(self, node):
        t = norm(node)
        if t in self.subs:
            import copy

            return copy.deepcopy(self.subs[t])
        return self.generic_visit(node)

    def visit_Name(self, node):
        if isinstance(node.ctx, ast.Load) and node.id in self.names:
            import copy

            return copy.deepcopy(self.names[node.id])
        return node


def shrinking_merge(f, st):
    """`kept[-1][k] = end` inside `for ..., end in sorted(...)` under a test that does not compare `end` with the kept
    end: intervals sorted by start may be nested, so the kept end can move down and the tail of the earlier region is no
    longer searched."""
    if not (isinstance(st, ast.Assign) and len(st.targets) == 1 and isinstance(st.targets[0], ast.Subscript) and isinstance(st.value, ast.Name)):
        return None
    tg = st.targets[0]
    if not (isinstance(tg.value, ast.Subscript) and const_value(tg.value.slice, None) == -1):
        return None
    end = st.value.id
    loop = guard = None
    for n in walk_own(f.node):
        if isinstance(n, ast.For) and any(x is st for x in ast.walk(n)) and isinstance(n.target, ast.Tuple) and n.target.elts and norm(n.target.elts[-1]) == end:
            loop = n
    if loop is None or not (isinstance(loop.iter, ast.Call) and norm(loop.iter.func) == "sorted"):
        return None
    for n in walk_stmts(loop.body):
        if isinstance(n, ast.If) and any(x is st for x in n.body):
            guard = n
    if guard is None:
        return None
    kept = norm(tg)
    for c in ast.walk(guard.test):
        if isinstance(c, ast.Compare) and end in names_in(c) and kept in norm(c):
            return None  # the ends are compared: not this rule's shape
    if kept not in norm(guard.test) and norm(tg.value) not in norm(guard.test):
        return None
    return (f"`{norm(st)}` replaces the end of the region kept so far with the end of the overlapping region that follows in start order, "
            f"which may be smaller (CONTIG:10-100 then CONTIG:20-30 gives 10-30): the nodes under the rest of the first region are not looked up")


def region_triple(ctx, g, region_loop, call):
    """Symbolic value, in terms of the region text R of the current iteration, of the three elements handed to the
    search: through parallel lists built by comprehensions over the regions, enumerate / zip / range(len()) loops and
    temporaries of the loop body."""
    import copy

    from ..core import local_defs

    R = ast.Name(id="R", ctx=ast.Load())
    regions = g.params[0]
    # parallel lists: L = [E(x) for x in regions]
    per = {}
    for st in walk_own(g.node):
        if isinstance(st, ast.Assign) and isinstance(st.targets[0], ast.Name) and isinstance(st.value, ast.ListComp) and len(st.value.generators) == 1 and norm(st.value.generators[0].iter) == regions and not st.value.generators[0].ifs and isinstance(st.value.generators[0].target, ast.Name):
            x = st.value.generators[0].target.id
            per[st.targets[0].id] = _Sub({x: R}, {}).visit(copy.deepcopy(st.value.elt))

    def elem_of(listexpr):
        """expression for the current element of a list iterated in lock step with the regions"""
        t = norm(listexpr)
        if t == regions:
            return R
        if t in per:
            return per[t]
        return None

    names, subs = {}, {}
    it = region_loop.iter
    tg = region_loop.target
    fn = norm(it.func) if isinstance(it, ast.Call) else None
    if fn == "enumerate" and isinstance(tg, ast.Tuple) and len(tg.elts) == 2:
        e = elem_of(it.args[0])
        if e is not None:
            names[norm(tg.elts[1])] = e
        idx = norm(tg.elts[0])
        for L in list(per) + [regions]:
            subs[f"{L}[{idx}]"] = elem_of(ast.Name(id=L, ctx=ast.Load()))
    elif fn == "zip" and isinstance(tg, ast.Tuple) and len(tg.elts) == len(it.args):
        for t_, a_ in zip(tg.elts, it.args):
            e = elem_of(a_)
            if e is not None:
                names[norm(t_)] = e
    elif fn == "range" and isinstance(tg, ast.Name):
        idx = tg.id
        for L in list(per) + [regions]:
            subs[f"{L}[{idx}]"] = elem_of(ast.Name(id=L, ctx=ast.Load()))
    elif isinstance(tg, ast.Name) and elem_of(it) is not None:
        names[tg.id] = elem_of(it)
    else:
        raise AnalysisError("R05.8", g.where(region_loop), "the loop over the regions is not an enumerate / zip / range / direct iteration over lists parallel to the regions")
    trip = call.args[0] if call.args else None
    if not (isinstance(trip, (ast.List, ast.Tuple)) and len(trip.elts) == 3):
        raise AnalysisError("R05.8", g.where(call), "the search is not handed a (contig, start, end) triple")
    # temporaries of the loop body (single definition)
    ld = local_defs(ast.Module(body=region_loop.body, type_ignores=[]))
    temps = {k: v[0] for k, v in ld.items() if len(v) == 1 and v[0] is not None and k not in names}

    def resolve(e, depth=0):
        e = copy.deepcopy(e)
        for _ in range(4):
            e2 = _Sub({**temps, **names}, subs).visit(copy.deepcopy(e))
            if norm(e2) == norm(e):
                break
            e = e2
        ast.fix_missing_locations(e)
        return norm(e)

    got = [resolve(x) for x in trip.elts]
    rest = "R.split(':')[1]"
    want = (["R.split(':')[0]"], [f"{rest}.split('-')[0]"], [f"{rest}.split('-')[-1]", f"{rest}.split('-')[1]"])
    unresolved = [t for t in got if "R" not in {n.id for n in ast.walk(ast.parse(t, mode="eval")) if isinstance(n, ast.Name)}]
    if unresolved:
        raise AnalysisError("R05.8", g.where(call), f"cannot express the search triple in terms of the region text: {got}")
    others = {n.id for t in got for n in ast.walk(ast.parse(t, mode="eval")) if isinstance(n, ast.Name)} - {"R", "int", "str"}
    same = not others
    ctx.check(same, "R05.4", g.where(call), "the search receives contig, start and end of one and the same region", key_of(g, f"search-args:{got}"), triple=got)
    strip = [t[4:-1] if t.startswith("int(") and t.endswith(")") else t for t in got]
    ok = all(t in w for t, w in zip(strip, want))
    ctx.check(ok, "R05.8", g.where(call), "a region CONTIG:a-b is handed to the search as contig = text before ':', start = first and end = last part of the '-' split of the remainder", key_of(g, f"region-parse:{strip}"), triple=strip)
